--------------------------- MODULE ClusterDownload ---------------------------
(* API-level specification of blobclient.ClusterClient.DownloadBlob (property C35):
   Poll over the resolved origins in order, each request answered by the origin with
     Full (200)  200 and the whole blob,
     Cut  (1)    200, k < n body bytes, then the connection is dropped,
     202         blob still being fetched: poll the same origin again after a backoff,
     5xx / NetErr (0) origin unavailable: go on to the next origin,
     404         blob does not exist: ErrBlobNotFound at once,
     other 4xx   returned at once.
   dst is append-only (an io.Writer): a sequence of chunks, chunk k = the first k bytes of
   the blob (k = n is the whole blob).  Blob = <<n>> (<<>> for the empty blob).

   One history:  Download(no, n, seek)  Req*  Return(res).
   Req(o, r, k, cont, reset) says what origin o answered and what the implementation does
   with a failed origin: cont = go on to the next origin (giving up early is allowed only when
   dst already holds a partial blob that cannot be taken back), reset = rewind a seekable dst.
   The code as built always continues and never rewinds.  The specification's own Next only
   generates behaviours that keep the property: once dst holds a partial blob the call
   either rewinds dst (only possible if it is seekable) or stops asking origins and fails.
   The trace specification applies Req with the choices the real execution made (inferred
   from the following events); invariant SuccessExact judges the result.              *)
EXTENDS Integers, Sequences, FiniteSets
CONSTANTS MaxOrigins,    \* origins resolved: 0 (resolve fails) .. MaxOrigins
          Sizes,         \* blob lengths
          MaxPolls       \* bound on consecutive 202 answers of one origin (model checking only)
Full == 200
Cut == 1
NetErr == 0
Retry5xx == {500, 502, 503, 504}
Fatal4xx == {400, 403, 409}

VARIABLES phase,    \* "idle" | "busy" | "done"
          no, n,    \* number of origins, blob length
          seek,     \* dst can be rewound
          oi,       \* origin to ask next (1-based)
          polls,    \* consecutive 202 answers of origin oi
          dst,      \* Seq of chunk lengths (each in 1..n)
          gotFull,  \* some origin delivered the whole blob into the current dst
          verdict,  \* outcome once determined: "none" | "ok" | "nf" | "err"
          result    \* what DownloadBlob returned
vars == <<phase, no, n, seek, oi, polls, dst, gotFull, verdict, result>>

Blob == IF n = 0 THEN <<>> ELSE <<n>>
RECURSIVE Sum(_)
Sum(s) == IF s = <<>> THEN 0 ELSE Head(s) + Sum(Tail(s))
Partial(d) == d # <<>> /\ d # Blob      \* dst holds bytes that are not exactly the blob

Init == /\ phase = "idle" /\ no = 0 /\ n = 0 /\ seek = FALSE /\ oi = 1 /\ polls = 0
        /\ dst = <<>> /\ gotFull = FALSE /\ verdict = "none" /\ result = "none"

Download(o, sz, sk) ==
  /\ phase = "idle"
  /\ phase' = "busy" /\ no' = o /\ n' = sz /\ seek' = sk /\ oi' = 1 /\ polls' = 0
  /\ dst' = <<>> /\ gotFull' = FALSE /\ result' = "none"
  /\ verdict' = IF o = 0 THEN "err" ELSE "none"       \* resolver error / no origins

\* failed origin: next origin, or give up
Failover(cont) == IF cont /\ oi < no
                  THEN oi' = oi + 1 /\ polls' = 0 /\ verdict' = "none"
                  ELSE oi' = oi /\ polls' = polls /\ verdict' = "err"

OnFull ==
  /\ dst' = IF n = 0 THEN dst ELSE Append(dst, n)
  /\ gotFull' = TRUE
  /\ verdict' = "ok"
  /\ UNCHANGED <<oi, polls>>
OnCut(k, cont, reset) ==
  /\ k >= 0
  /\ k < n
  /\ dst' = IF reset THEN <<>> ELSE IF k = 0 THEN dst ELSE Append(dst, k)
  /\ gotFull' = (gotFull /\ ~reset)
  /\ Failover(cont)
On202 ==
  /\ polls' = polls + 1
  /\ UNCHANGED <<oi, dst, gotFull, verdict>>
OnUnavailable(cont) ==
  /\ Failover(cont)
  /\ UNCHANGED <<dst, gotFull>>
OnFatal(v) ==
  /\ verdict' = v
  /\ UNCHANGED <<oi, polls, dst, gotFull>>

Req(o, r, k, cont, reset) ==
  /\ phase = "busy"
  /\ verdict = "none"
  /\ o = oi
  /\ oi <= no
  /\ reset => (seek /\ r = Cut)
  /\ UNCHANGED <<phase, no, n, seek, result>>
  /\ CASE r = Full -> OnFull
       [] r = Cut -> OnCut(k, cont, reset)
       [] r = 202 -> On202
       [] r \in Retry5xx \cup {NetErr} -> OnUnavailable(cont)
       [] r = 404 -> OnFatal("nf")
       [] r \in Fatal4xx -> OnFatal("err")
  /\ ~cont => (Partial(dst') /\ ~reset)   \* failing over may only be abandoned because dst is spoilt for good

\* the poll backoff of the current origin timed out on 202 answers
GiveUp202(cont) ==
  /\ phase = "busy" /\ verdict = "none" /\ polls > 0
  /\ Failover(cont)
  /\ UNCHANGED <<phase, no, n, seek, dst, gotFull, result>>

Return(res) ==
  /\ phase = "busy" /\ verdict # "none" /\ res = verdict
  /\ result' = res /\ phase' = "done"
  /\ UNCHANGED <<no, n, seek, oi, polls, dst, gotFull, verdict>>

Forget == /\ phase = "done"
          /\ phase' = "idle" /\ no' = 0 /\ n' = 0 /\ seek' = FALSE /\ oi' = 1 /\ polls' = 0
          /\ dst' = <<>> /\ gotFull' = FALSE /\ verdict' = "none" /\ result' = "none"

\* behaviours that keep the property: after a partial delivery either rewind or stop
Careful(o, r, k) ==
  \E cont, reset \in BOOLEAN :
     /\ Req(o, r, k, cont, reset)
     /\ Partial(dst') => ~cont
Next == \/ \E o \in 0..MaxOrigins, sz \in Sizes, sk \in BOOLEAN : Download(o, sz, sk)
        \/ \E o \in 1..MaxOrigins, r \in {Full, Cut, 202, 404, NetErr} \cup Retry5xx \cup Fatal4xx,
              k \in 0..n : (r = 202 => polls < MaxPolls) /\ Careful(o, r, IF r = Cut THEN k ELSE 0)
        \/ GiveUp202(TRUE)
        \/ \E res \in {"ok", "nf", "err"} : Return(res)
        \/ Forget
Spec == Init /\ [][Next]_vars

----------------------------------------------------------------------------
(* Properties (C35) *)
\* success => the destination received exactly the blob's bytes, once
SuccessExact == result = "ok" => dst = Blob
\* if no origin delivered the whole blob the call fails
FailIfNoneDelivers == result = "ok" => gotFull
\* dst only ever grows by whole chunks unless it is rewound (append-only writer)
AppendOnly == [][phase = "busy" /\ phase' = "busy" =>
                   \/ (Len(dst') >= Len(dst) /\ \A i \in 1..Len(dst) : dst'[i] = dst[i])
                   \/ (seek /\ dst' = <<>>)]_vars
\* origins are asked in order, never twice after a failure
InOrder == [][phase = "busy" /\ phase' = "busy" => (oi' = oi \/ oi' = oi + 1)]_vars
TypeOK == /\ phase \in {"idle", "busy", "done"} /\ oi \in 1..(MaxOrigins + 1) /\ no \in 0..MaxOrigins
          /\ verdict \in {"none", "ok", "nf", "err"} /\ result \in {"none", "ok", "nf", "err"}
          /\ \A i \in 1..Len(dst) : dst[i] \in 1..n
Inv == SuccessExact /\ FailIfNoneDelivers
=============================================================================
