-------------------------- MODULE ClusterSampleTrace --------------------------
(* Trace validation of recorded calls of stringset.Set.Sample, the tagclient cluster client
   (against local HTTP listeners that answer, answer with an error status, or drop the
   connection) and blobclient.Locations / ClientResolver.Resolve (C25) against ClusterSample.
   A Req record carries which hosts were unreachable (down) / answering with an error (errs)
   during the call, the hosts contacted in order (c, recorded by the listeners), the hosts
   reported to the health list (marked) and the reply class.                              *)
EXTENDS ClusterSample, Json
Trace == ndJsonDeserialize("trace.ndjson")
VARIABLE l
tvars == <<vars, l>>
R == Trace[l]

TraceInit == TLCSet(1, 0) /\ Init /\ l = 1
IsEvent(e) == l <= Len(Trace) /\ Trace[l].ev = e /\ l' = l + 1

TReset    == IsEvent("reset") /\ hosts' = {} /\ last' = NoCall
TSetHosts == IsEvent("SetHosts") /\ SetHosts(Range(R.hosts))
TSample   == IsEvent("Sample") /\ Len(R.res) = Cardinality(Range(R.res))
                               /\ Sample(Range(R.s), R.n, Range(R.res))
TReq      == IsEvent("Req") /\ Request(R.kind, Range(R.down), Range(R.errs), R.c, R.marked, R.res)

TraceNext == TReset \/ TSetHosts \/ TSample \/ TReq
TraceSpec == TraceInit /\ [][TraceNext]_tvars

HW == TLCSet(1, IF TLCGet(1) < l THEN l ELSE TLCGet(1))
TraceAccepted == IF TLCGet(1) = Len(Trace) + 1 THEN TRUE
                 ELSE PrintT(<<"REJECTED_AT_LINE", TLCGet(1)>>) /\ FALSE
=============================================================================
