SPECIFICATION TraceSpec
CONSTANTS
  Hosts = {"h1","h2","h3","h4","h5","h6","h7","h8","h9","h10","h11","h12","h13","h14","h15","h16","h17","h18","h19","h20","h21","h22","h23","h24","h25","h26","h27","h28","h29","h30"}
  MaxN = 5
INVARIANT Inv
CONSTRAINT HW
POSTCONDITION TraceAccepted
CHECK_DEADLOCK FALSE
