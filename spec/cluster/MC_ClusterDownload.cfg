SPECIFICATION Spec
CONSTANTS
  MaxOrigins = 3
  Sizes = {0, 1, 3}
  MaxPolls = 1
INVARIANT Inv TypeOK
PROPERTY AppendOnly InOrder
