// Package eng is the engine registry and per-run context shared by all property engines.
package eng

import (
	"encoding/json"
	"fmt"
	"math/rand"
	"os"
	"path/filepath"
	"sort"

	"kvh/internal/tracelog"
)

// Ctx is what an engine gets.
type Ctx struct {
	Seed  int64
	Tier  string
	Out   string
	Only  int // -1 = all traces
	Args  []string
	W     *tracelog.W
	Stats map[string]any
}

// Quick reports whether the quick tier was requested.
func (c *Ctx) Quick() bool { return c.Tier != "thorough" }

// N picks a tier-dependent count.
func (c *Ctx) N(quick, thorough int) int {
	if c.Quick() {
		return quick
	}
	return thorough
}

// Traces runs fn for trace ids 0..n-1 (or only c.Only) with an rng derived from (seed, t),
// so that any single trace can be regenerated in isolation for replay.
func (c *Ctx) Traces(n int, fn func(t int, rng *rand.Rand)) {
	for t := 0; t < n; t++ {
		if c.Only >= 0 && t != c.Only {
			continue
		}
		func() {
			// A panic while driving the real code is logged as an event that no specification action explains
			// (the trace is rejected and re-executed), instead of killing the whole run.
			defer func() {
				if r := recover(); r != nil && c.W != nil {
					c.W.Ev("Panic", "what", fmt.Sprint(r))
				}
			}()
			fn(t, rand.New(rand.NewSource(c.Seed*1000003+int64(t)*7919+17)))
		}()
	}
}

// Inc bumps an integer statistic.
func (c *Ctx) Inc(k string, d int) {
	v, _ := c.Stats[k].(int)
	c.Stats[k] = v + d
}

// Engine is a property engine.
type Engine func(c *Ctx) error

var engines = map[string]Engine{}

// Register adds an engine.
func Register(name string, e Engine) { engines[name] = e }

// Names lists engines.
func Names() []string {
	var s []string
	for k := range engines {
		s = append(s, k)
	}
	sort.Strings(s)
	return s
}

// Run executes engine name.
func Run(name string, c *Ctx) error {
	e, ok := engines[name]
	if !ok {
		return fmt.Errorf("unknown engine %q (have %v)", name, Names())
	}
	w, err := tracelog.Open(c.Out)
	if err != nil {
		return err
	}
	c.W = w
	c.Stats = map[string]any{}
	if err := e(c); err != nil {
		return err
	}
	if err := w.Close(); err != nil {
		return err
	}
	c.Stats["records"] = w.N
	b, _ := json.Marshal(c.Stats)
	return os.WriteFile(filepath.Join(c.Out, "stats.json"), b, 0o644)
}
