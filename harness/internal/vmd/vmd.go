// Package vmd registers two harness metadata kinds with kraken's metadata registry:
// "_vmov" (movable) and "_vfix" (not movable), each carrying one small integer.
package vmd

import (
	"fmt"
	"regexp"

	"github.com/uber/kraken/lib/store/metadata"
)

func init() {
	metadata.Register(regexp.MustCompile("^_vmov$"), factory{})
	metadata.Register(regexp.MustCompile("^_vfix$"), factory{})
}

// MD is the harness metadata value.
type MD struct {
	Suffix string
	V      int
}
type factory struct{}

func (factory) Create(suffix string) metadata.Metadata { return &MD{Suffix: suffix} }

// GetSuffix implements metadata.Metadata.
func (m *MD) GetSuffix() string { return m.Suffix }

// Movable implements metadata.Metadata.
func (m *MD) Movable() bool { return m.Suffix == "_vmov" }

// Serialize implements metadata.Metadata.
func (m *MD) Serialize() ([]byte, error) { return []byte{byte(m.V)}, nil }

// Deserialize implements metadata.Metadata.
func (m *MD) Deserialize(b []byte) error {
	if len(b) != 1 {
		return fmt.Errorf("bad vmd length %d", len(b))
	}
	m.V = int(b[0])
	return nil
}

// Name maps suffixes to the spec's names.
var Name = map[string]string{"_vmov": "mov", "_vfix": "fix"}

// Suffixes lists the kinds.
var Suffixes = []string{"_vmov", "_vfix"}
