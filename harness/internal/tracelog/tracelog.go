// Package tracelog writes ndjson event logs consumed by the TLA+ trace specifications.
package tracelog

import (
	"bufio"
	"encoding/json"
	"os"
	"path/filepath"
	"sync"
)

// W is an ndjson writer. One record per linearization point; ev=reset starts a new trace.
type W struct {
	mu  sync.Mutex
	f   *os.File
	bw  *bufio.Writer
	t   int
	seq int
	N   int // records written
}

// Open creates <dir>/trace.ndjson.
func Open(dir string) (*W, error) {
	if err := os.MkdirAll(dir, 0o755); err != nil {
		return nil, err
	}
	f, err := os.Create(filepath.Join(dir, "trace.ndjson"))
	if err != nil {
		return nil, err
	}
	return &W{f: f, bw: bufio.NewWriterSize(f, 1<<20)}, nil
}

// Reset starts trace t with configuration cfg (must be JSON-encodable; ints/strings/bools/arrays only).
func (w *W) Reset(t int, cfg map[string]any) {
	w.mu.Lock()
	defer w.mu.Unlock()
	w.t = t
	w.seq = 0
	if cfg == nil {
		cfg = map[string]any{}
	}
	w.write(map[string]any{"ev": "reset", "t": t, "seq": 0, "cfg": cfg})
}

// Ev writes one event with alternating key, value pairs.
func (w *W) Ev(ev string, kv ...any) {
	m := map[string]any{"ev": ev}
	for i := 0; i+1 < len(kv); i += 2 {
		m[kv[i].(string)] = kv[i+1]
	}
	w.mu.Lock()
	defer w.mu.Unlock()
	w.seq++
	m["t"] = w.t
	m["seq"] = w.seq
	w.write(m)
}

func (w *W) write(m map[string]any) {
	b, err := json.Marshal(m)
	if err != nil {
		panic(err)
	}
	w.bw.Write(b)
	w.bw.WriteByte('\n')
	w.N++
}

// Close flushes.
func (w *W) Close() error {
	w.mu.Lock()
	defer w.mu.Unlock()
	if err := w.bw.Flush(); err != nil {
		return err
	}
	return w.f.Close()
}
