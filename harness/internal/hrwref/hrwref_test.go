package hrwref

import (
	"fmt"
	"math/rand"
	"testing"

	"github.com/uber/kraken/lib/hrw"
)

// The reference must agree bit-for-bit with the pinned kraken implementation (sanity of the oracle itself).
func TestAgainstKraken(t *testing.T) {
	rh := hrw.NewRendezvousHash(hrw.Murmur3Hash, hrw.UInt64ToFloat64)
	rng := rand.New(rand.NewSource(1))
	var nodes []Node
	for i := 0; i < 9; i++ {
		n := Node{Label: fmt.Sprintf("host-%d.example.com:%d", rng.Intn(1000), 1000+rng.Intn(9000)), Weight: 1 + rng.Intn(500)}
		nodes = append(nodes, n)
		rh.AddNode(n.Label, n.Weight)
	}
	for k := 0; k < 20000; k++ {
		var key string
		switch k % 3 {
		case 0:
			key = fmt.Sprintf("%04x", k)
		case 1:
			b := make([]byte, 32)
			rng.Read(b)
			key = fmt.Sprintf("%x", b)
		default:
			b := make([]byte, rng.Intn(40))
			rng.Read(b)
			key = fmt.Sprintf("%X", b)
		}
		for i, n := range nodes {
			got, _ := Score(key, n.Label, n.Weight)
			want := rh.Nodes[i].Score(key)
			if got != want {
				t.Fatalf("key %q node %v: ref %v kraken %v", key, n, got, want)
			}
		}
	}
}
