// Package hrwref is an independent re-implementation of the weighted rendezvous score used by
// lib/hrw (murmur3 x64-128, first 64 bits, seed 0; 53-bit mantissa; -w/ln(u)). It is the oracle for
// the rankings logged by the c21 and c22 engines and deliberately shares no code with kraken or
// with github.com/spaolacci/murmur3.
package hrwref

import (
	"encoding/binary"
	"encoding/hex"
	"math"
	"math/bits"
	"sort"
)

const (
	c1 = 0x87c37b91114253d5
	c2 = 0x4cf5ad432745937f
)

func fmix64(k uint64) uint64 {
	k ^= k >> 33
	k *= 0xff51afd7ed558ccd
	k ^= k >> 33
	k *= 0xc4ceb9fe1a85ec53
	k ^= k >> 33
	return k
}

// Murmur64 returns h1 of MurmurHash3_x64_128(data, seed 0).
func Murmur64(data []byte) uint64 {
	var h1, h2 uint64
	n := len(data)
	nb := n / 16
	for i := 0; i < nb; i++ {
		k1 := binary.LittleEndian.Uint64(data[i*16:])
		k2 := binary.LittleEndian.Uint64(data[i*16+8:])
		k1 *= c1
		k1 = bits.RotateLeft64(k1, 31)
		k1 *= c2
		h1 ^= k1
		h1 = bits.RotateLeft64(h1, 27)
		h1 += h2
		h1 = h1*5 + 0x52dce729
		k2 *= c2
		k2 = bits.RotateLeft64(k2, 33)
		k2 *= c1
		h2 ^= k2
		h2 = bits.RotateLeft64(h2, 31)
		h2 += h1
		h2 = h2*5 + 0x38495ab5
	}
	tail := data[nb*16:]
	var k1, k2 uint64
	for i := len(tail) - 1; i >= 8; i-- {
		k2 ^= uint64(tail[i]) << (8 * uint(i-8))
	}
	if len(tail) > 8 {
		k2 *= c2
		k2 = bits.RotateLeft64(k2, 33)
		k2 *= c1
		h2 ^= k2
	}
	m := len(tail)
	if m > 8 {
		m = 8
	}
	for i := m - 1; i >= 0; i-- {
		k1 ^= uint64(tail[i]) << (8 * uint(i))
	}
	if len(tail) > 0 {
		k1 *= c1
		k1 = bits.RotateLeft64(k1, 31)
		k1 *= c2
		h1 ^= k1
	}
	h1 ^= uint64(n)
	h2 ^= uint64(n)
	h1 += h2
	h2 += h1
	h1 = fmix64(h1)
	h2 = fmix64(h2)
	h1 += h2
	return h1
}

const mask53 = (uint64(1) << 53) - 1

// Unit maps a 64-bit hash to [0,1) as lib/hrw.UInt64ToFloat64 documents: low 53 bits / 2^53, re-hashing
// the big-endian bytes of the hash once when those bits are all zero. rehashed reports whether that happened.
func Unit(h uint64) (u float64, rehashed bool) {
	v := h & mask53
	if v == 0 {
		var b [8]byte
		binary.BigEndian.PutUint64(b[:], h)
		v = Murmur64(b[:]) & mask53
		rehashed = true
	}
	return float64(v) / float64(uint64(1)<<53), rehashed
}

// Score is the weighted rendezvous score of (hex key, label, weight). ok is false if key is not valid hex.
func Score(key, label string, weight int) (s float64, ok bool) {
	kb, err := hex.DecodeString(key)
	if err != nil {
		return math.NaN(), false
	}
	buf := make([]byte, 0, len(kb)+len(label))
	buf = append(buf, kb...)
	buf = append(buf, label...)
	u, _ := Unit(Murmur64(buf))
	return -float64(weight) / math.Log(u), true
}

// Node is a labelled weight.
type Node struct {
	Label  string
	Weight int
}

// Ranking returns the indices of nodes sorted by descending score for key and the dense rank of every
// node (1 = highest score; equal scores share a rank). tie reports whether two nodes have equal scores.
// The sort is stable on the given order, which callers keep canonical (sorted by label), so the ranking
// never depends on anything but (key, set of nodes).
func Ranking(key string, nodes []Node) (order []int, rank []int, tie bool) {
	sc := make([]float64, len(nodes))
	for i, n := range nodes {
		sc[i], _ = Score(key, n.Label, n.Weight)
	}
	order = make([]int, len(nodes))
	for i := range order {
		order[i] = i
	}
	sort.SliceStable(order, func(a, b int) bool { return sc[order[a]] > sc[order[b]] })
	rank = make([]int, len(nodes))
	r := 0
	for p, i := range order {
		if p == 0 || sc[i] != sc[order[p-1]] {
			r++
		} else {
			tie = true
		}
		rank[i] = r
	}
	return order, rank, tie
}
