// Package crashlab records the file-system operations of a real kraken operation with strace and
// materializes every prefix of them (process-crash model: completed system calls persist, nothing
// after the crash point happens) into a fresh directory on which real recovery code is then started.
package crashlab

import (
	"bufio"
	"fmt"
	"os"
	"os/exec"
	"path/filepath"
	"regexp"
	"strconv"
	"strings"
)

// Op is one mutating file-system operation under the traced root.
type Op struct {
	Kind  string // mkdir create write truncate rename unlink rmdir chmod trunc-open
	Path  string // relative to root
	Path2 string // rename target, relative to root
	Off   int64
	Data  []byte
	Size  int64
	Mark  int // index of the last marker seen before this op (harness call index), -1 if none
}

func (o Op) String() string {
	switch o.Kind {
	case "write":
		return fmt.Sprintf("write %s @%d +%d", o.Path, o.Off, len(o.Data))
	case "rename":
		return fmt.Sprintf("rename %s -> %s", o.Path, o.Path2)
	case "truncate":
		return fmt.Sprintf("truncate %s %d", o.Path, o.Size)
	}
	return o.Kind + " " + o.Path
}

// MarkerDir is a non-existent directory; the traced child stats MarkerDir/<n> to mark call boundaries.
const MarkerDir = "/kvh-marker"

// Mark is called by the traced child before harness call n.
func Mark(n int) { os.Stat(fmt.Sprintf("%s/%d", MarkerDir, n)) }

const syscalls = "openat,open,creat,lseek,write,pwrite64,ftruncate,truncate,rename,renameat,renameat2,unlink,unlinkat,mkdir,mkdirat,rmdir,link,linkat,symlink,symlinkat,chmod,fchmod,fchmodat,close,dup,dup2,dup3,newfstatat,stat"

// Record runs argv under strace and returns the mutating operations under root (absolute path).
func Record(argv []string, root string, env []string) ([]Op, string, error) {
	tmp, err := os.CreateTemp("", "kvh-strace-*")
	if err != nil {
		return nil, "", err
	}
	tmp.Close()
	defer os.Remove(tmp.Name())
	args := append([]string{"-f", "-y", "-x", "-s", "200000", "-e", "trace=" + syscalls, "-o", tmp.Name()}, argv...)
	cmd := exec.Command("strace", args...)
	cmd.Env = env
	out, err := cmd.CombinedOutput()
	if err != nil {
		return nil, string(out), fmt.Errorf("strace child failed: %v\n%s", err, out)
	}
	ops, perr := Parse(tmp.Name(), root)
	return ops, string(out), perr
}

var (
	lineRe    = regexp.MustCompile(`^(\d+)\s+(.*)$`)
	resumedRe = regexp.MustCompile(`^<\.\.\. (\w+) resumed>(.*)$`)
	callRe    = regexp.MustCompile(`^(\w+)\((.*)\)\s+= (-?\d+|\?)(.*)$`)
	fdPathRe  = regexp.MustCompile(`^(\d+)<(.*)>$`)
)

// Parse parses strace -f -y -x output.
func Parse(file, root string) ([]Op, error) {
	f, err := os.Open(file)
	if err != nil {
		return nil, err
	}
	defer f.Close()
	root = filepath.Clean(root)
	pending := map[string]string{}
	offs := map[int]int64{} // fd -> offset (threads of one process share fds)
	var ops []Op
	mark := -1
	rel := func(p string) (string, bool) {
		p = filepath.Clean(p)
		if p == root {
			return ".", true
		}
		if strings.HasPrefix(p, root+"/") {
			return p[len(root)+1:], true
		}
		return "", false
	}
	sc := bufio.NewScanner(f)
	sc.Buffer(make([]byte, 1<<20), 1<<26)
	for sc.Scan() {
		m := lineRe.FindStringSubmatch(sc.Text())
		if m == nil {
			continue
		}
		pid, rest := m[1], m[2]
		if strings.HasSuffix(rest, "<unfinished ...>") {
			pending[pid] = strings.TrimSuffix(rest, "<unfinished ...>")
			continue
		}
		if r := resumedRe.FindStringSubmatch(rest); r != nil {
			rest = pending[pid] + r[2]
			delete(pending, pid)
		}
		if strings.HasPrefix(rest, "+++") || strings.HasPrefix(rest, "---") {
			continue
		}
		cm := callRe.FindStringSubmatch(rest)
		if cm == nil {
			continue
		}
		name, argstr, retS := cm[1], cm[2], cm[3]
		ret, _ := strconv.ParseInt(retS, 10, 64)
		args := splitArgs(argstr)
		fail := retS == "?" || ret < 0
		// markers
		if name == "newfstatat" || name == "stat" {
			for _, a := range args {
				if s, ok := unq(a); ok && strings.HasPrefix(s, MarkerDir+"/") {
					n, _ := strconv.Atoi(s[len(MarkerDir)+1:])
					mark = n
				}
			}
			continue
		}
		if fail {
			continue
		}
		add := func(o Op) { o.Mark = mark; ops = append(ops, o) }
		pathArg := func(i int) (string, bool) {
			if i >= len(args) {
				return "", false
			}
			s, ok := unq(args[i])
			if !ok {
				return "", false
			}
			return rel(s)
		}
		atPath := func(i int) (string, bool) { // (dirfd, path): path may be relative to dirfd
			if i+1 >= len(args) {
				return "", false
			}
			s, ok := unq(args[i+1])
			if !ok {
				return "", false
			}
			if !filepath.IsAbs(s) {
				if d := fdPathRe.FindStringSubmatch(args[i]); d != nil {
					s = filepath.Join(d[2], s)
				}
			}
			return rel(s)
		}
		fdOf := func(i int) (int, string, bool) {
			if i >= len(args) {
				return 0, "", false
			}
			d := fdPathRe.FindStringSubmatch(args[i])
			if d == nil {
				return 0, "", false
			}
			n, _ := strconv.Atoi(d[1])
			p, ok := rel(d[2])
			return n, p, ok
		}
		switch name {
		case "openat", "open", "creat":
			var p string
			var ok bool
			var flags string
			switch name {
			case "openat":
				p, ok = atPath(0)
				if len(args) > 2 {
					flags = args[2]
				}
			case "open":
				p, ok = pathArg(0)
				if len(args) > 1 {
					flags = args[1]
				}
			default:
				p, ok = pathArg(0)
				flags = "O_CREAT|O_TRUNC"
			}
			offs[int(ret)] = 0
			if !ok {
				continue
			}
			if strings.Contains(flags, "O_APPEND") {
				offs[int(ret)] = -1 // resolved at write time from the materialized size: not used by kraken
			}
			if strings.Contains(flags, "O_CREAT") {
				add(Op{Kind: "create", Path: p}) // creates if missing (idempotent in the materializer)
			}
			if strings.Contains(flags, "O_TRUNC") {
				add(Op{Kind: "truncate", Path: p, Size: 0})
			}
		case "lseek":
			if fd, _, ok := fdOf(0); ok || true {
				_ = fd
				if d := fdPathRe.FindStringSubmatch(args[0]); d != nil {
					n, _ := strconv.Atoi(d[1])
					offs[n] = ret
				}
			}
		case "write":
			fd, p, ok := fdOf(0)
			data, dok := unq(args[1])
			if !dok {
				return nil, fmt.Errorf("cannot parse write data: %.80s", rest)
			}
			off := offs[fd]
			offs[fd] = off + ret
			if ok {
				add(Op{Kind: "write", Path: p, Off: off, Data: []byte(data)[:ret]})
			}
		case "pwrite64":
			_, p, ok := fdOf(0)
			data, dok := unq(args[1])
			if !dok {
				return nil, fmt.Errorf("cannot parse pwrite data: %.80s", rest)
			}
			off, _ := strconv.ParseInt(args[len(args)-1], 10, 64)
			if ok {
				add(Op{Kind: "write", Path: p, Off: off, Data: []byte(data)[:ret]})
			}
		case "ftruncate":
			_, p, ok := fdOf(0)
			sz, _ := strconv.ParseInt(args[1], 10, 64)
			if ok {
				add(Op{Kind: "truncate", Path: p, Size: sz})
			}
		case "truncate":
			p, ok := pathArg(0)
			sz, _ := strconv.ParseInt(args[1], 10, 64)
			if ok {
				add(Op{Kind: "truncate", Path: p, Size: sz})
			}
		case "rename":
			p, ok := pathArg(0)
			q, ok2 := pathArg(1)
			if ok && ok2 {
				add(Op{Kind: "rename", Path: p, Path2: q})
			} else if ok || ok2 {
				return nil, fmt.Errorf("rename crossing the root: %s", rest)
			}
		case "renameat", "renameat2":
			p, ok := atPath(0)
			q, ok2 := atPath(2)
			if ok && ok2 {
				add(Op{Kind: "rename", Path: p, Path2: q})
			} else if ok || ok2 {
				return nil, fmt.Errorf("rename crossing the root: %s", rest)
			}
		case "unlink":
			if p, ok := pathArg(0); ok {
				add(Op{Kind: "unlink", Path: p})
			}
		case "unlinkat":
			if p, ok := atPath(0); ok {
				k := "unlink"
				if len(args) > 2 && strings.Contains(args[2], "AT_REMOVEDIR") {
					k = "rmdir"
				}
				add(Op{Kind: k, Path: p})
			}
		case "rmdir":
			if p, ok := pathArg(0); ok {
				add(Op{Kind: "rmdir", Path: p})
			}
		case "mkdir":
			if p, ok := pathArg(0); ok {
				add(Op{Kind: "mkdir", Path: p})
			}
		case "mkdirat":
			if p, ok := atPath(0); ok {
				add(Op{Kind: "mkdir", Path: p})
			}
		case "link", "linkat", "symlink", "symlinkat":
			for _, a := range args {
				if s, ok := unq(a); ok {
					if _, in := rel(s); in {
						return nil, fmt.Errorf("unsupported syscall under root: %s", rest)
					}
				}
			}
		case "dup", "dup2", "dup3":
			if d := fdPathRe.FindStringSubmatch(args[0]); d != nil {
				n, _ := strconv.Atoi(d[1])
				offs[int(ret)] = offs[n]
			}
		}
	}
	return ops, sc.Err()
}

// splitArgs splits a strace argument list at top-level commas.
func splitArgs(s string) []string {
	var out []string
	depth, inq, esc := 0, false, false
	start := 0
	for i := 0; i < len(s); i++ {
		c := s[i]
		if inq {
			if esc {
				esc = false
			} else if c == '\\' {
				esc = true
			} else if c == '"' {
				inq = false
			}
			continue
		}
		switch c {
		case '"':
			inq = true
		case '(', '[', '{', '<':
			depth++
		case ')', ']', '}', '>':
			depth--
		case ',':
			if depth == 0 {
				out = append(out, strings.TrimSpace(s[start:i]))
				start = i + 1
			}
		}
	}
	out = append(out, strings.TrimSpace(s[start:]))
	return out
}

// unq decodes a strace string literal ("..." with C escapes, possibly followed by "...").
func unq(a string) (string, bool) {
	if len(a) < 2 || a[0] != '"' {
		return "", false
	}
	var b []byte
	i := 1
	for i < len(a) {
		c := a[i]
		if c == '"' {
			return string(b), true
		}
		if c != '\\' {
			b = append(b, c)
			i++
			continue
		}
		i++
		if i >= len(a) {
			return "", false
		}
		switch a[i] {
		case 'n':
			b = append(b, '\n')
		case 't':
			b = append(b, '\t')
		case 'r':
			b = append(b, '\r')
		case 'v':
			b = append(b, '\v')
		case 'f':
			b = append(b, '\f')
		case '\\':
			b = append(b, '\\')
		case '"':
			b = append(b, '"')
		case 'x':
			if i+2 >= len(a) {
				return "", false
			}
			v, err := strconv.ParseUint(a[i+1:i+3], 16, 8)
			if err != nil {
				return "", false
			}
			b = append(b, byte(v))
			i += 2
		default:
			if a[i] >= '0' && a[i] <= '7' { // octal
				j := i
				for j < len(a) && j < i+3 && a[j] >= '0' && a[j] <= '7' {
					j++
				}
				v, _ := strconv.ParseUint(a[i:j], 8, 8)
				b = append(b, byte(v))
				i = j - 1
			} else {
				return "", false
			}
		}
		i++
	}
	return "", false
}

// Materialize applies ops[:k] under dst (a fresh directory that stands for root).
func Materialize(ops []Op, k int, dst string) error {
	if err := os.MkdirAll(dst, 0o775); err != nil {
		return err
	}
	for i := 0; i < k; i++ {
		o := ops[i]
		p := filepath.Join(dst, o.Path)
		var err error
		switch o.Kind {
		case "mkdir":
			err = os.Mkdir(p, 0o775)
			if os.IsExist(err) {
				err = nil
			}
		case "create":
			var f *os.File
			f, err = os.OpenFile(p, os.O_CREATE|os.O_WRONLY, 0o775)
			if err == nil {
				f.Close()
			}
		case "truncate":
			err = os.Truncate(p, o.Size)
		case "write":
			var f *os.File
			f, err = os.OpenFile(p, os.O_WRONLY, 0o775)
			if err == nil {
				_, err = f.WriteAt(o.Data, o.Off)
				f.Close()
			}
		case "rename":
			err = os.Rename(p, filepath.Join(dst, o.Path2))
		case "unlink":
			err = os.Remove(p)
		case "rmdir":
			err = os.Remove(p)
		}
		if err != nil {
			return fmt.Errorf("materialize op %d (%s): %w", i, o, err)
		}
	}
	return nil
}
