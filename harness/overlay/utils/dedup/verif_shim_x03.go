//go:build verif

package dedup

// Export-only shim injected with `go build -overlay` by /verif (extension module X03; never committed to /repo).
// It adds no behaviour: it only reads unexported fields of RequestCache so that the harness can tell when an
// asynchronous request has finished and what the cache remembers about it.

// VerifX03State reports "pending", "err" / "nf" (an unexpired cached error) or "idle" for id.
func (c *RequestCache) VerifX03State(id string) string {
	c.mu.Lock()
	defer c.mu.Unlock()
	if c.pending[id] {
		return "pending"
	}
	if cerr, ok := c.errors[id]; ok && !cerr.expired(c.clk.Now()) {
		if c.isNotFound(cerr.err) {
			return "nf"
		}
		return "err"
	}
	return "idle"
}
