module kvhoverlay

go 1.24.0
