//go:build verif

package shadowbackend

import "github.com/uber/kraken/lib/backend"

// Export-only shim injected with `go build -overlay` by /verif (extension module X04; never committed to /repo).

// VerifX04NewClient builds a shadow Client over two already constructed backend clients: the fields of Client are
// unexported and the public constructor only accepts sql / hdfs / s3 / testfs configurations, none of which can
// inject failures or record the calls it receives.
func VerifX04NewClient(active, shadow backend.Client) *Client {
	return &Client{active: active, shadow: shadow}
}
