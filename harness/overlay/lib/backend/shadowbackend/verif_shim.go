//go:build verif

package shadowbackend

import "github.com/uber/kraken/lib/backend"

// Export-only shim injected with `go build -overlay` by /verif (never committed to /repo).

// VerifNewClient builds a shadow Client over two already constructed backend clients (property C37:
// the public constructor cannot be given an s3backend client with a custom S3 implementation).
func VerifNewClient(active, shadow backend.Client) *Client {
	return &Client{active: active, shadow: shadow}
}
