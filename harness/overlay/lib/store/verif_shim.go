//go:build verif

package store

// Export-only shim injected with `go build -overlay` by /verif (never committed to /repo).
// It adds no behaviour: every function only forwards to an existing unexported function / field
// of this package so that the harness (properties C10 and C13) can reach it.

import (
	"time"

	"github.com/andres-erbsen/clock"
	"github.com/uber-go/tally"

	"github.com/uber/kraken/lib/store/base"
	"github.com/uber/kraken/utils/cache"
	"github.com/uber/kraken/utils/diskspaceutil"
)

// ---- C13: write-through memory cache of CAStore

// VerifMemCache returns the store's memory cache (nil when disabled).
func (s *CAStore) VerifMemCache() *cache.BlobMemoryCache { return s.memCache }

// VerifDrainNext runs the body of one drain-worker tick synchronously.
func (s *CAStore) VerifDrainNext() { s.drainNext() }

// VerifDrainQueueLen returns the number of queued drain items.
func (s *CAStore) VerifDrainQueueLen() int {
	s.drain.mu.Lock()
	defer s.drain.mu.Unlock()
	return s.drain.queue.Len()
}

// VerifExpireMemCache runs the body of one memory-cache TTL worker tick synchronously.
func (s *CAStore) VerifExpireMemCache() { s.cleanupMemoryCacheExpiredEntries() }

// VerifCacheFileOp returns a FileOp on the cache directory of s.
func (s *CAStore) VerifCacheFileOp() base.FileOp { return s.cacheStore.newFileOp() }

// VerifCacheBackend returns the FileStore behind the cache directory of s.
func (s *CAStore) VerifCacheBackend() base.FileStore { return s.cacheStore.backend }

// ---- C10: cleanup manager

// VerifUsageFn is the disk usage probe type of the cleanup manager.
type VerifUsageFn = func() (diskspaceutil.UsageInfo, error)

// VerifCleaner wraps an unexported cleanupManager.
type VerifCleaner struct{ m *cleanupManager }

// VerifNewCleaner builds a cleanup manager on clk.
func VerifNewCleaner(clk clock.Clock) *VerifCleaner {
	return &VerifCleaner{newCleanupManager(clk, tally.NoopScope)}
}

// Stop stops the manager.
func (c *VerifCleaner) Stop() { c.m.stop() }

// Cleanup runs cleanupManager.cleanup (real disk usage probe) with the production policy or none.
func (c *VerifCleaner) Cleanup(op base.FileOp, config CleanupConfig, withPolicy bool) (int64, error) {
	if withPolicy {
		return c.m.cleanup(op, config, cachedInAgentPolicy)
	}
	return c.m.cleanup(op, config, nil)
}

// ShouldAggro forwards to cleanupManager.shouldAggro.
func (c *VerifCleaner) ShouldAggro(op base.FileOp, config CleanupConfig, usage VerifUsageFn) bool {
	return c.m.shouldAggro(op, config, usage)
}

// TTLCleanup forwards to cleanupManager.ttlBasedCleanup.
func (c *VerifCleaner) TTLCleanup(op base.FileOp, tti, ttl time.Duration, lower int, usage VerifUsageFn) (int64, error) {
	return c.m.ttlBasedCleanup(op, tti, ttl, lower, usage)
}

// PolicyCleanup forwards to cleanupManager.customPolicyBasedCleanup with the production policy.
func (c *VerifCleaner) PolicyCleanup(op base.FileOp, config CleanupConfig, usage VerifUsageFn) (int64, error) {
	return c.m.customPolicyBasedCleanup(op, config, cachedInAgentPolicy, usage)
}

// VerifApplyCleanupDefaults forwards to CleanupConfig.applyDefaults.
func VerifApplyCleanupDefaults(c CleanupConfig) CleanupConfig { return c.applyDefaults() }
