//go:build verif

package memory

// Export-only shim injected with `go build -overlay` by /verif (never committed to /repo).

// VerifEvictionOrder returns the eviction queue, front (next to evict) first.
func (s *Store) VerifEvictionOrder() []string {
	s.impl.mu.RLock()
	defer s.impl.mu.RUnlock()
	out := make([]string, 0)
	for e := s.impl.evictQueue.Front(); e != nil; e = e.Next() {
		out = append(out, e.Value.(string))
	}
	return out
}

// VerifUsed returns the reserved bytes.
func (s *Store) VerifUsed() uint64 {
	s.impl.mu.RLock()
	defer s.impl.mu.RUnlock()
	return s.impl.size
}
