//go:build verif

package disk

// Export-only shim injected with `go build -overlay` by /verif (never committed to /repo).

// VerifErrNoSpace exposes the unexported sentinel for error classification.
var VerifErrNoSpace = errNoSpace

// VerifEvictionOrder returns the eviction queue, front (next to evict) first.
func (s *Store) VerifEvictionOrder() []string { return s.impl.evictionOrder() }

// VerifUsed returns the reserved bytes.
func (s *Store) VerifUsed() uint64 {
	s.impl.mu.RLock()
	defer s.impl.mu.RUnlock()
	return s.impl.size
}

// VerifBlobSize returns the reserved size recorded for key (0 if absent).
func (s *Store) VerifBlobSize(key string) uint64 {
	s.impl.mu.RLock()
	defer s.impl.mu.RUnlock()
	if b, ok := s.impl.blobs[key]; ok {
		return b.size
	}
	return 0
}
