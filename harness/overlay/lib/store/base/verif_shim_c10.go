//go:build verif

package base

// Export-only shim injected with `go build -overlay` by /verif (never committed to /repo); property C10.

// VerifMapOrder returns the names held by the file map of fs, most recently used first
// (the back of the list is the next LRU eviction victim). Read-only.
func VerifMapOrder(fs FileStore) []string {
	s, ok := fs.(*localFileStore)
	if !ok {
		return nil
	}
	m, ok := s.fileMap.(*lruFileMap)
	if !ok {
		return nil
	}
	m.Lock()
	defer m.Unlock()
	out := make([]string, 0, m.queue.Len())
	for e := m.queue.Front(); e != nil; e = e.Next() {
		out = append(out, e.Value.(*fileEntryWithAccessTime).fe.GetName())
	}
	return out
}
