//go:build verif

package tiered

// Export-only shim injected with `go build -overlay` by /verif (never committed to /repo).

// VerifFlusherState returns the number of registered flusher entries and the queue length.
func (s *Store) VerifFlusherState() (entries int, queued int) {
	f := s.impl.flusher
	f.mu.Lock()
	defer f.mu.Unlock()
	return len(f.blobs), len(f.queue)
}

// VerifTiers reports, for key, the state of both tiers: 0 absent, 1 incomplete, 2 complete.
func (s *Store) VerifTiers(key string) (mem int, disk int) {
	st := func(in, comp bool) int {
		if !in {
			return 0
		}
		if comp {
			return 2
		}
		return 1
	}
	mi, mc := s.impl.mem.ScopeComplete().Has(key)
	di, dc := s.impl.disk.ScopeComplete().Has(key)
	return st(mi, mc), st(di, dc)
}
