//go:build verif

package agentstorage

// Export-only shim injected with `go build -overlay` by /verif (never committed to /repo): C39 reaches the
// unexported piece-status metadata (de)serialization.  No behaviour is changed.

// VerifC39SerializePieceStatuses serializes a piece-status vector (0 empty, 1 complete, 2 dirty).
func VerifC39SerializePieceStatuses(st []int) ([]byte, error) {
	pieces := make([]*piece, len(st))
	for i, s := range st {
		pieces[i] = &piece{status: pieceStatus(s)}
	}
	return newPieceStatusMetadata(pieces).Serialize()
}

// VerifC39DeserializePieceStatuses parses a piece-status file into its status vector.
func VerifC39DeserializePieceStatuses(b []byte) ([]int, error) {
	var md pieceStatusMetadata
	if err := md.Deserialize(b); err != nil {
		return nil, err
	}
	out := make([]int, len(md.pieces))
	for i, p := range md.pieces {
		out[i] = int(p.status)
	}
	return out, nil
}

// VerifC39PieceStatusSuffix returns the metadata suffix (for factory lookups through metadata.CreateFromSuffix).
func VerifC39PieceStatusSuffix() string { return _pieceStatusSuffix }
