//go:build verif

package conn

import (
	"net"

	"github.com/uber/kraken/core"
	"github.com/uber/kraken/gen/go/proto/p2p"
	"github.com/willf/bitset"
)

// Export-only shim injected with `go build -overlay` by /verif (never committed to /repo): C39 reaches the
// unexported handshake <-> bitfield-message conversion and the message framing.  No behaviour is changed.

// VerifC39Handshake mirrors the unexported handshake struct.
type VerifC39Handshake struct {
	PeerID          core.PeerID
	Digest          core.Digest
	InfoHash        core.InfoHash
	Bitfield        *bitset.BitSet
	RemoteBitfields RemoteBitfields
	Namespace       string
}

// VerifC39ToWire converts a handshake into the p2p bitfield message kraken sends.
func VerifC39ToWire(h VerifC39Handshake) (*p2p.Message, error) {
	hs := &handshake{
		peerID:          h.PeerID,
		digest:          h.Digest,
		infoHash:        h.InfoHash,
		bitfield:        h.Bitfield,
		remoteBitfields: h.RemoteBitfields,
		namespace:       h.Namespace,
	}
	return hs.toP2PMessage()
}

// VerifC39FromWire parses a received p2p message into a handshake.
func VerifC39FromWire(m *p2p.Message) (VerifC39Handshake, error) {
	hs, err := handshakeFromP2PMessage(m)
	if err != nil {
		return VerifC39Handshake{}, err
	}
	return VerifC39Handshake{
		PeerID:          hs.peerID,
		Digest:          hs.digest,
		InfoHash:        hs.infoHash,
		Bitfield:        hs.bitfield,
		RemoteBitfields: hs.remoteBitfields,
		Namespace:       hs.namespace,
	}, nil
}

// VerifC39Transmit frames m with sendMessage on one end of a pipe and reads it back with readMessage on the other.
func VerifC39Transmit(m *p2p.Message) (*p2p.Message, error) {
	a, b := net.Pipe()
	defer a.Close()
	defer b.Close()
	errc := make(chan error, 1)
	go func() { errc <- sendMessage(a, m) }()
	out, err := readMessage(b)
	if err != nil {
		return nil, err
	}
	if err := <-errc; err != nil {
		return nil, err
	}
	return out, nil
}
