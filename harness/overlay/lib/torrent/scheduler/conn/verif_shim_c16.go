//go:build verif

package conn

// Export-only shim injected with `go build -overlay` by /verif (never committed to /repo).

import (
	"net"

	"github.com/uber/kraken/core"
	"github.com/uber/kraken/lib/torrent/storage"
)

// VerifC16NewConn exposes Handshaker.newConn: a Conn for a chosen remote peer id, which PipeFixture
// (random peer ids) cannot give. The Conn is not started.
func VerifC16NewConn(
	h *Handshaker, nc net.Conn, peerID core.PeerID, info *storage.TorrentInfo, openedByRemote bool) (*Conn, error) {

	return h.newConn(nc, peerID, false, info, openedByRemote)
}
