//go:build verif

package scheduler

// Export-only shim injected with `go build -overlay` by /verif (never committed to /repo).
// It builds a STARTED scheduler whose event loop is the real baseEventLoop wrapped by a gate:
// events whose type name the gate asks to defer are parked (the loop keeps serving other
// events) until Flush is called.  Nothing in an event's apply() is changed.

import (
	"fmt"
	"sync"
	"time"

	"github.com/andres-erbsen/clock"
	"github.com/uber-go/tally"
	"github.com/willf/bitset"

	"github.com/uber/kraken/core"
	"github.com/uber/kraken/lib/torrent/networkevent"
	"github.com/uber/kraken/lib/torrent/scheduler/announcequeue"
	"github.com/uber/kraken/lib/torrent/scheduler/conn"
	"github.com/uber/kraken/lib/torrent/scheduler/dispatch"
	"github.com/uber/kraken/lib/torrent/storage"
	"github.com/uber/kraken/tracker/announceclient"
)

// VerifGate decides which events are parked and is told about every applied event.
type VerifGate interface {
	Defer(eventType string) bool
	Applied(eventType string)
}

type verifLoop struct {
	*baseEventLoop
	gate     VerifGate
	mu       sync.Mutex
	deferred []event
}

type verifFlushEvent struct{ done chan struct{} }

func (e verifFlushEvent) apply(*state) {}

type verifFuncEvent struct {
	fn   func(*state)
	done chan struct{}
}

func (e verifFuncEvent) apply(s *state) { e.fn(s); close(e.done) }

func (l *verifLoop) run(s *state) {
	for {
		select {
		case e := <-l.events:
			name := fmt.Sprintf("%T", e)
			if fl, ok := e.(verifFlushEvent); ok {
				// apply the oldest parked event
				l.mu.Lock()
				var de event
				if len(l.deferred) > 0 {
					de = l.deferred[0]
					l.deferred = l.deferred[1:]
				}
				l.mu.Unlock()
				if de != nil {
					de.apply(s)
					l.gate.Applied(fmt.Sprintf("%T", de))
				}
				close(fl.done)
				continue
			}
			if _, ok := e.(verifFuncEvent); !ok && l.gate.Defer(name) {
				l.mu.Lock()
				l.deferred = append(l.deferred, e)
				l.mu.Unlock()
				l.gate.Applied("deferred:" + name)
				continue
			}
			e.apply(s)
			l.gate.Applied(name)
		case <-l.done:
			return
		}
	}
}

// VerifSched is a started scheduler with a gated event loop.
type VerifSched struct {
	s    *scheduler
	loop *verifLoop
}

// NewVerifAgentScheduler wires newScheduler exactly like NewAgentScheduler does, with a caller-supplied
// torrent archive, clock, announce queue and gate; announcing is disabled.
func NewVerifAgentScheduler(
	config Config, ta storage.TorrentArchive, pctx core.PeerContext, clk clock.Clock,
	gate VerifGate, aq announcequeue.Queue, netevents networkevent.Producer) (*VerifSched, error) {

	loop := &verifLoop{baseEventLoop: newEventLoop(), gate: gate}
	s, err := newScheduler(config, ta, tally.NoopScope, pctx, announceclient.Disabled(), netevents,
		withClock(clk), withEventLoop(loop))
	if err != nil {
		return nil, err
	}
	if err := s.start(aq); err != nil {
		return nil, err
	}
	return &VerifSched{s, loop}, nil
}

// Scheduler returns the public interface.
func (v *VerifSched) Scheduler() Scheduler { return v.s }

// Deferred reports how many events are parked.
func (v *VerifSched) Deferred() int {
	v.loop.mu.Lock()
	defer v.loop.mu.Unlock()
	return len(v.loop.deferred)
}

// Flush applies the oldest parked event inside the event loop and waits for that.
func (v *VerifSched) Flush() bool {
	done := make(chan struct{})
	if !v.loop.send(verifFlushEvent{done}) {
		return false
	}
	<-done
	return true
}

func (v *VerifSched) in(fn func(*state)) bool {
	done := make(chan struct{})
	if !v.loop.send(verifFuncEvent{fn, done}) {
		return false
	}
	<-done
	return true
}

// PreemptionTick injects one preemptionTickEvent and waits until it has been applied.
func (v *VerifSched) PreemptionTick() bool {
	return v.in(func(s *state) { preemptionTickEvent{}.apply(s) })
}

// VerifSnapshot is the scheduler's view of one torrent.
type VerifSnapshot struct {
	HasControl bool
	Waiters    int
	Complete   bool
	LastRead   time.Time
	LastWrite  time.Time
}

// Snapshot reads the control of h inside the event loop.
func (v *VerifSched) Snapshot(h core.InfoHash) (snap VerifSnapshot, ok bool) {
	ok = v.in(func(s *state) {
		ctrl, has := s.torrentControls[h]
		if !has {
			return
		}
		snap = VerifSnapshot{true, len(ctrl.errors), ctrl.dispatcher.Complete(),
			ctrl.dispatcher.LastReadTime(), ctrl.dispatcher.LastWriteTime()}
	})
	return
}

// AddPeer attaches a harness-played peer to the dispatcher of h (what addOutgoingConn does after a handshake).
func (v *VerifSched) AddPeer(h core.InfoHash, peerID core.PeerID, b *bitset.BitSet, m dispatch.Messages) error {
	var err error
	ok := v.in(func(s *state) {
		ctrl, has := s.torrentControls[h]
		if !has {
			err = fmt.Errorf("no control")
			return
		}
		err = ctrl.dispatcher.AddPeer(peerID, false, b, m)
	})
	if !ok {
		return fmt.Errorf("scheduler stopped")
	}
	return err
}

// ---- C20 (system half): the scheduler's own use of the announce queue

// VerifState is newScheduler(...) + newState(...) on a caller-supplied announce queue, never started:
// single events are applied synchronously from outside the package.
type VerifState struct {
	s  *scheduler
	st *state
}

// NewVerifState builds an unstarted scheduler state (announcing disabled).
func NewVerifState(config Config, ta storage.TorrentArchive, pctx core.PeerContext, clk clock.Clock,
	aq announcequeue.Queue, netevents networkevent.Producer) (*VerifState, error) {

	s, err := newScheduler(config, ta, tally.NoopScope, pctx, announceclient.Disabled(), netevents, withClock(clk))
	if err != nil {
		return nil, err
	}
	return &VerifState{s, newState(s, aq)}, nil
}

// HasControl reports whether h has a torrent control.
func (v *VerifState) HasControl(h core.InfoHash) bool { _, ok := v.st.torrentControls[h]; return ok }

// AddTorrent exposes state.addTorrent.
func (v *VerifState) AddTorrent(namespace string, t storage.Torrent) error {
	_, err := v.st.addTorrent(namespace, t, true)
	return err
}

// RemoveTorrent exposes state.removeTorrent.
func (v *VerifState) RemoveTorrent(h core.InfoHash) { v.st.removeTorrent(h, ErrTorrentRemoved) }

// AnnounceTick applies an announceTickEvent.
func (v *VerifState) AnnounceTick() { announceTickEvent{}.apply(v.st) }

// AnnounceResult applies an announceResultEvent without peers.
func (v *VerifState) AnnounceResult(h core.InfoHash) { announceResultEvent{h, nil}.apply(v.st) }

// AnnounceErr applies an announceErrEvent.
func (v *VerifState) AnnounceErr(h core.InfoHash) { announceErrEvent{h, fmt.Errorf("verif")}.apply(v.st) }

// AddPending / DeletePending expose the connection state (to saturate a torrent).
func (v *VerifState) AddPending(p core.PeerID, h core.InfoHash) error {
	return v.st.conns.AddPending(p, h, nil)
}

// DeletePending removes a pending slot.
func (v *VerifState) DeletePending(p core.PeerID, h core.InfoHash) { v.st.conns.DeletePending(p, h) }

// Close tears the dispatchers down.
func (v *VerifState) Close() {
	for _, ctrl := range v.st.torrentControls {
		ctrl.dispatcher.TearDown()
	}
	v.s.eventLoop.stop()
}

// MoveToActive makes a pending slot active with a real (never started) conn, so that Saturated can become true.
func (v *VerifState) MoveToActive(c *conn.Conn) error { return v.st.conns.MovePendingToActive(c) }

// DeleteActive removes an active conn.
func (v *VerifState) DeleteActive(c *conn.Conn) { v.st.conns.DeleteActive(c) }
