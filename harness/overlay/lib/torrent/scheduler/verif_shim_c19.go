//go:build verif

package scheduler

// Export-only shim injected with `go build -overlay` by /verif (never committed to /repo).
// C19 (swarm convergence): newScheduler(...) + start(announcequeue.New()) exactly as the
// package's own tests wire a peer (testutils_test.go newPeer) -- REAL clock, REAL event loop --
// with a caller-supplied torrent archive, announce client and network-event producer.

import (
	"github.com/uber-go/tally"

	"github.com/uber/kraken/core"
	"github.com/uber/kraken/lib/torrent/networkevent"
	"github.com/uber/kraken/lib/torrent/scheduler/announcequeue"
	"github.com/uber/kraken/lib/torrent/storage"
	"github.com/uber/kraken/tracker/announceclient"
)

// VerifC19NewStartedScheduler builds and starts a scheduler; the caller owns Stop().
func VerifC19NewStartedScheduler(
	config Config, ta storage.TorrentArchive, pctx core.PeerContext,
	ac announceclient.Client, netevents networkevent.Producer) (Scheduler, error) {

	s, err := newScheduler(config, ta, tally.NoopScope, pctx, ac, netevents)
	if err != nil {
		return nil, err
	}
	if err := s.start(announcequeue.New()); err != nil {
		return nil, err
	}
	return s, nil
}
