//go:build verif

package scheduler

// Export-only shim injected with `go build -overlay` by /verif (never committed to /repo).
// It exposes an UNSTARTED scheduler together with its event-loop state so that single events
// (announceResultEvent, failedOutgoingHandshakeEvent) can be applied from outside the package.

import (
	"github.com/andres-erbsen/clock"
	"github.com/uber-go/tally"

	"github.com/uber/kraken/core"
	"github.com/uber/kraken/lib/torrent/networkevent"
	"github.com/uber/kraken/lib/torrent/scheduler/announcequeue"
	"github.com/uber/kraken/lib/torrent/scheduler/connstate"
	"github.com/uber/kraken/lib/torrent/storage"
	"github.com/uber/kraken/tracker/announceclient"
)

// VerifC16Sched is newScheduler(...) + newState(...), never started.
type VerifC16Sched struct {
	s  *scheduler
	st *state
}

// VerifC16NewSched exposes newScheduler/newState with a caller-supplied clock.
func VerifC16NewSched(
	config Config, ta storage.TorrentArchive, stats tally.Scope, pctx core.PeerContext,
	netevents networkevent.Producer, clk clock.Clock) (*VerifC16Sched, error) {

	s, err := newScheduler(config, ta, stats, pctx, announceclient.Disabled(), netevents, withClock(clk))
	if err != nil {
		return nil, err
	}
	return &VerifC16Sched{s, newState(s, announcequeue.New())}, nil
}

// ConnState exposes state.conns.
func (v *VerifC16Sched) ConnState() *connstate.State { return v.st.conns }

// AddTorrent exposes state.addTorrent.
func (v *VerifC16Sched) AddTorrent(namespace string, t storage.Torrent) error {
	_, err := v.st.addTorrent(namespace, t, true)
	return err
}

// ApplyAnnounceResult exposes announceResultEvent.apply.
func (v *VerifC16Sched) ApplyAnnounceResult(h core.InfoHash, peers []*core.PeerInfo) {
	announceResultEvent{h, peers}.apply(v.st)
}

// ApplyFailedOutgoingHandshake exposes failedOutgoingHandshakeEvent.apply.
func (v *VerifC16Sched) ApplyFailedOutgoingHandshake(p core.PeerID, h core.InfoHash) {
	failedOutgoingHandshakeEvent{p, h}.apply(v.st)
}

// Close tears the dispatchers down and stops the (never run) event loop, which releases the
// handshake goroutines blocked in eventLoop.send.
func (v *VerifC16Sched) Close() {
	for _, ctrl := range v.st.torrentControls {
		ctrl.dispatcher.TearDown()
	}
	v.s.eventLoop.stop()
}
