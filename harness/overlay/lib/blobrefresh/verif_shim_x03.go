//go:build verif

package blobrefresh

// Export-only shim injected with `go build -overlay` by /verif (extension module X03; never committed to /repo).
// VerifX03New is New with the clock of the request cache as a parameter (New hard-wires clock.New()), so that the
// error TTL of the request cache can be driven by a mock clock; VerifX03State forwards to the request cache.

import (
	"github.com/andres-erbsen/clock"
	"github.com/uber-go/tally"

	"github.com/uber/kraken/core"
	"github.com/uber/kraken/lib/backend"
	"github.com/uber/kraken/lib/backend/backenderrors"
	"github.com/uber/kraken/lib/metainfogen"
	"github.com/uber/kraken/lib/store"
	"github.com/uber/kraken/utils/dedup"
)

// VerifX03New mirrors New; only the clock differs.
func VerifX03New(
	config Config, stats tally.Scope, cas *store.CAStore, backends *backend.Manager,
	metaInfoGenerator *metainfogen.Generator, clk clock.Clock) *Refresher {

	stats = stats.Tagged(map[string]string{"module": "blobrefresh"})
	requestsStats := stats.Tagged(map[string]string{"request_type": "blobrefresh"})
	requests := dedup.NewRequestCache(dedup.RequestCacheConfig{}, clk, requestsStats)
	requests.SetNotFound(func(err error) bool { return err == backenderrors.ErrBlobNotFound })
	return &Refresher{config, stats, requests, cas, backends, metaInfoGenerator}
}

// VerifX03State reports the request cache's view of the refresh of d.
func (r *Refresher) VerifX03State(d core.Digest) string { return r.requests.VerifX03State(d.Hex()) }
