//go:build verif

package peerstore

// Export-only shim injected with `go build -overlay` by /verif (never committed to /repo).
// It adds no behaviour: it calls the unexported cleanup passes that the store's own ticker
// goroutine calls, exposes a read-only projection of the store state, and exposes the
// unexported Redis member codec.

import (
	"time"

	"github.com/uber/kraken/core"
)

// VerifCleanupEntries runs one cleanupExpiredPeerEntries pass (what the 5-minute ticker does).
func (s *LocalStore) VerifCleanupEntries() { s.cleanupExpiredPeerEntries() }

// VerifCleanupGroups runs one cleanupExpiredPeerGroups pass (what the hourly ticker does).
func (s *LocalStore) VerifCleanupGroups() { s.cleanupExpiredPeerGroups() }

// VerifEntry is a copy of one peerEntry.
type VerifEntry struct {
	ID        core.PeerID
	IP        string
	Port      int
	Complete  bool
	ExpiresAt time.Time
}

// VerifGroup is a copy of one peerGroup reachable from the store's map.
type VerifGroup struct {
	Hash          core.InfoHash
	List          []VerifEntry // peerList order
	LastExpiresAt time.Time
	Deleted       bool
	// IndexOK: peerList and peerMap hold exactly the same entry objects, each once, each under its own id.
	IndexOK bool
}

// VerifSnapshot copies the current state. Only meaningful while no other call is in flight.
func (s *LocalStore) VerifSnapshot() []VerifGroup {
	s.mu.RLock()
	defer s.mu.RUnlock()
	out := make([]VerifGroup, 0, len(s.peerGroups))
	for h, g := range s.peerGroups {
		g.mu.RLock()
		vg := VerifGroup{Hash: h, LastExpiresAt: g.lastExpiresAt, Deleted: g.deleted, IndexOK: true}
		seen := make(map[*peerEntry]bool, len(g.peerList))
		for _, e := range g.peerList {
			vg.List = append(vg.List, VerifEntry{e.id, e.ip, e.port, e.complete, e.expiresAt})
			if seen[e] || g.peerMap[e.id] != e {
				vg.IndexOK = false
			}
			seen[e] = true
		}
		if len(g.peerMap) != len(g.peerList) {
			vg.IndexOK = false
		}
		g.mu.RUnlock()
		out = append(out, vg)
	}
	return out
}

// VerifSerializePeer exposes serializePeer.
func VerifSerializePeer(p *core.PeerInfo) string { return serializePeer(p) }

// VerifDeserializePeer exposes deserializePeer.
func VerifDeserializePeer(s string) (id core.PeerID, ip string, port int, complete bool, err error) {
	pi, c, err := deserializePeer(s)
	return pi.peerID, pi.ip, pi.port, c, err
}
