//go:build verif

package originstore

// Export-only shim injected with `go build -overlay` by /verif (extension module X02; never
// committed to /repo).  It adds no behaviour: it only lets the harness classify the unexported
// allUnavailableError by type instead of by message.

// VerifIsAllUnavailable reports whether err is the store's "all origins unavailable" error.
func VerifIsAllUnavailable(err error) bool {
	_, ok := err.(allUnavailableError)
	return ok
}
