//go:build verif

package agentserver

import "time"

// Export-only shim for extension module X05 (no change of behaviour): the readiness cache TTL is an unexported
// Config field and the time of the last successful readiness check is an unexported Server field; the unit
// tests of this package reach both the same way (Config{readinessCacheTTL: ..}, s.lastReady = ..).

// VerifConfig returns a Config whose readiness cache TTL is ttl.
func VerifConfig(ttl time.Duration) Config { return Config{readinessCacheTTL: ttl} }

// VerifReadinessTTL reads the readiness cache TTL of c.
func VerifReadinessTTL(c Config) time.Duration { return c.readinessCacheTTL }

// VerifAgeLastReady makes the last successful readiness check d older (stands in for the passing of time:
// the handler reads the wall clock).
func (s *Server) VerifAgeLastReady(d time.Duration) { s.lastReady = s.lastReady.Add(-d) }
