module kvh

go 1.24.0

require github.com/uber/kraken v0.0.0

require github.com/jackpal/bencode-go v0.0.0-20180813173944-227668e840fa // indirect

replace github.com/uber/kraken => /repo

replace github.com/docker/distribution => github.com/docker/distribution v0.0.0-20191024225408-dee21c0394b5

replace github.com/containerd/containerd => github.com/containerd/containerd v1.3.10

replace github.com/containerd/continuity => github.com/containerd/continuity v0.1.0

replace github.com/opencontainers/runc => github.com/opencontainers/runc v1.0.0-rc10
