module kvh

go 1.24.0

require (
	github.com/uber-go/tally v3.3.11+incompatible
	github.com/uber/kraken v0.0.0
	go.uber.org/zap v1.10.0
)

require (
	github.com/andres-erbsen/clock v0.0.0-20160526145045-9e14626cd129 // indirect
	github.com/aws/aws-sdk-go v1.21.4 // indirect
	github.com/cespare/xxhash/v2 v2.3.0 // indirect
	github.com/davecgh/go-spew v1.1.1 // indirect
	github.com/docker/distribution v2.7.1+incompatible // indirect
	github.com/jackpal/bencode-go v0.0.0-20180813173944-227668e840fa // indirect
	github.com/pmezard/go-difflib v1.0.0 // indirect
	github.com/spaolacci/murmur3 v0.0.0-20180118202830-f09979ecbc72 // indirect
	github.com/stretchr/testify v1.11.1 // indirect
	go.opentelemetry.io/otel v1.41.0 // indirect
	go.opentelemetry.io/otel/trace v1.41.0 // indirect
	go.uber.org/atomic v1.5.0 // indirect
	go.uber.org/multierr v1.4.0 // indirect
	gopkg.in/yaml.v3 v3.0.1 // indirect
)

replace github.com/uber/kraken => /repo

replace github.com/docker/distribution => github.com/docker/distribution v0.0.0-20191024225408-dee21c0394b5

replace github.com/containerd/containerd => github.com/containerd/containerd v1.3.10

replace github.com/containerd/continuity => github.com/containerd/continuity v0.1.0

replace github.com/opencontainers/runc => github.com/opencontainers/runc v1.0.0-rc10
