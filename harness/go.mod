module kvh

go 1.24.0

require (
	github.com/alicebob/miniredis v2.5.0+incompatible
	github.com/andres-erbsen/clock v0.0.0-20160526145045-9e14626cd129
	github.com/aws/aws-sdk-go v1.21.4
	github.com/c2h5oh/datasize v0.0.0-20171227191756-4eba002a5eae
	github.com/cenkalti/backoff v2.2.1+incompatible
	github.com/docker/distribution v2.7.1+incompatible
	github.com/golang/protobuf v1.5.4
	github.com/jmoiron/sqlx v0.0.0-20190319043955-cdf62fdf55f6
	github.com/uber-go/tally v3.3.11+incompatible
	github.com/uber/kraken v0.0.0
	github.com/willf/bitset v0.0.0-20190228212526-18bd95f470f9
	go.opentelemetry.io/otel/trace v1.41.0
	go.uber.org/zap v1.10.0
	gopkg.in/yaml.v2 v2.3.0
)

require (
	github.com/Shopify/logrus-bugsnag v0.0.0-20171204204709-577dee27f20d // indirect
	github.com/alicebob/gopher-json v0.0.0-20180125190556-5a6b3ba71ee6 // indirect
	github.com/beorn7/perks v1.0.0 // indirect
	github.com/bshuster-repo/logrus-logstash-hook v0.4.1 // indirect
	github.com/bugsnag/bugsnag-go v1.5.0 // indirect
	github.com/bugsnag/panicwrap v0.0.0-20180510051541-1d162ee1264c // indirect
	github.com/cespare/xxhash/v2 v2.3.0 // indirect
	github.com/containerd/containerd v1.5.7 // indirect
	github.com/containerd/continuity v0.0.0-00010101000000-000000000000 // indirect
	github.com/containerd/fifo v1.0.0 // indirect
	github.com/containerd/ttrpc v1.1.0 // indirect
	github.com/containerd/typeurl v1.0.2 // indirect
	github.com/davecgh/go-spew v1.1.1 // indirect
	github.com/docker/go-events v0.0.0-20190806004212-e31b211e4f1c // indirect
	github.com/docker/go-metrics v0.0.0-20181218153428-b84716841b82 // indirect
	github.com/docker/libtrust v0.0.0-20160708172513-aabc10ec26b7 // indirect
	github.com/felixge/httpsnoop v1.0.4 // indirect
	github.com/garyburd/redigo v0.0.0-20150301180006-535138d7bcd7 // indirect
	github.com/go-chi/chi v4.0.2+incompatible // indirect
	github.com/go-logr/logr v1.4.3 // indirect
	github.com/go-logr/stdr v1.2.2 // indirect
	github.com/go-sql-driver/mysql v1.5.0 // indirect
	github.com/gofrs/uuid v0.0.0-20190320161447-2593f3d8aa45 // indirect
	github.com/gogo/googleapis v1.4.1 // indirect
	github.com/gogo/protobuf v1.3.2 // indirect
	github.com/gomodule/redigo v1.8.9 // indirect
	github.com/gorilla/handlers v1.3.0 // indirect
	github.com/gorilla/mux v1.7.3 // indirect
	github.com/jackpal/bencode-go v0.0.0-20180813173944-227668e840fa // indirect
	github.com/jinzhu/gorm v1.9.16 // indirect
	github.com/jinzhu/inflection v1.0.0 // indirect
	github.com/jmespath/go-jmespath v0.0.0-20180206201540-c2b33e8439af // indirect
	github.com/kardianos/osext v0.0.0-20190222173326-2bc1f35cddc0 // indirect
	github.com/mattn/go-sqlite3 v1.14.0 // indirect
	github.com/matttproud/golang_protobuf_extensions v1.0.1 // indirect
	github.com/opencontainers/go-digest v1.0.0 // indirect
	github.com/opencontainers/image-spec v1.0.2 // indirect
	github.com/opencontainers/runc v1.0.2 // indirect
	github.com/opencontainers/runtime-spec v1.0.3-0.20210326190908-1c3f411f0417 // indirect
	github.com/pkg/errors v0.9.1 // indirect
	github.com/pmezard/go-difflib v1.0.0 // indirect
	github.com/pressly/goose v2.6.0+incompatible // indirect
	github.com/prometheus/client_golang v0.9.3 // indirect
	github.com/prometheus/client_model v0.0.0-20190812154241-14fe0d1b01d4 // indirect
	github.com/prometheus/common v0.4.0 // indirect
	github.com/prometheus/procfs v0.6.0 // indirect
	github.com/satori/go.uuid v1.2.0 // indirect
	github.com/sirupsen/logrus v1.8.3 // indirect
	github.com/spaolacci/murmur3 v0.0.0-20180118202830-f09979ecbc72 // indirect
	github.com/spf13/cobra v1.0.0 // indirect
	github.com/spf13/pflag v1.0.5 // indirect
	github.com/stretchr/testify v1.11.1 // indirect
	github.com/syndtr/gocapability v0.0.0-20200815063812-42c35b437635 // indirect
	github.com/yuin/gopher-lua v0.0.0-20191128022950-c6266f4fe8d7 // indirect
	github.com/yvasiyarov/go-metrics v0.0.0-20150112132944-c25f46c4b940 // indirect
	github.com/yvasiyarov/gorelic v0.0.0-20180809112600-635ca6035f23 // indirect
	github.com/yvasiyarov/newrelic_platform_go v0.0.0-20160601141957-9c099fbc30e9 // indirect
	go.opentelemetry.io/auto/sdk v1.2.1 // indirect
	go.opentelemetry.io/contrib/instrumentation/net/http/otelhttp v0.46.0 // indirect
	go.opentelemetry.io/otel v1.41.0 // indirect
	go.opentelemetry.io/otel/metric v1.41.0 // indirect
	go.uber.org/atomic v1.5.0 // indirect
	go.uber.org/multierr v1.4.0 // indirect
	golang.org/x/crypto v0.46.0 // indirect
	golang.org/x/net v0.48.0 // indirect
	golang.org/x/sync v0.19.0 // indirect
	golang.org/x/sys v0.39.0 // indirect
	golang.org/x/text v0.32.0 // indirect
	golang.org/x/time v0.0.0-20200416051211-89c76fbcd5d1 // indirect
	google.golang.org/genproto v0.0.0-20200527145253-8367513e4ece // indirect
	google.golang.org/grpc v1.79.3 // indirect
	google.golang.org/protobuf v1.36.10 // indirect
	gopkg.in/yaml.v3 v3.0.1 // indirect
)

replace github.com/uber/kraken => /repo

replace github.com/docker/distribution => github.com/docker/distribution v0.0.0-20191024225408-dee21c0394b5

replace github.com/containerd/containerd => github.com/containerd/containerd v1.3.10

replace github.com/containerd/continuity => github.com/containerd/continuity v0.1.0

replace github.com/opencontainers/runc => github.com/opencontainers/runc v1.0.0-rc10
