// Package c22 records abstract cases of the real lib/hrw.RendezvousHash (property C22) for validation
// against spec/ring/Rendezvous.tla.
//
// Trace kinds (trace id t):
//
//	t == 0        Unit: hrw.UInt64ToFloat64 on crafted hashes (53 zero bits => rehash, extremes, random)
//	perm traces   one node set of k nodes; EVERY insertion permutation is built as a fresh RendezvousHash and
//	              swept over the key space; then every single node is removed and re-added (Delta records)
//	churn traces  a universe of up to 8 nodes, random AddNode/RemoveNode history, a sweep after every call
//
// A sweep calls the real GetOrderedNodes for every key (all 65536 four-hex shards, the 256 upper-case
// two-hex volume keys of ca_store, random 64-hex digests), computes the ranking of the current nodes
// independently (kvh/internal/hrwref) and logs one record per distinct abstract case with a count.
// The driver asserts nothing; floating point scores never enter the log (dense ranks do).
package c22

import (
	"encoding/binary"
	"fmt"
	"math/rand"
	"sort"
	"strings"
	"sync"

	"github.com/uber/kraken/lib/hrw"

	"kvh/internal/eng"
	"kvh/internal/hrwref"
)

func init() { eng.Register("c22", run) }

const workers = 4

type node struct {
	name string // abstract "n<i>"
	hrwref.Node
}

func abstractName(i int) string { return fmt.Sprintf("n%d", i+1) }

// labels that look like what kraken really feeds in: host:port addresses and volume paths.
func randLabel(rng *rand.Rand, used map[string]bool) string {
	for {
		var s string
		switch rng.Intn(4) {
		case 0:
			s = fmt.Sprintf("kraken-origin%02d-%s:%d", rng.Intn(100), []string{"dca1", "phx2", "sjc1"}[rng.Intn(3)], 15000+rng.Intn(10))
		case 1:
			s = fmt.Sprintf("10.%d.%d.%d:%d", rng.Intn(256), rng.Intn(256), rng.Intn(256), 1024+rng.Intn(60000))
		case 2:
			s = fmt.Sprintf("/mnt/disk%d/kraken", rng.Intn(40))
		default:
			b := make([]byte, 1+rng.Intn(12))
			for i := range b {
				b[i] = "abcdefghijklmnopqrstuvwxyz0123456789-."[rng.Intn(38)]
			}
			s = string(b)
		}
		if !used[s] {
			used[s] = true
			return s
		}
	}
}

func makeUniverse(rng *rand.Rand, n int, sameWeight bool) []node {
	used := map[string]bool{}
	u := make([]node, n)
	w0 := 1 + rng.Intn(500)
	for i := range u {
		w := 1 + rng.Intn(500)
		if sameWeight {
			w = w0
		}
		u[i] = node{abstractName(i), hrwref.Node{Label: randLabel(rng, used), Weight: w}}
	}
	// canonical order = sorted by label, so that nothing depends on generation order
	sort.Slice(u, func(a, b int) bool { return u[a].Label < u[b].Label })
	for i := range u {
		u[i].name = abstractName(i)
	}
	return u
}

type keyset struct {
	keys []string
	sc   [][]float64 // oracle scores per key and universe node (filled by withOracle)
}

// withOracle computes the independent score of every (key, universe node) once per trace.
func (ks keyset) withOracle(u []node) keyset {
	ks.sc = make([][]float64, len(ks.keys))
	var wg sync.WaitGroup
	for w := 0; w < workers; w++ {
		wg.Add(1)
		go func(w int) {
			defer wg.Done()
			for ki := w; ki < len(ks.keys); ki += workers {
				row := make([]float64, len(u))
				for i, x := range u {
					row[i], _ = hrwref.Score(ks.keys[ki], x.Label, x.Weight)
				}
				ks.sc[ki] = row
			}
		}(w)
	}
	wg.Wait()
	return ks
}

func (ks keyset) tail(from int) keyset { return keyset{ks.keys[from:], ks.sc[from:]} }

// denseRank ranks the current nodes by descending cached score (1 = highest; equal scores share a rank).
func denseRank(row []float64, cur []int) (rank []int, tie bool) {
	order := make([]int, len(cur))
	for i := range order {
		order[i] = i
	}
	sort.SliceStable(order, func(a, b int) bool { return row[cur[order[a]]] > row[cur[order[b]]] })
	rank = make([]int, len(cur))
	r := 0
	for p, i := range order {
		if p == 0 || row[cur[i]] != row[cur[order[p-1]]] {
			r++
		} else {
			tie = true
		}
		rank[i] = r
	}
	return rank, tie
}

func makeKeys(rng *rand.Rand, stride, nlong int) keyset {
	var ks []string
	for i := 0; i < 65536; i += stride {
		ks = append(ks, fmt.Sprintf("%04x", i))
	}
	for i := 0; i < 256; i++ {
		ks = append(ks, fmt.Sprintf("%02X", i))
	}
	for i := 0; i < nlong; i++ {
		b := make([]byte, 32)
		rng.Read(b)
		ks = append(ks, fmt.Sprintf("%x", b))
	}
	return keyset{keys: ks}
}

// sweepResult holds, per key, the reply as universe indices (or -1 for an unknown label).
type sweepResult struct {
	res [][]int8
}

type classRec struct {
	rk    []int // rank of each current node (canonical order)
	res   []int // reply as universe indices
	ranks []int // oracle rank of each reply position (0 = not a current node)
	setok bool
	cnt   int
}

// sweep runs GetOrderedNodes(key, n) for all keys on rh and classifies the replies.
// cur = universe indices of the current nodes in canonical order.
func sweep(rh *hrw.RendezvousHash, u []node, cur []int, ks keyset, n int) (sweepResult, map[string]*classRec, int) {
	byLabel := map[string]int{}
	for i, x := range u {
		byLabel[x.Label] = i
	}
	pos := map[int]int{} // universe idx -> position in cur
	for p, i := range cur {
		pos[i] = p
	}
	out := sweepResult{res: make([][]int8, len(ks.keys))}
	type part struct {
		cls  map[string]*classRec
		ties int
	}
	parts := make([]part, workers)
	var wg sync.WaitGroup
	var panicMu sync.Mutex
	panicked := ""
	for w := 0; w < workers; w++ {
		wg.Add(1)
		go func(w int) {
			defer wg.Done()
			defer func() { // a crash of the code under test inside a worker is recorded, not fatal for the run
				if r := recover(); r != nil {
					panicMu.Lock()
					panicked = fmt.Sprint(r)
					panicMu.Unlock()
				}
			}()
			cls := map[string]*classRec{}
			var sb strings.Builder
			for ki := w; ki < len(ks.keys); ki += workers {
				key := ks.keys[ki]
				got := rh.GetOrderedNodes(key, n)
				rank, tie := denseRank(ks.sc[ki], cur)
				if tie {
					parts[w].ties++
				}
				res := make([]int8, len(got))
				ranks := make([]int, len(got))
				var seen uint64
				setok := true
				for i, g := range got {
					ui, ok := byLabel[g.Label]
					if !ok || g.Weight != u[ui].Weight {
						res[i] = -1
						setok = false
						continue
					}
					res[i] = int8(ui)
					p, in := pos[ui]
					if !in || seen&(1<<uint(ui)) != 0 {
						setok = false
					} else {
						ranks[i] = rank[p]
					}
					seen |= 1 << uint(ui)
				}
				want := n
				if want > len(cur) {
					want = len(cur)
				}
				if len(got) != want {
					setok = false
				}
				out.res[ki] = res
				sb.Reset()
				for _, x := range rank {
					sb.WriteByte(byte('a' + x))
				}
				sb.WriteByte('|')
				for _, x := range res {
					sb.WriteByte(byte('b' + x))
				}
				if setok {
					sb.WriteByte('+')
				}
				k := sb.String()
				c := cls[k]
				if c == nil {
					r2 := make([]int, len(res))
					for i, x := range res {
						r2[i] = int(x)
					}
					c = &classRec{rk: rank, res: r2, ranks: ranks, setok: setok}
					cls[k] = c
				}
				c.cnt++
			}
			parts[w].cls = cls
		}(w)
	}
	wg.Wait()
	if panicked != "" { // re-raised on the driver's goroutine, where it becomes a "Panic" record of the trace
		panic("code under test panicked during concurrent lookups: " + panicked)
	}
	all := map[string]*classRec{}
	ties := 0
	for _, p := range parts {
		ties += p.ties
		for k, c := range p.cls {
			if a := all[k]; a != nil {
				a.cnt += c.cnt
			} else {
				all[k] = c
			}
		}
	}
	return out, all, ties
}

func same8(a, b []int8) bool {
	if len(a) != len(b) {
		return false
	}
	for i := range a {
		if a[i] != b[i] {
			return false
		}
	}
	return true
}

func key8(a, b []int8) string {
	buf := make([]byte, 0, len(a)+len(b)+1)
	for _, x := range a {
		buf = append(buf, byte('b'+x))
	}
	buf = append(buf, '|')
	for _, x := range b {
		buf = append(buf, byte('b'+x))
	}
	return string(buf)
}

func names(u []node, idx []int) []string {
	out := make([]string, len(idx))
	for i, x := range idx {
		if x < 0 {
			out[i] = "unknown"
		} else {
			out[i] = u[x].name
		}
	}
	return out
}

func sortedKeys[V any](m map[string]V) []string {
	ks := make([]string, 0, len(m))
	for k := range m {
		ks = append(ks, k)
	}
	sort.Strings(ks)
	return ks
}

type logger struct {
	c      *eng.Ctx
	u      []node
	budget int // remaining label-level Get records in this trace
}

// logSweep writes the rank-level classes always and the label-level classes while the budget lasts.
func (lg *logger) logSweep(cur []int, n int, cls map[string]*classRec, labelLevel bool) {
	// rank level: merge classes with the same (ranks, setok)
	type rr struct {
		ranks []int
		setok bool
		cnt   int
	}
	rl := map[string]*rr{}
	for _, c := range cls {
		k := fmt.Sprint(c.ranks, c.setok)
		if x := rl[k]; x != nil {
			x.cnt += c.cnt
		} else {
			rl[k] = &rr{c.ranks, c.setok, c.cnt}
		}
	}
	for _, k := range sortedKeys(rl) {
		x := rl[k]
		lg.c.W.Ev("GetR", "n", n, "ranks", x.ranks, "setok", x.setok, "cnt", x.cnt)
	}
	if !labelLevel {
		return
	}
	ls := names(lg.u, cur)
	for _, k := range sortedKeys(cls) {
		if lg.budget <= 0 {
			lg.c.Inc("label_level_budget_hit", 1)
			return
		}
		c := cls[k]
		lg.c.W.Ev("Get", "ls", ls, "rk", c.rk, "n", n, "res", names(lg.u, c.res), "cnt", c.cnt)
		lg.budget--
	}
}

// logDelta classifies (before, after) reply pairs per key.
func (lg *logger) logDelta(op string, x int, before, after sweepResult) {
	type pr struct {
		b, a []int
		cnt  int
	}
	m := map[string]*pr{}
	for ki := range after.res {
		k := key8(before.res[ki], after.res[ki])
		if p := m[k]; p != nil {
			p.cnt++
			continue
		}
		conv := func(s []int8) []int {
			o := make([]int, len(s))
			for i, v := range s {
				o[i] = int(v)
			}
			return o
		}
		m[k] = &pr{conv(before.res[ki]), conv(after.res[ki]), 1}
	}
	n := 0
	for _, k := range sortedKeys(m) {
		if n >= 800 {
			lg.c.Inc("delta_budget_hit", 1)
			break
		}
		p := m[k]
		lg.c.W.Ev("Delta", "op", op, "x", lg.u[x].name, "before", names(lg.u, p.b), "after", names(lg.u, p.a), "cnt", p.cnt)
		n++
	}
}

func build(c *eng.Ctx, u []node, order []int) *hrw.RendezvousHash {
	rh := hrw.NewRendezvousHash(hrw.Murmur3Hash, hrw.UInt64ToFloat64)
	c.W.Ev("New")
	for _, i := range order {
		rh.AddNode(u[i].Label, u[i].Weight)
		c.W.Ev("AddNode", "l", u[i].name, "w", u[i].Weight)
	}
	return rh
}

func canon(set map[int]bool) []int {
	var cur []int
	for i := range set {
		cur = append(cur, i)
	}
	sort.Ints(cur)
	return cur
}

func permutations(k int) [][]int {
	var out [][]int
	a := make([]int, k)
	for i := range a {
		a[i] = i
	}
	var rec func(i int)
	rec = func(i int) {
		if i == k {
			out = append(out, append([]int(nil), a...))
			return
		}
		for j := i; j < k; j++ {
			a[i], a[j] = a[j], a[i]
			rec(i + 1)
			a[i], a[j] = a[j], a[i]
		}
	}
	rec(0)
	return out
}

func logGetNode(c *eng.Ctx, rh *hrw.RendezvousHash, u []node, i int) {
	nd, idx := rh.GetNode(u[i].Label)
	w := 0
	if nd != nil {
		w = nd.Weight
		if nd.Label != u[i].Label {
			idx = -2
		}
	}
	c.W.Ev("GetNode", "l", u[i].name, "idx", idx, "w", w)
}

func unitTrace(c *eng.Ctx, t int, rng *rand.Rand) {
	c.W.Reset(t, map[string]any{"kind": "unit"})
	max := []byte{0xff, 0xff, 0xff, 0xff, 0xff, 0xff, 0xff, 0xff}
	emit := func(cls string, h uint64) {
		var b [8]byte
		binary.BigEndian.PutUint64(b[:], h)
		v := hrw.UInt64ToFloat64(b[:], max, hrw.Murmur3Hash())
		ref, rehashed := hrwref.Unit(h)
		c.W.Ev("Unit", "cls", cls, "in01", v >= 0 && v < 1, "pos", v > 0, "same", v == ref, "rehashed", rehashed)
	}
	emit("zero53", 0)
	for i := 0; i < 64; i++ {
		emit("zero53", uint64(rng.Intn(1<<11))<<53)
	}
	emit("normal", ^uint64(0))
	emit("normal", 1)
	emit("normal", (uint64(1)<<53)-1)
	for i := 0; i < 64; i++ {
		h := rng.Uint64()
		if h&((1<<53)-1) == 0 {
			h |= 1
		}
		emit("normal", h)
	}
}

func permTrace(c *eng.Ctx, t int, rng *rand.Rand, k int, stride int) {
	u := makeUniverse(rng, k, rng.Intn(3) == 0)
	ks := makeKeys(rng, stride, c.N(500, 2000)).withOracle(u)
	c.W.Reset(t, map[string]any{"kind": "perm", "k": k, "keys": len(ks.keys)})
	lg := &logger{c: c, u: u, budget: c.N(1500, 4000)}
	perms := permutations(k)
	all := make([]int, k)
	for i := range all {
		all[i] = i
	}
	// label-level logging for the first and a few random permutations; rank-level for all
	detailed := map[int]bool{0: true}
	for i := 0; i < c.N(3, 10) && len(perms) > 1; i++ {
		detailed[rng.Intn(len(perms))] = true
	}
	var base sweepResult
	agree := true
	var rh *hrw.RendezvousHash
	ties := 0
	for pi, p := range perms {
		rh = build(c, u, p)
		r, cls, ti := sweep(rh, u, all, ks, k)
		ties += ti
		lg.logSweep(all, k, cls, detailed[pi])
		if pi == 0 {
			base = r
		} else {
			for ki := range r.res {
				if !same8(r.res[ki], base.res[ki]) {
					agree = false
					break
				}
			}
		}
	}
	c.W.Ev("Perms", "k", k, "perms", len(perms), "agree", agree)
	c.Inc("ties", ties)
	c.Inc("sweeps", len(perms))
	// truncated queries (ca_store asks for n = 1)
	for _, n := range []int{0, 1, k - 1, k + 3} {
		if n < 0 {
			continue
		}
		sub := ks
		if n != 1 {
			sub = ks.tail(65536 / stride)
		}
		_, cls, _ := sweep(rh, u, all, sub, n)
		lg.logSweep(all, n, cls, true)
	}
	for i := range u {
		logGetNode(c, rh, u, i)
	}
	// every single-node removal, then re-addition (which also changes the insertion order)
	set := map[int]bool{}
	for i := range u {
		set[i] = true
	}
	prev, _, _ := sweep(rh, u, all, ks, k)
	for x := range u {
		rh.RemoveNode(u[x].Label)
		c.W.Ev("RemoveNode", "l", u[x].name)
		delete(set, x)
		cur := canon(set)
		r, cls, _ := sweep(rh, u, cur, ks, len(cur))
		lg.logDelta("remove", x, prev, r)
		lg.logSweep(cur, len(cur), cls, true)
		logGetNode(c, rh, u, x)
		rh.AddNode(u[x].Label, u[x].Weight)
		c.W.Ev("AddNode", "l", u[x].name, "w", u[x].Weight)
		set[x] = true
		r2, cls2, _ := sweep(rh, u, all, ks, k)
		lg.logDelta("add", x, r, r2)
		lg.logSweep(all, k, cls2, true)
		logGetNode(c, rh, u, x)
		prev = r2
		c.Inc("sweeps", 2)
	}
}

func churnTrace(c *eng.Ctx, t int, rng *rand.Rand, usize, maxCur int) {
	u := makeUniverse(rng, usize, rng.Intn(4) == 0)
	ks := makeKeys(rng, 1, c.N(500, 2000)).withOracle(u)
	c.W.Reset(t, map[string]any{"kind": "churn", "universe": usize, "keys": len(ks.keys)})
	lg := &logger{c: c, u: u, budget: c.N(1500, 4000)}
	rh := hrw.NewRendezvousHash(hrw.Murmur3Hash, hrw.UInt64ToFloat64)
	c.W.Ev("New")
	set := map[int]bool{}
	var prev sweepResult
	havePrev := false
	steps := c.N(5, 7) + rng.Intn(4)
	for s := 0; s < steps; s++ {
		x := rng.Intn(usize)
		add := !set[x]
		if add && len(set) >= maxCur {
			// remove a random present node instead
			cur := canon(set)
			x = cur[rng.Intn(len(cur))]
			add = false
		}
		if !add && rng.Intn(8) == 0 {
			// RemoveNode of an absent label is a no-op
			for y := 0; y < usize; y++ {
				if !set[y] {
					rh.RemoveNode(u[y].Label)
					c.W.Ev("RemoveNode", "l", u[y].name)
					break
				}
			}
		}
		op := "remove"
		if add {
			rh.AddNode(u[x].Label, u[x].Weight)
			c.W.Ev("AddNode", "l", u[x].name, "w", u[x].Weight)
			set[x] = true
			op = "add"
		} else {
			rh.RemoveNode(u[x].Label)
			c.W.Ev("RemoveNode", "l", u[x].name)
			delete(set, x)
		}
		cur := canon(set)
		r, cls, ti := sweep(rh, u, cur, ks, len(cur))
		c.Inc("ties", ti)
		c.Inc("sweeps", 1)
		if havePrev {
			if len(cur) <= 5 {
				lg.logDelta(op, x, prev, r)
			} else {
				// large sets: too many distinct pairs to log all of them; sample the random long keys only
				lg.logDeltaSample(op, x, prev, r, ks, 150)
			}
		}
		lg.logSweep(cur, len(cur), cls, len(cur) <= 5)
		if len(cur) > 5 {
			lg.logSample(rh, cur, ks, rng, 120)
		}
		if len(cur) > 1 && rng.Intn(2) == 0 {
			n := 1 + rng.Intn(len(cur))
			_, cls, _ := sweep(rh, u, cur, ks.tail(65536), n)
			lg.logSweep(cur, n, cls, len(cur) <= 5)
		}
		logGetNode(c, rh, u, rng.Intn(usize))
		prev, havePrev = r, true
	}
}

// logSample logs label-level Get records for a random sample of keys (used when the node set is too large
// for exhaustive label-level classes).
func (lg *logger) logSample(rh *hrw.RendezvousHash, cur []int, ks keyset, rng *rand.Rand, n int) {
	sub := keyset{}
	for i := 0; i < n; i++ {
		j := rng.Intn(len(ks.keys))
		sub.keys = append(sub.keys, ks.keys[j])
		sub.sc = append(sub.sc, ks.sc[j])
	}
	_, cls, _ := sweep(rh, lg.u, cur, sub, len(cur))
	ls := names(lg.u, cur)
	for _, k := range sortedKeys(cls) {
		cc := cls[k]
		lg.c.W.Ev("Get", "ls", ls, "rk", cc.rk, "n", len(cur), "res", names(lg.u, cc.res), "cnt", cc.cnt)
	}
}

func (lg *logger) logDeltaSample(op string, x int, before, after sweepResult, ks keyset, n int) {
	lo := len(ks.keys) - n
	if lo < 0 {
		lo = 0
	}
	lg.logDelta(op, x, sweepResult{before.res[lo:]}, sweepResult{after.res[lo:]})
}

func run(c *eng.Ctx) error {
	// plan: trace 0 = Unit; then perm traces; then churn traces
	type plan struct {
		kind   string
		k      int
		stride int
		usize  int
		maxCur int
	}
	var plans []plan
	plans = append(plans, plan{kind: "unit"})
	if c.Quick() {
		plans = append(plans,
			plan{kind: "perm", k: 1, stride: 1}, plan{kind: "perm", k: 2, stride: 1},
			plan{kind: "perm", k: 3, stride: 1}, plan{kind: "perm", k: 4, stride: 1},
			plan{kind: "perm", k: 5, stride: 16})
		for i := 0; i < 4; i++ {
			plans = append(plans, plan{kind: "churn", usize: 6, maxCur: 5})
		}
		plans = append(plans, plan{kind: "churn", usize: 8, maxCur: 8})
	} else {
		for rep := 0; rep < 4; rep++ {
			for k := 1; k <= 4; k++ {
				plans = append(plans, plan{kind: "perm", k: k, stride: 1})
			}
		}
		plans = append(plans, plan{kind: "perm", k: 5, stride: 1}, plan{kind: "perm", k: 5, stride: 4})
		for i := 0; i < 30; i++ {
			plans = append(plans, plan{kind: "churn", usize: 6, maxCur: 5})
		}
		for i := 0; i < 12; i++ {
			plans = append(plans, plan{kind: "churn", usize: 8, maxCur: 8})
		}
	}
	c.Traces(len(plans), func(t int, rng *rand.Rand) {
		p := plans[t]
		switch p.kind {
		case "unit":
			unitTrace(c, t, rng)
		case "perm":
			permTrace(c, t, rng, p.k, p.stride)
		default:
			churnTrace(c, t, rng, p.usize, p.maxCur)
		}
	})
	c.Stats["exhaustive"] = true
	return nil
}
