// Package c06: crash recovery of disk.Store (property C06).
//
// A seeded sequence of store calls is executed once in a child process under strace; every prefix of
// the recorded file-system operations is materialized into a fresh directory, the REAL recovery code
// (disk.NewStore) is started on it and probed.  One trace per crash point is logged for TLC
// (spec/store/DiskCrashTrace.tla).
package c06

import (
	"encoding/json"
	"fmt"
	"io"
	"math/rand"
	"os"
	"path/filepath"

	"github.com/uber-go/tally"

	"github.com/uber/kraken/lib/store/disk"

	"kvh/engines/blobstore"
	"kvh/internal/crashlab"
	"kvh/internal/eng"
	"kvh/internal/vmd"
)

func init() {
	eng.Register("c06", run)
	eng.Register("c06child", child)
}

type call struct {
	Op  string `json:"op"`
	K   int    `json:"k"` // key index 0..nk-1
	Sz  int    `json:"sz"`
	C   int    `json:"c"`
	S   string `json:"s"`
	V   int    `json:"v"`
	Res string `json:"res"`
}
type scenario struct {
	Dir    string `json:"dir"`
	Cap    int    `json:"cap"`
	Shard  int    `json:"shard"`
	Reboot bool   `json:"reboot"`
	Calls  []call `json:"calls"`
}

const nk = 3

func keyName(i int) string { return fmt.Sprintf("%02x%062x", 0xa0+i, i+1) }

func pattern(c, n int) []byte {
	b := make([]byte, n)
	for i := range b {
		b[i] = byte(c)
	}
	return b
}

func exec1(s *disk.Store, c *call) {
	k := keyName(c.K)
	var err error
	switch c.Op {
	case "Create":
		f, e := s.Create(k, uint64(c.Sz))
		err = e
		if e == nil {
			if _, we := f.Write(pattern(c.C, c.Sz)); we != nil {
				err = we
			}
			f.Close()
		}
	case "MarkComplete":
		err = s.MarkComplete(k)
	case "Delete":
		err = s.Delete(k)
	case "Ban":
		err = s.BanEviction(k)
	case "Unban":
		err = s.UnbanEviction(k)
	case "SetMd":
		err = s.SetMetadata(k, &vmd.MD{Suffix: "_v" + c.S, V: c.V})
	case "DelMd":
		err = s.DeleteMetadata(k, "_v"+c.S)
	}
	c.Res = blobstore.Classify(err)
}

// child executes the scenario given in KVH_SCENARIO (json file) and writes the per-call results next to it.
func child(c *eng.Ctx) error {
	path := os.Getenv("KVH_SCENARIO")
	raw, err := os.ReadFile(path)
	if err != nil {
		return err
	}
	var sc scenario
	if err := json.Unmarshal(raw, &sc); err != nil {
		return err
	}
	s, err := disk.NewStore(&disk.Config{RootDir: sc.Dir, CapacityBytes: uint64(sc.Cap), ShardLength: sc.Shard, RebootIncompleteBlobs: sc.Reboot}, tally.NoopScope)
	if err != nil {
		return err
	}
	for i := range sc.Calls {
		crashlab.Mark(i)
		exec1(s, &sc.Calls[i])
	}
	crashlab.Mark(len(sc.Calls))
	out, _ := json.Marshal(sc)
	return os.WriteFile(path+".out", out, 0o644)
}

// templates: call sequences that every run covers (overwriting existing metadata on incomplete and complete
// blobs, ban / unban, eviction by admission, delete), with the configuration still drawn from the seed.
var templates = [][]call{
	{{Op: "Create", K: 0, Sz: 2, C: 1}, {Op: "SetMd", K: 0, S: "mov", V: 1}, {Op: "SetMd", K: 0, S: "mov", V: 2}, {Op: "SetMd", K: 0, S: "fix", V: 1},
		{Op: "MarkComplete", K: 0}, {Op: "SetMd", K: 0, S: "mov", V: 3}, {Op: "Ban", K: 0}, {Op: "SetMd", K: 0, S: "mov", V: 1}, {Op: "Unban", K: 0}, {Op: "DelMd", K: 0, S: "mov"}, {Op: "Delete", K: 0}},
	{{Op: "Create", K: 0, Sz: 2, C: 1}, {Op: "MarkComplete", K: 0}, {Op: "Create", K: 1, Sz: 2, C: 2}, {Op: "SetMd", K: 1, S: "mov", V: 2}, {Op: "MarkComplete", K: 1},
		{Op: "Create", K: 2, Sz: 3, C: 3}, {Op: "Ban", K: 1}, {Op: "SetMd", K: 1, S: "mov", V: 3}, {Op: "Create", K: 0, Sz: 1, C: 2}, {Op: "Delete", K: 1}},
}

func gen(rng *rand.Rand, s int) scenario {
	if s < len(templates) {
		return scenario{Cap: []int{4, 6}[rng.Intn(2)], Shard: []int{0, 2}[rng.Intn(2)], Reboot: rng.Intn(2) == 0, Calls: append([]call{}, templates[s]...)}
	}
	sc := scenario{Cap: []int{4, 6, 64}[rng.Intn(3)], Shard: []int{0, 2}[rng.Intn(2)], Reboot: rng.Intn(2) == 0}
	n := 4 + rng.Intn(5)
	st := make([]int, nk) // generator-side guess only to bias towards meaningful calls: 0 absent 1 inc 2 comp
	for i := 0; i < n; i++ {
		k := rng.Intn(nk)
		var c call
		switch {
		case st[k] == 0 || rng.Intn(10) == 0:
			c = call{Op: "Create", K: k, Sz: 1 + rng.Intn(3), C: 1 + rng.Intn(3)}
			st[k] = 1
		default:
			switch r := rng.Intn(10); {
			case r < 3:
				c = call{Op: "MarkComplete", K: k}
				st[k] = 2
			case r < 5:
				c = call{Op: "SetMd", K: k, S: []string{"mov", "fix"}[rng.Intn(2)], V: 1 + rng.Intn(3)}
			case r < 6:
				c = call{Op: "DelMd", K: k, S: []string{"mov", "fix"}[rng.Intn(2)]}
			case r < 7:
				c = call{Op: "Ban", K: k}
			case r < 8:
				c = call{Op: "Unban", K: k}
			default:
				c = call{Op: "Delete", K: k}
				st[k] = 0
			}
		}
		sc.Calls = append(sc.Calls, c)
	}
	return sc
}

func run(c *eng.Ctx) error {
	nsc := c.N(7, 60)
	root, err := os.MkdirTemp("", "kvh-c06-")
	if err != nil {
		return err
	}
	defer os.RemoveAll(root)
	self, _ := os.Executable()
	tid := 0
	prefixes := 0
	for s := 0; s < nsc; s++ {
		rng := rand.New(rand.NewSource(c.Seed*7919 + int64(s)*104729 + 3))
		sc := gen(rng, s)
		sc.Dir = filepath.Join(root, fmt.Sprintf("s%d", s), "store")
		os.MkdirAll(filepath.Dir(sc.Dir), 0o755)
		spath := filepath.Join(root, fmt.Sprintf("s%d.json", s))
		raw, _ := json.Marshal(sc)
		os.WriteFile(spath, raw, 0o644)
		env := append(os.Environ(), "KVH_SCENARIO="+spath, "GOMEMLIMIT=4GiB")
		ops, out, err := crashlab.Record([]string{self, "c06child", "-out", filepath.Join(root, fmt.Sprintf("s%d.childout", s))}, sc.Dir, env)
		if err != nil {
			return fmt.Errorf("record scenario %d: %v\n%s", s, err, out)
		}
		rawOut, err := os.ReadFile(spath + ".out")
		if err != nil {
			return fmt.Errorf("child results: %v\n%s", err, out)
		}
		var done scenario
		json.Unmarshal(rawOut, &done)
		c.Inc("fs_ops", len(ops))
		for p := 0; p <= len(ops); p++ {
			if c.Only >= 0 && tid != c.Only {
				tid++
				continue
			}
			prefixes++
			inflight := len(done.Calls) // none
			if p < len(ops) {
				inflight = ops[p].Mark
			}
			dst := filepath.Join(root, fmt.Sprintf("m%d", tid))
			if err := crashlab.Materialize(ops, p, dst); err != nil {
				return err
			}
			emit(c, tid, s, p, len(ops), done, inflight, dst, ops)
			os.RemoveAll(dst)
			tid++
		}
		os.RemoveAll(filepath.Dir(sc.Dir))
	}
	c.Stats["scenarios"] = nsc
	c.Stats["crash_points"] = prefixes
	c.Stats["exhaustive"] = true // every prefix of every recorded scenario
	return nil
}

func emit(c *eng.Ctx, tid, s, p, nops int, sc scenario, inflight int, dir string, ops []crashlab.Op) {
	lastop := "none"
	if p > 0 {
		lastop = ops[p-1].String()
	}
	c.W.Reset(tid, map[string]any{"cap": sc.Cap, "shard": sc.Shard, "reboot": sc.Reboot, "scenario": s, "prefix": p, "nops": nops, "lastop": lastop})
	kn := func(i int) string { return fmt.Sprintf("k%d", i+1) }
	logCall := func(ev string, cl call) {
		c.W.Ev(ev, "op", cl.Op, "k", kn(cl.K), "sz", cl.Sz, "c", cl.C, "s", cl.S, "v", cl.V, "res", cl.Res)
	}
	for i := 0; i < inflight && i < len(sc.Calls); i++ {
		logCall("Call", sc.Calls[i])
	}
	if inflight < len(sc.Calls) {
		logCall("Crash", sc.Calls[inflight])
	} else {
		c.W.Ev("Crash", "op", "none", "k", "k1", "sz", 0, "c", 0, "s", "mov", "v", 0, "res", "ok")
	}
	// ---- real recovery
	st := make([]string, nk)
	size, content, mov, fix := make([]int, nk), make([]int, nk), make([]int, nk), make([]int, nk)
	banned := make([]bool, nk)
	for i := range st {
		st[i] = "absent"
	}
	res := "ok"
	var store *disk.Store
	func() {
		defer func() {
			if r := recover(); r != nil {
				res = "panic"
			}
		}()
		var err error
		store, err = disk.NewStore(&disk.Config{RootDir: dir, CapacityBytes: uint64(sc.Cap), ShardLength: sc.Shard, RebootIncompleteBlobs: sc.Reboot}, tally.NoopScope)
		if err != nil {
			res = "error"
		}
	}()
	recreate := make([]string, nk)
	for i := range recreate {
		recreate[i] = "skipped"
	}
	if res == "ok" {
		order := map[string]bool{}
		for _, k := range store.VerifEvictionOrder() {
			order[k] = true
		}
		for i := 0; i < nk; i++ {
			k := keyName(i)
			in, comp := store.ScopeComplete().Has(k)
			if !in {
				continue
			}
			st[i] = "inc"
			if comp {
				st[i] = "comp"
				banned[i] = !order[k]
				if f, err := store.Open(k); err == nil {
					b, _ := io.ReadAll(f)
					f.Close()
					content[i] = -1
					size[i] = len(b)
					if len(b) > 0 {
						content[i] = int(b[0])
						for _, x := range b {
							if int(x) != content[i] {
								content[i] = -1
							}
						}
					}
				} else {
					content[i] = -2
				}
			} else {
				size[i] = int(store.VerifBlobSize(k))
			}
			for _, sf := range []string{"_vmov", "_vfix"} {
				m := &vmd.MD{Suffix: sf}
				if ok, err := store.GetMetadata(k, m); err == nil && ok {
					if sf == "_vmov" {
						mov[i] = m.V
					} else {
						fix[i] = m.V
					}
				} else if err != nil {
					if sf == "_vmov" {
						mov[i] = -1
					} else {
						fix[i] = -1
					}
				}
			}
		}
	}
	c.W.Ev("Reboot", "res", res, "st", st, "size", size, "banned", banned, "mov", mov, "fix", fix, "content", content)
	if res == "ok" {
		// every key can be (deleted,) created and completed again.  All restored blobs are deleted first and each
		// key is deleted again after its turn, so that the probe itself never runs into the capacity limit
		// (a store legitimately full of incomplete, unevictable blobs answers nospace).
		delErr := make([]string, nk)
		for i := 0; i < nk; i++ {
			if st[i] != "absent" {
				if err := store.Delete(keyName(i)); err != nil {
					delErr[i] = "delete:" + blobstore.Classify(err)
				}
			}
		}
		for i := 0; i < nk; i++ {
			k := keyName(i)
			r := "ok"
			if delErr[i] != "" {
				r = delErr[i]
			}
			if r == "ok" {
				f, err := store.Create(k, 1)
				if err != nil {
					r = "create:" + blobstore.Classify(err)
				} else {
					f.Write(pattern(1, 1))
					f.Close()
					if err := store.MarkComplete(k); err != nil {
						r = "complete:" + blobstore.Classify(err)
					} else if f2, err := store.ScopeComplete().Open(k); err != nil {
						r = "open:" + blobstore.Classify(err)
					} else {
						b, _ := io.ReadAll(f2)
						f2.Close()
						if string(b) != string(pattern(1, 1)) {
							r = "bytes"
						}
					}
					store.Delete(k)
				}
			}
			recreate[i] = r
		}
	}
	c.W.Ev("Recreate", "res", recreate)
}
