// Package c23 records histories of the real healthcheck.Filter and healthcheck.Monitor
// (property C23) for validation against spec/health/ActiveHealth.tla.
//
// The driver only records: list given to Run, what the scripted Checker was asked and
// answered, the reply.  Families of traces (ids in this order):
//
//	A  exhaustive: every outcome sequence of length L for the fixed list {h1,h2}, every Fails,Passes in 1..3
//	B  exhaustive: every sequence of (list over 3 hosts, outcomes) of length LB without re-appearing hosts
//	C  seeded random: 4 hosts, 8-14 runs, lists change (hosts leave / first appear), no re-appearing hosts
//	M  as C but through a real Monitor (gated hostlist, Interval 1ms), observed through Monitor.Resolve
//	H  runs in which the Checker hangs until the filter's Timeout
//	D  dedicated re-appearance scenarios (cfg.rejoin=1): scn "sync" (host leaves through a list of 0 or >=2
//	   hosts) and scn "single" (host leaves / rejoins around a single-host list)
package c23

import (
	"context"
	"errors"
	"fmt"
	"math/rand"
	"sort"
	"sync"
	"time"

	"github.com/uber/kraken/lib/healthcheck"
	"github.com/uber/kraken/utils/stringset"

	"kvh/internal/eng"
)

func init() { eng.Register("c23", run) }

var errScripted = errors.New("scripted check failure")

// scripted is a healthcheck.Checker answering from a per-run script and counting calls.
type scripted struct {
	mu    sync.Mutex
	out   map[string]string
	calls map[string]int
}

func (s *scripted) set(out map[string]string) {
	s.mu.Lock()
	s.out, s.calls = out, map[string]int{}
	s.mu.Unlock()
}

func (s *scripted) Check(ctx context.Context, addr string) error {
	s.mu.Lock()
	o := s.out[addr]
	s.calls[addr]++
	s.mu.Unlock()
	switch o {
	case "pass":
		return nil
	case "hang":
		<-ctx.Done()
		return ctx.Err()
	default:
		return errScripted
	}
}

// observed returns, aligned with addrs, the scripted outcome of every host that was asked exactly once.
func (s *scripted) observed(addrs []string) []string {
	s.mu.Lock()
	defer s.mu.Unlock()
	o := make([]string, len(addrs))
	for i, a := range addrs {
		switch n := s.calls[a]; {
		case n == 0:
			o[i] = "skip"
		case n == 1:
			o[i] = s.out[a]
			if o[i] == "" {
				o[i] = "fail"
			}
		default:
			o[i] = "dup"
		}
	}
	return o
}

type step struct {
	addrs []string          // sorted
	out   map[string]string // scripted outcome per host of addrs
}

type plan struct {
	fails, passes int
	fam, scn      string
	rejoin        int
	monitor       bool
	timeout       time.Duration
	steps         []step
}

func sorted(s stringset.Set) []string {
	r := make([]string, 0, len(s))
	for x := range s {
		r = append(r, x)
	}
	sort.Strings(r)
	return r
}

var hostNames = []string{"h1", "h2", "h3", "h4"}

func mkStep(mask, outmask int) step {
	st := step{addrs: []string{}, out: map[string]string{}}
	for i := 0; i < len(hostNames); i++ {
		if mask&(1<<i) != 0 {
			st.addrs = append(st.addrs, hostNames[i])
			if outmask&(1<<i) != 0 {
				st.out[hostNames[i]] = "fail"
			} else {
				st.out[hostNames[i]] = "pass"
			}
		}
	}
	return st
}

// choices3 = every (list over h1..h3, outcomes of its hosts); single-host lists carry one (unused) script.
func choices3() [][2]int {
	var c [][2]int
	for mask := 0; mask < 8; mask++ {
		var bits []int
		for i := 0; i < 3; i++ {
			if mask&(1<<i) != 0 {
				bits = append(bits, i)
			}
		}
		if len(bits) == 1 {
			c = append(c, [2]int{mask, 0})
			continue
		}
		for o := 0; o < 1<<len(bits); o++ {
			om := 0
			for j, b := range bits {
				if o&(1<<j) != 0 {
					om |= 1 << b
				}
			}
			c = append(c, [2]int{mask, om})
		}
	}
	return c
}

func hasRejoin(masks []int) bool {
	for h := 0; h < 4; h++ {
		state := 0 // 0 never seen, 1 present, 2 left
		for _, m := range masks {
			in := m&(1<<h) != 0
			switch {
			case in && state == 2:
				return true
			case in:
				state = 1
			case state == 1:
				state = 2
			}
		}
	}
	return false
}

// randomSteps generates a history over 4 hosts whose list changes from run to run.
func randomSteps(rng *rand.Rand, n int, allowRejoin, allowSingle bool, hangs bool) []step {
	pf := []float64{0.3, 0.5, 0.7}[rng.Intn(3)]
	ok := func(m int) bool {
		c := 0
		for i := 0; i < 4; i++ {
			if m&(1<<i) != 0 {
				c++
			}
		}
		return allowSingle || c != 1
	}
	cur := 0
	for {
		cur = rng.Intn(16)
		if ok(cur) && cur != 0 {
			break
		}
	}
	seen, left := 0, 0
	var steps []step
	for i := 0; i < n; i++ {
		if i > 0 && rng.Float64() < 0.45 {
			for try := 0; try < 8; try++ {
				h := 1 << rng.Intn(4)
				nxt := cur ^ h
				if cur&h == 0 && left&h != 0 && !allowRejoin {
					continue
				}
				if !ok(nxt) {
					continue
				}
				cur = nxt
				break
			}
		}
		om := 0
		for h := 0; h < 4; h++ {
			if rng.Float64() < pf {
				om |= 1 << h
			}
		}
		st := mkStep(cur, om)
		if hangs && len(st.addrs) >= 2 && i%3 == 1 {
			st.out[st.addrs[rng.Intn(len(st.addrs))]] = "hang"
		}
		steps = append(steps, st)
		left = (left | (seen &^ cur)) &^ cur
		seen |= cur
	}
	return steps
}

func pass(hs ...string) step {
	st := step{addrs: hs, out: map[string]string{}}
	for _, h := range hs {
		st.out[h] = "pass"
	}
	return st
}

func with(st step, h, o string) step { st.out[h] = o; return st }

// probe reports whether the tree under test already lets a re-appearing host start healthy (input selection
// only: it decides how many re-appearance histories are generated, never a verdict).
func probe() (syncOK, singleOK bool) {
	drive := func(fails, passes int, steps []step) stringset.Set {
		ck := &scripted{}
		f := healthcheck.NewFilter(healthcheck.FilterConfig{Fails: fails, Passes: passes, Timeout: 10 * time.Second}, ck)
		var res stringset.Set
		for _, st := range steps {
			ck.set(st.out)
			res = f.Run(stringset.New(st.addrs...))
		}
		return res
	}
	syncOK = drive(2, 2, []step{pass("h1", "h2", "h3"), pass("h1", "h2"), with(pass("h1", "h2", "h3"), "h3", "fail")}).Has("h3")
	singleOK = drive(1, 2, []step{with(pass("h1", "h2"), "h2", "fail"), pass("h1"), pass("h1", "h2")}).Has("h2")
	return
}

func run(c *eng.Ctx) error {
	syncOK, singleOK := probe()
	L := c.N(4, 5)  // family A: runs per history (all 9 configurations)
	L2 := 6         // family A, thorough only: longer histories for the configurations with Fails+Passes >= 5
	deep := [][2]int{{2, 3}, {3, 2}, {3, 3}}
	LB := c.N(2, 3) // family B: runs per history
	bCfgs := [][2]int{{1, 1}, {1, 2}, {2, 1}, {2, 2}}
	if !c.Quick() {
		bCfgs = [][2]int{{1, 1}, {2, 2}}
	}
	nBcfg := len(bCfgs)
	pow := func(b, e int) int {
		r := 1
		for ; e > 0; e-- {
			r *= b
		}
		return r
	}
	ch3 := choices3()
	nA1 := 9 * pow(4, L)
	nA2 := 0
	if !c.Quick() {
		nA2 = len(deep) * pow(4, L2)
	}
	nA := nA1 + nA2
	nB := nBcfg * pow(len(ch3), LB)
	nC := c.N(250, 1500)
	nM := c.N(15, 150)
	nH := c.N(2, 10)
	nSync, nSingle := c.N(2, 4), c.N(1, 2)
	if syncOK {
		nSync = c.N(150, 800)
	}
	if singleOK {
		nSingle = c.N(100, 500)
	}
	fmt.Printf("NOTE c23: re-appearance probe: sync-path %v, single-host-path %v -> %d+%d dedicated re-appearance traces\n",
		okStr(syncOK), okStr(singleOK), nSync, nSingle)
	total := nA + nB + nC + nM + nH + nSync + nSingle
	c.Stats["exhaustive"] = true
	c.Stats["families"] = map[string]int{"A_exhaustive_outcomes": nA, "B_exhaustive_lists": nB, "C_random": nC,
		"M_monitor": nM, "H_hang": nH, "D_sync": nSync, "D_single": nSingle}

	planFor := func(t int, rng *rand.Rand) *plan {
		p := &plan{timeout: 10 * time.Second}
		switch {
		case t < nA:
			per, n, i := pow(4, L), L, t
			if t >= nA1 {
				per, n, i = pow(4, L2), L2, t-nA1
			}
			cfg, seq := i/per, i%per
			p.fam, p.fails, p.passes = "A", cfg/3+1, cfg%3+1
			if t >= nA1 {
				p.fails, p.passes = deep[cfg][0], deep[cfg][1]
			}
			for r := 0; r < n; r++ {
				d := seq % 4
				seq /= 4
				p.steps = append(p.steps, mkStep(3, d))
			}
			return p
		case t < nA+nB:
			i := t - nA
			per := pow(len(ch3), LB)
			cfg, seq := i/per, i%per
			p.fam = "B"
			p.fails, p.passes = bCfgs[cfg][0], bCfgs[cfg][1]
			var masks []int
			for r := 0; r < LB; r++ {
				ch := ch3[seq%len(ch3)]
				seq /= len(ch3)
				masks = append(masks, ch[0])
				p.steps = append(p.steps, mkStep(ch[0], ch[1]))
			}
			if hasRejoin(masks) {
				return nil // covered by family D
			}
			return p
		}
		p.fails, p.passes = 1+rng.Intn(3), 1+rng.Intn(3)
		i := t - nA - nB
		switch {
		case i < nC:
			p.fam = "C"
			p.steps = randomSteps(rng, 8+rng.Intn(7), false, true, false)
		case i < nC+nM:
			p.fam, p.monitor = "M", true
			p.steps = randomSteps(rng, 8+rng.Intn(5), false, true, false)
		case i < nC+nM+nH:
			p.fam, p.timeout = "H", 250*time.Millisecond
			p.steps = randomSteps(rng, 6, false, false, true)
		case i < nC+nM+nH+nSync:
			j := i - nC - nM - nH
			p.fam, p.scn, p.rejoin = "D", "sync", 1
			switch j {
			case 0: // healthy host leaves and comes back, then fails once (Fails=2)
				p.fails, p.passes = 2, 2
				p.steps = []step{pass("h1", "h2", "h3"), pass("h1", "h2"), with(pass("h1", "h2", "h3"), "h3", "fail"), pass("h1", "h2", "h3")}
			case 1: // unhealthy host leaves and comes back, then passes once (Passes=2)
				p.fails, p.passes = 1, 2
				p.steps = []step{with(pass("h1", "h2", "h3"), "h3", "fail"), pass("h1", "h2"), pass("h1", "h2", "h3"), pass("h1", "h2", "h3")}
			default:
				p.steps = randomSteps(rng, 8+rng.Intn(7), true, false, false)
			}
		default:
			j := i - nC - nM - nH - nSync
			p.fam, p.scn, p.rejoin = "D", "single", 1
			if j == 0 { // unhealthy host drops out while the list has a single host, comes back and passes once
				p.fails, p.passes = 1, 2
				p.steps = []step{with(pass("h1", "h2"), "h2", "fail"), pass("h1"), pass("h1", "h2"), pass("h1", "h2")}
			} else {
				p.steps = randomSteps(rng, 8+rng.Intn(7), true, true, false)
			}
		}
		return p
	}

	var err error
	c.Traces(total, func(t int, rng *rand.Rand) {
		if err != nil {
			return
		}
		p := planFor(t, rng)
		if p == nil {
			return
		}
		// stale_*: outcome of probe() (1 = a re-appearing host was observed not to start healthy on that path), logged so
		// that known findings F23a/F23b are matched only where their root cause was observed
		c.W.Reset(t, map[string]any{"fails": p.fails, "passes": p.passes, "fam": p.fam, "scn": p.scn, "rejoin": p.rejoin,
			"stale_sync": b2i(!syncOK), "stale_single": b2i(!singleOK)})
		ck := &scripted{}
		f := healthcheck.NewFilter(healthcheck.FilterConfig{Fails: p.fails, Passes: p.passes, Timeout: p.timeout}, ck)
		// input class of a Run: does its list contain a host that left and re-appeared in this history
		seen, left, rej := map[string]bool{}, map[string]bool{}, map[string]bool{}
		class := func(addrs []string) int {
			in := map[string]bool{}
			r := 0
			for _, a := range addrs {
				in[a] = true
				if left[a] {
					rej[a] = true
					delete(left, a)
				}
				if rej[a] {
					r = 1
				}
				seen[a] = true
			}
			for a := range seen {
				if !in[a] {
					left[a] = true
				}
			}
			return r
		}
		if !p.monitor {
			for _, st := range p.steps {
				ck.set(st.out)
				res := f.Run(stringset.New(st.addrs...))
				c.W.Ev("Run", "addrs", st.addrs, "out", ck.observed(st.addrs), "res", sorted(res), "rejoined", class(st.addrs))
			}
			return
		}
		err = runMonitor(c, p, f, ck, class)
	})
	return err
}

func b2i(b bool) int {
	if b {
		return 1
	}
	return 0
}

func okStr(b bool) string {
	if b {
		return "starts healthy"
	}
	return "does NOT start healthy"
}

// gateList is a hostlist.List whose Resolve blocks until the harness hands out the next list.
type gateList struct {
	arrive chan struct{}
	next   chan stringset.Set
}

func (g *gateList) Resolve() stringset.Set {
	g.arrive <- struct{}{}
	return <-g.next
}

func runMonitor(c *eng.Ctx, p *plan, f healthcheck.Filter, ck *scripted, class func([]string) int) error {
	g := &gateList{arrive: make(chan struct{}, 1), next: make(chan stringset.Set, 1)}
	wait := func() error {
		select {
		case <-g.arrive:
			return nil
		case <-time.After(60 * time.Second):
			return errors.New("c23: monitor loop did not call hosts.Resolve within 60s")
		}
	}
	init := p.steps[0].addrs
	ck.set(map[string]string{})
	g.next <- stringset.New(init...)
	m := healthcheck.NewMonitor(healthcheck.MonitorConfig{Interval: time.Millisecond}, g, f)
	if err := wait(); err != nil {
		return err
	}
	c.W.Ev("MonStart", "addrs", init, "res", sorted(m.Resolve()))
	for i, st := range p.steps {
		// the loop asks for the next list: the previous iteration has published its result
		if err := wait(); err != nil {
			return err
		}
		if i > 0 {
			prev := p.steps[i-1]
			c.W.Ev("MonTick", "addrs", prev.addrs, "out", ck.observed(prev.addrs), "res", sorted(m.Resolve()), "rejoined", class(prev.addrs))
		}
		ck.set(st.out)
		g.next <- stringset.New(st.addrs...)
	}
	if err := wait(); err != nil {
		return err
	}
	last := p.steps[len(p.steps)-1]
	c.W.Ev("MonTick", "addrs", last.addrs, "out", ck.observed(last.addrs), "res", sorted(m.Resolve()), "rejoined", class(last.addrs))
	m.Stop()
	c.W.Ev("MonStop", "res", sorted(m.Resolve()))
	ck.set(map[string]string{})
	g.next <- stringset.New() // lets the loop goroutine finish its last (unobserved) iteration and exit
	return nil
}
