// Package c04: an agent crash at any point never yields a wrong cached blob (property C04).
//
// A download (CreateTorrent, WritePiece..., commit) runs once in a child process under strace; every
// prefix of its file-system operations is materialized and the REAL recovery path (new CADownloadStore
// + TorrentArchive.CreateTorrent + NewTorrent/restorePieces) is started on it, probed, and the download
// is resumed with correct pieces.  One trace per crash point (spec/agent/AgentCrashTrace.tla).
package c04

import (
	"bytes"
	"crypto/sha256"
	"encoding/hex"
	"encoding/json"
	"fmt"
	"io"
	"math/rand"
	"os"
	"path/filepath"
	"strings"

	"github.com/uber-go/tally"

	"github.com/uber/kraken/core"
	"github.com/uber/kraken/lib/store"
	"github.com/uber/kraken/lib/torrent/storage"
	"github.com/uber/kraken/lib/torrent/storage/agentstorage"
	"github.com/uber/kraken/lib/torrent/storage/piecereader"
	"github.com/uber/kraken/tracker/metainfoclient"

	"kvh/internal/crashlab"
	"kvh/internal/eng"
)

func init() {
	eng.Register("c04", run)
	eng.Register("c04child", child)
}

type write struct {
	Piece   int    `json:"piece"`
	Payload string `json:"payload"` // good | corrupt
	Res     string `json:"res"`
}
type scenario struct {
	Evict    bool    `json:"evict"` // second generation: the store already holds the blob (plus leftovers); evict it first
	Dir      string  `json:"dir"`
	BlobSeed int64   `json:"blob_seed"`
	Length   int     `json:"length"`
	PieceLen int     `json:"piece_len"`
	Writes   []write `json:"writes"`
	Complete bool    `json:"complete"` // result: torrent complete at the end of the child
}

func blobOf(sc scenario) ([]byte, core.Digest, *core.MetaInfo) {
	b := make([]byte, sc.Length)
	rand.New(rand.NewSource(sc.BlobSeed)).Read(b)
	for i := range b { // never a zero byte: a zero-filled region is then never "good" by accident
		if b[i] == 0 {
			b[i] = 1
		}
	}
	sum := sha256.Sum256(b)
	d, err := core.NewSHA256DigestFromHex(hex.EncodeToString(sum[:]))
	if err != nil {
		panic(err)
	}
	mi, err := core.NewMetaInfoFromBytes(d, b, int64(sc.PieceLen))
	if err != nil {
		panic(err)
	}
	return b, d, mi
}

func open(dir string, mi *core.MetaInfo) (*store.CADownloadStore, *agentstorage.TorrentArchive, error) {
	cads, err := store.NewCADownloadStore(store.CADownloadStoreConfig{
		DownloadDir: filepath.Join(dir, "download"), CacheDir: filepath.Join(dir, "cache")}, tally.NoopScope)
	if err != nil {
		return nil, nil, err
	}
	tc := metainfoclient.NewTestClient()
	tc.Upload(mi)
	return cads, agentstorage.NewTorrentArchive(tally.NoopScope, cads, tc), nil
}

func pieceBytes(blob []byte, mi *core.MetaInfo, i int) []byte {
	off := int64(i) * mi.PieceLength()
	return blob[off : off+mi.GetPieceLength(i)]
}

func cls(err error) string {
	switch {
	case err == nil:
		return "ok"
	case err == storage.ErrPieceComplete:
		return "piececomplete"
	case err == storage.ErrNotFound:
		return "notfound"
	}
	return "error"
}

func child(c *eng.Ctx) error {
	path := os.Getenv("KVH_SCENARIO")
	raw, err := os.ReadFile(path)
	if err != nil {
		return err
	}
	var sc scenario
	if err := json.Unmarshal(raw, &sc); err != nil {
		return err
	}
	blob, d, mi := blobOf(sc)
	crashlab.Mark(0)
	_, ta, err := open(sc.Dir, mi)
	if err != nil {
		return err
	}
	if sc.Evict {
		if err := ta.DeleteTorrent(d); err != nil {
			return err
		}
	}
	t, err := ta.CreateTorrent("ns", d)
	if err != nil {
		return err
	}
	for i := range sc.Writes {
		crashlab.Mark(i + 1)
		w := &sc.Writes[i]
		p := append([]byte{}, pieceBytes(blob, mi, w.Piece)...)
		if w.Payload == "corrupt" {
			p[0] ^= 0x5a
		}
		w.Res = cls(t.WritePiece(piecereader.NewBuffer(p), w.Piece))
	}
	crashlab.Mark(len(sc.Writes) + 1)
	sc.Complete = t.Complete()
	out, _ := json.Marshal(sc)
	return os.WriteFile(path+".out", out, 0o644)
}

func gen(rng *rand.Rand, s int) scenario {
	shapes := [][2]int{{0, 4}, {5, 8}, {24, 8}, {20, 8}, {8, 8}, {17, 4}}
	sh := shapes[s%len(shapes)]
	sc := scenario{BlobSeed: rng.Int63(), Length: sh[0], PieceLen: sh[1]}
	n := (sh[0] + sh[1] - 1) / sh[1]
	order := rng.Perm(n)
	for _, i := range order {
		if rng.Intn(4) == 0 {
			sc.Writes = append(sc.Writes, write{Piece: i, Payload: "corrupt"})
		}
		sc.Writes = append(sc.Writes, write{Piece: i, Payload: "good"})
		if rng.Intn(5) == 0 {
			sc.Writes = append(sc.Writes, write{Piece: i, Payload: "good"}) // repeated piece
		}
	}
	return sc
}

func run(c *eng.Ctx) error {
	nsc := c.N(6, 36)
	root, err := os.MkdirTemp("", "kvh-c04-")
	if err != nil {
		return err
	}
	defer os.RemoveAll(root)
	self, _ := os.Executable()
	tid, prefixes := 0, 0
	for s := 0; s < nsc; s++ {
		rng := rand.New(rand.NewSource(c.Seed*7919 + int64(s)*104729 + 4))
		sc := gen(rng, s)
		sc.Dir = filepath.Join(root, fmt.Sprintf("s%d", s))
		os.MkdirAll(sc.Dir, 0o755)
		spath := filepath.Join(root, fmt.Sprintf("s%d.json", s))
		raw, _ := json.Marshal(sc)
		os.WriteFile(spath, raw, 0o644)
		env := append(os.Environ(), "KVH_SCENARIO="+spath)
		ops, out, err := crashlab.Record([]string{self, "c04child", "-out", filepath.Join(root, fmt.Sprintf("s%d.childout", s))}, sc.Dir, env)
		if err != nil {
			return fmt.Errorf("record scenario %d: %v\n%s", s, err, out)
		}
		rawOut, err := os.ReadFile(spath + ".out")
		if err != nil {
			return fmt.Errorf("child results: %v\n%s", err, out)
		}
		var done scenario
		json.Unmarshal(rawOut, &done)
		if !done.Complete {
			return fmt.Errorf("scenario %d: child download did not complete", s)
		}
		c.Inc("fs_ops", len(ops))
		// crash points that leave the blob in the cache AND leftovers of its download directory: after the rename of the data
		// file into the cache, before the last file of the download entry's directory is unlinked
		var orphans []int
		for i, o := range ops {
			if o.Kind == "rename" && strings.HasPrefix(o.Path, "download/") && strings.HasPrefix(o.Path2, "cache/") && strings.HasSuffix(o.Path, "/data") {
				dir := filepath.Dir(o.Path)
				lastUnlink := -1
				for j := i + 1; j < len(ops); j++ {
					if ops[j].Kind == "unlink" && filepath.Dir(ops[j].Path) == dir {
						lastUnlink = j
					}
				}
				for p := i + 1; p <= lastUnlink; p++ {
					orphans = append(orphans, p)
				}
			}
		}
		for p := 0; p <= len(ops); p++ {
			if c.Only >= 0 && tid != c.Only {
				tid++
				continue
			}
			prefixes++
			dst := filepath.Join(root, fmt.Sprintf("m%d", tid))
			if err := crashlab.Materialize(ops, p, dst); err != nil {
				return err
			}
			mark := len(done.Writes) + 1
			if p < len(ops) {
				mark = ops[p].Mark
			}
			emit(c, tid, s, p, ops, done, mark, dst, 1)
			os.RemoveAll(dst)
			tid++
		}
		os.RemoveAll(sc.Dir)
		// ---- second generation: the blob is evicted and downloaded again on top of what a crash inside the commit left
		// behind; every crash point of THAT download is materialized on top of the leftovers and probed the same way
		maxOrph := c.N(1, 8)
		if c.Quick() && s%3 != 1 {
			maxOrph = 0 // quick: two of the six scenarios get a second generation
		}
		if len(orphans) > maxOrph {
			orphans = orphans[:maxOrph] // the earliest crash points leave the most behind
		}
		for _, p1 := range orphans {
			sc2 := scenario{Evict: true, BlobSeed: done.BlobSeed, Length: done.Length, PieceLen: done.PieceLen}
			_, _, mi := blobOf(sc2)
			for i := 0; i < mi.NumPieces(); i++ {
				sc2.Writes = append(sc2.Writes, write{Piece: i, Payload: "good"})
			}
			sc2.Dir = filepath.Join(root, fmt.Sprintf("s%d-g2-%d", s, p1))
			if err := crashlab.Materialize(ops, p1, sc2.Dir); err != nil {
				return err
			}
			spath2 := filepath.Join(root, fmt.Sprintf("s%d-g2-%d.json", s, p1))
			raw2, _ := json.Marshal(sc2)
			os.WriteFile(spath2, raw2, 0o644)
			env2 := append(os.Environ(), "KVH_SCENARIO="+spath2)
			ops2, out2, err := crashlab.Record([]string{self, "c04child", "-out", spath2 + ".childout"}, sc2.Dir, env2)
			if err != nil {
				return fmt.Errorf("record scenario %d generation 2 (after prefix %d): %v\n%s", s, p1, err, out2)
			}
			var done2 scenario
			if rawOut2, err := os.ReadFile(spath2 + ".out"); err == nil {
				json.Unmarshal(rawOut2, &done2)
			}
			os.RemoveAll(sc2.Dir)
			if !done2.Complete {
				// the second download itself went wrong on the real code without any further crash: a rejected trace
				c.W.Reset(tid, map[string]any{"scenario": s, "prefix": 0, "nops": len(ops2), "gen": 2, "after": p1})
				c.W.Ev("SecondDownloadFailed", "after", p1)
				tid++
				continue
			}
			c.Inc("fs_ops_gen2", len(ops2))
			for p2 := 0; p2 <= len(ops2); p2++ {
				if c.Only >= 0 && tid != c.Only {
					tid++
					continue
				}
				prefixes++
				dst := filepath.Join(root, fmt.Sprintf("m%d", tid))
				if err := crashlab.Materialize(ops, p1, dst); err != nil {
					return err
				}
				if err := crashlab.Materialize(ops2, p2, dst); err != nil {
					return err
				}
				mark := len(done2.Writes) + 1
				if p2 < len(ops2) {
					mark = ops2[p2].Mark
				}
				emit(c, tid, s, p2, ops2, done2, mark, dst, 2)
				os.RemoveAll(dst)
				tid++
			}
			c.Inc("gen2_recordings", 1)
		}
	}
	c.Stats["scenarios"] = nsc
	c.Stats["crash_points"] = prefixes
	c.Stats["exhaustive"] = true
	return nil
}

func bools(n int) []bool { return make([]bool, n) }

func emit(c *eng.Ctx, tid, s, p int, ops []crashlab.Op, sc scenario, mark int, dir string, gen int) {
	blob, d, mi := blobOf(sc)
	n := mi.NumPieces()
	lastop, nextop := "none", "none"
	if p > 0 {
		lastop = ops[p-1].String()
	}
	if p < len(ops) {
		nextop = ops[p].String()
	}
	c.W.Reset(tid, map[string]any{"scenario": s, "prefix": p, "nops": len(ops), "npieces": n, "length": sc.Length,
		"piecelen": sc.PieceLen, "lastop": lastop, "nextop": nextop, "gen": gen})
	// pieces whose good write had returned before the crash call (mark = index of the call in flight; 0 = create)
	done := bools(n)
	for i, w := range sc.Writes {
		if i+1 < mark && w.Res == "ok" {
			done[w.Piece] = true
		}
	}
	inflight := -1
	if mark >= 1 && mark <= len(sc.Writes) {
		inflight = sc.Writes[mark-1].Piece
	}
	c.W.Ev("Crash", "done", done, "inflight", inflight, "phase", map[bool]string{true: "create", false: "write"}[mark == 0])

	// ---- real recovery on the materialized directories
	var cads *store.CADownloadStore
	var ta *agentstorage.TorrentArchive
	// request: CreateTorrent + what the agent reports and would serve, then the download is finished with correct pieces
	request := func() bool {
		res, complete := "ok", false
		bits, region := bools(n), bools(n)
		served, cacheOK := false, false
		var t storage.Torrent
		func() {
			defer func() {
				if r := recover(); r != nil {
					res = "panic"
				}
			}()
			var err error
			if cads == nil {
				cads, ta, err = open(dir, mi)
				if err != nil {
					cads, res = nil, "openerror"
					return
				}
			}
			t, err = ta.CreateTorrent("ns", d)
			if err != nil {
				res = cls(err)
				return
			}
			complete = t.Complete()
			bf := t.Bitfield()
			for i := 0; i < n; i++ {
				bits[i] = bf.Test(uint(i))
			}
		}()
		if cads != nil {
			// what the agent would serve from its cache, and what the data file really holds
			if r, err := cads.Cache().GetFileReader(d.Hex()); err == nil {
				b, _ := io.ReadAll(r)
				r.Close()
				served = true
				cacheOK = bytes.Equal(b, blob)
			}
			if r, err := cads.Any().GetFileReader(d.Hex()); err == nil {
				b, _ := io.ReadAll(r)
				r.Close()
				for i := 0; i < n; i++ {
					off := int64(i) * mi.PieceLength()
					end := off + mi.GetPieceLength(i)
					region[i] = int64(len(b)) >= end && bytes.Equal(b[off:end], pieceBytes(blob, mi, i))
				}
			}
		}
		c.W.Ev("Recover", "res", res, "complete", complete, "bits", bits, "region", region, "served", served, "cacheok", cacheOK)

		// ---- the download can be started again and completes with the correct content
		final, finalOK := false, false
		resume := "skipped"
		if res == "ok" {
			resume = "ok"
			func() {
				defer func() {
					if r := recover(); r != nil {
						resume = "panic"
					}
				}()
				for i := 0; i < n; i++ {
					if t.HasPiece(i) {
						continue
					}
					if err := t.WritePiece(piecereader.NewBuffer(append([]byte{}, pieceBytes(blob, mi, i)...)), i); err != nil {
						resume = "writeerror"
						return
					}
				}
				final = t.Complete()
				if r, err := cads.Cache().GetFileReader(d.Hex()); err == nil {
					b, _ := io.ReadAll(r)
					r.Close()
					finalOK = bytes.Equal(b, blob)
				}
			}()
		}
		c.W.Ev("Resume", "res", resume, "complete", final, "cacheok", finalOK)
		return resume == "ok" && final && finalOK
	}
	if request() {
		// ---- the committed blob is evicted (TTL cleanup / manual removal) and requested again in the same process
		err := ta.DeleteTorrent(d)
		served := false
		if r, e := cads.Cache().GetFileReader(d.Hex()); e == nil {
			r.Close()
			served = true
		}
		c.W.Ev("Evict", "res", cls(err), "served", served)
		if err == nil {
			request()
		}
	}
	if cads != nil {
		cads.Close()
	}
}
