// Package c09 replays TLC-generated schedules of spec/store/Tiered.tla on a real tiered.Store.
//
// Worker steps are forced through the verif hooks of lib/store/tiered/flusher.go and the
// memOpen / ioCopy seams: a hook blocks the single flusher worker at a named gate until the
// replayer releases it, so "the flusher is between unmark and unban" is a forced state and not
// a race.  After every schedule step the API-level observations (Open through the complete
// scope, GetMetadata, Has) are logged; TLC validates the log against TieredAbs.
package c09

import (
	"encoding/json"
	"errors"
	"fmt"
	"io"
	"math/rand"
	"os"
	"sync"
	"time"

	"github.com/uber-go/tally"

	storelib "github.com/uber/kraken/lib/store"
	"github.com/uber/kraken/lib/store/disk"
	"github.com/uber/kraken/lib/store/memory"
	"github.com/uber/kraken/lib/store/tiered"

	"kvh/internal/eng"
	"kvh/internal/vmd"
)

func init() { eng.Register("c09", run) }

type step struct {
	A string `json:"a"`
	K string `json:"k"`
	V int    `json:"v"`
}
type sched struct {
	H   []step   `json:"h"`
	D   []string `json:"d"`
	Src string   `json:"src"`
}

// ---- gate controller (one flusher worker)
type gates struct {
	mu      sync.Mutex
	free    bool
	parked  chan string
	release chan struct{}
	cur     string // gate the worker is parked at ("" = running / idle)
	curKey  string
	nNext   int // flushes started / finished (counted in every mode)
	nDone   int
}

func (g *gates) hook(point, key string) {
	g.mu.Lock()
	free := g.free
	if key == g.curKey && point == "flush.next" {
		g.nNext++
	}
	if key == g.curKey && point == "flush.done" {
		g.nDone++
	}
	g.mu.Unlock()
	if free || key != g.curKey {
		return
	}
	g.parked <- point
	<-g.release
}

// waitPark waits until the worker parks; returns gate name or "" on timeout.
func (g *gates) waitPark(d time.Duration) string {
	if g.cur != "" {
		return g.cur
	}
	select {
	case p := <-g.parked:
		g.cur = p
		return p
	case <-time.After(d):
		return ""
	}
}
func (g *gates) rel() {
	if g.cur == "" {
		return
	}
	g.cur = ""
	g.release <- struct{}{}
}
func (g *gates) freeAll() {
	g.mu.Lock()
	g.free = true
	g.mu.Unlock()
	for i := 0; i < 50; i++ {
		if g.cur != "" {
			g.rel()
		}
		select {
		case p := <-g.parked:
			g.cur = p
		case <-time.After(20 * time.Millisecond):
			if g.cur == "" {
				return
			}
		}
	}
}

// source gate of each worker step of the model
var srcGate = map[string]string{
	"WMemOpen": "flush.next", "WDiskCreate": "flush.opened", "WAbortCheck": "flush.created", "WCopy": "flush.copy",
	"WDiskComplete": "flush.copied", "WMdSnap": "flush.mdloop", "WMdFlush": "flush.mdsnap", "WUnmark": "flush.unmark",
	"WUnban": "flush.unban",
}

const blobSize = 8
const realKey = "aa00000000000000000000000000000000000000000000000000000000000001"
const pressKey = "bb00000000000000000000000000000000000000000000000000000000000002"

func classify(err error) string {
	switch {
	case err == nil:
		return "ok"
	case errors.Is(err, storelib.ErrOutOfScope):
		return "outofscope"
	case errors.Is(err, os.ErrNotExist):
		return "notexist"
	case errors.Is(err, os.ErrExist):
		return "exist"
	case errors.Is(err, memory.ErrNoSpace):
		return "nospace"
	}
	return "other"
}

func run(c *eng.Ctx) error {
	path := os.Getenv("KVH_SCHED")
	if path == "" {
		return fmt.Errorf("c09 needs KVH_SCHED (schedules exported by TLC)")
	}
	raw, err := os.ReadFile(path)
	if err != nil {
		return err
	}
	var scheds []sched
	if err := json.Unmarshal(raw, &scheds); err != nil {
		return err
	}
	root, err := os.MkdirTemp("", "kvh-c09-")
	if err != nil {
		return err
	}
	defer os.RemoveAll(root)
	skipped := 0
	c.Traces(len(scheds), func(t int, _ *rand.Rand) {
		if !replay(c, t, scheds[t], fmt.Sprintf("%s/t%d", root, t)) {
			skipped++
		}
	})
	c.Stats["schedules"] = len(scheds)
	c.Stats["skipped_schedules"] = skipped
	if c.Only < 0 && skipped*5 > len(scheds) {
		return fmt.Errorf("dead driver: %d of %d schedules could not be forced", skipped, len(scheds))
	}
	return nil
}

func replay(c *eng.Ctx, t int, sc sched, dir string) bool {
	g := &gates{parked: make(chan string, 4), release: make(chan struct{}), curKey: realKey}
	tiered.VerifHook = g.hook
	tiered.VerifSetSeams(
		func(mem *memory.Store, key string) (*memory.File, error) {
			f, err := mem.Open(key)
			if err == nil {
				g.hook("flush.opened", key)
			}
			return f, err
		},
		func(dst io.Writer, src io.Reader) (int64, error) {
			g.hook("flush.copy", realKey)
			n, err := io.Copy(dst, src)
			if err == nil {
				g.hook("flush.copied", realKey)
			}
			return n, err
		})
	defer func() {
		g.freeAll()
		tiered.VerifHook = nil
		tiered.VerifSetSeams(nil, nil)
		os.RemoveAll(dir)
	}()
	s, _, err := tiered.NewStore(&tiered.Config{
		MemConfig:       &memory.Config{CapacityBytes: blobSize, GOMEMLIMITBytes: 8 << 30},
		DiskConfig:      &disk.Config{RootDir: dir, CapacityBytes: 1 << 20},
		NumFlushWorkers: 1,
	}, tally.NoopScope)
	if err != nil {
		panic(err)
	}
	tags := sc.D
	if tags == nil {
		tags = []string{}
	}
	c.W.Reset(t, map[string]any{"tags": tags, "src": sc.Src, "n": len(sc.H)})

	content := 0
	observe := func(kv []any) []any {
		// Open through the complete scope and read everything
		open := -3
		f, err := s.ScopeComplete().Open(realKey)
		switch classify(err) {
		case "ok":
			b, rerr := io.ReadAll(f)
			f.Close()
			if rerr == nil && len(b) == blobSize {
				open = int(b[0])
				for _, x := range b {
					if int(x) != open {
						open = -3
					}
				}
			}
		case "outofscope":
			open = -1
		case "notexist":
			open = -2
		}
		m := &vmd.MD{Suffix: "_vmov"}
		ok, err := s.GetMetadata(realKey, m)
		md := -3
		switch classify(err) {
		case "ok":
			md = 0
			if ok {
				md = m.V
			}
		case "notexist":
			md = -2
		}
		has, _ := s.Has(realKey)
		return append(kv, "open", open, "md", md, "has", has)
	}
	ev := func(name string, kv ...any) { c.W.Ev(name, observe(kv)...) }
	drift := func(why string) bool {
		c.W.Ev("Drift", "why", why, "open", 0, "md", 0, "has", false)
		return false
	}

	const tmo = 3 * time.Second
	for _, st := range sc.H {
		switch st.A {
		case "Create":
			content++
			f, err := s.Create(realKey, blobSize)
			res := classify(err)
			if err == nil {
				buf := make([]byte, blobSize)
				for i := range buf {
					buf[i] = byte(content)
				}
				if _, werr := f.Write(buf); werr != nil {
					res = "writefail"
				}
				f.Close()
			}
			ev("Create", "k", "k1", "c", content, "res", res)
		case "MarkComplete":
			ev("MarkComplete", "k", "k1", "res", classify(s.MarkComplete(realKey)))
		case "Delete":
			ev("Delete", "k", "k1", "res", classify(s.Delete(realKey)))
		case "SetMd":
			var err error
			if st.V == 0 {
				err = s.DeleteMetadata(realKey, "_vmov")
			} else {
				err = s.SetMetadata(realKey, &vmd.MD{Suffix: "_vmov", V: st.V})
			}
			ev("SetMd", "k", "k1", "v", st.V, "res", classify(err))
		case "Pressure":
			// another Create of the blob's size: memory.Store must evict k1 if (and only if) it is evictable
			f, err := s.Create(pressKey, blobSize)
			res := classify(err)
			if err == nil {
				f.Close()
				s.Delete(pressKey)
			}
			ev("Pressure", "k", "k1", "res", res)
		case "Create2", "Mark2", "Mark3", "Delete2", "Delete3", "SetMd2", "SetMd3":
			// sub-steps of a client call: the real call already ran atomically (ClientAtomic schedules)
		case "WNext":
			if p := g.waitPark(tmo); p != "flush.next" {
				return drift("WNext: worker parked at '" + p + "'")
			}
			ev("W", "k", "k1", "a", st.A, "gate", "flush.next")
		case "WNextEmpty":
			// the worker drains a queue of dead entries without parking
		default:
			src, ok := srcGate[st.A]
			if !ok {
				return drift("unknown action " + st.A)
			}
			cur := g.waitPark(tmo)
			if cur == "flush.done" { // notification gate after a flush finished
				g.rel()
				cur = g.waitPark(tmo)
			}
			if cur != src {
				// the model and the code disagree about where the worker is (e.g. already past this step)
				return drift(st.A + ": worker parked at '" + cur + "', model expects '" + src + "'")
			}
			g.rel()
			nxt := g.waitPark(tmo)
			if nxt == "flush.md" { // per-suffix gate inside the metadata flush: pass through
				g.rel()
				nxt = g.waitPark(tmo)
			}
			if st.A == "WUnban" {
				if nxt != "flush.done" {
					return drift("WUnban: worker did not finish the flush, parked at '" + nxt + "'")
				}
				g.rel() // worker continues into nextToFlush; it parks at flush.next only if something is queued
				nxt = "flush.done"
			}
			if nxt == "" {
				return drift(st.A + ": worker did not reach another gate")
			}
			ev("W", "k", "k1", "a", st.A, "gate", nxt)
		}
	}
	// quiesce: let the flusher finish everything, then observe the final state
	g.freeAll()
	stable := 0
	for i := 0; i < 400 && stable < 3; i++ {
		entries, queued := s.VerifFlusherState()
		g.mu.Lock()
		idle := g.nNext == g.nDone
		g.mu.Unlock()
		if entries == 0 && queued == 0 && idle {
			stable++
		} else {
			stable = 0
		}
		time.Sleep(2 * time.Millisecond)
	}
	if stable < 3 {
		return drift("flusher did not become idle after all gates were opened")
	}
	m, d := s.VerifTiers(realKey)
	c.W.Ev("Quiesce", observe([]any{"k", "k1", "mem", m, "disk", d})...)
	return true
}
