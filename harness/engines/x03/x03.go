package x03

import (
	"bytes"
	"fmt"
	"io"
	"math/rand"
	"net/http"
	"os"
	"path/filepath"
	"strings"
	"sync"
	"time"

	"kvh/internal/eng"
)

func init() { eng.Register("x03", run) }

type drv struct {
	c   *eng.Ctx
	cl  *cluster
	rng *rand.Rand
	hc  *http.Client
}

type session struct {
	n    *node
	k    string // the blob the client means to upload
	uid  string // real upload id
	xfer bool   // started through the internal transfer endpoints
}

type resp struct {
	code int
	hdr  http.Header
	body []byte
}

func newDrv(c *eng.Ctx, cl *cluster, rng *rand.Rand) *drv {
	return &drv{c: c, cl: cl, rng: rng, hc: &http.Client{Timeout: 2 * waitMax, Transport: &http.Transport{DisableKeepAlives: true}}}
}

// do sends one request of the driver (marked as a client request for the front door's log).
func (d *drv) do(n *node, method, path string, hdr map[string]string, body io.Reader) resp {
	req, err := http.NewRequest(method, "http://"+n.addr+path, body)
	if err != nil {
		panic(err)
	}
	req.Header.Set("X-Verif-Client", "1")
	for k, v := range hdr {
		req.Header.Set(k, v)
	}
	r, err := d.hc.Do(req)
	if err != nil {
		d.c.W.Ev("ClientError", "what", "transport")
		return resp{}
	}
	defer r.Body.Close()
	b, _ := io.ReadAll(r.Body)
	return resp{r.StatusCode, r.Header, b}
}

func (d *drv) hexOf(k string) string { return d.cl.byK[k].d.Hex() }
func (d *drv) dg(k string) string    { return d.cl.byK[k].d.String() }

// ---- requests -----------------------------------------------------------------------------------

func (d *drv) start(n *node, ns, k string, xfer bool) *session {
	var r resp
	if xfer {
		r = d.do(n, "POST", fmt.Sprintf("/internal/blobs/%s/uploads", d.dg(k)), nil, nil)
	} else {
		r = d.do(n, "POST", fmt.Sprintf("/namespace/%s/blobs/%s/uploads", ns, d.dg(k)), nil, nil)
	}
	if r.code == 200 && r.hdr.Get("Location") != "" {
		return &session{n: n, k: k, uid: r.hdr.Get("Location"), xfer: xfer}
	}
	return nil
}

// patch writes body at the byte range [a*chunk, b*chunk) (rangeHdr overrides the header text).
func (d *drv) patch(n *node, ns, k, uid string, xfer bool, a, b int, body []byte, rangeHdr string, bad string) resp {
	h := map[string]string{"Content-Range": fmt.Sprintf("%d-%d", a*chunk, b*chunk)}
	if rangeHdr != "" {
		h["Content-Range"] = rangeHdr
	}
	if rangeHdr == "-" {
		delete(h, "Content-Range")
	}
	if bad != "" {
		h["X-Verif-Bad"] = bad
	}
	if xfer {
		return d.do(n, "PATCH", fmt.Sprintf("/internal/blobs/%s/uploads/%s", d.dg(k), uid), h, bytes.NewReader(body))
	}
	return d.do(n, "PATCH", fmt.Sprintf("/namespace/%s/blobs/%s/uploads/%s", ns, d.dg(k), uid), h, bytes.NewReader(body))
}

func (d *drv) commit(n *node, ns, k, uid, kind string, delay time.Duration) resp {
	switch kind {
	case "t":
		return d.do(n, "PUT", fmt.Sprintf("/internal/blobs/%s/uploads/%s", d.dg(k), uid), nil, nil)
	case "d":
		body := fmt.Sprintf(`{"Delay":%d}`, int64(delay))
		return d.do(n, "PUT", fmt.Sprintf("/internal/duplicate/namespace/%s/blobs/%s/uploads/%s", ns, d.dg(k), uid), nil, strings.NewReader(body))
	}
	return d.do(n, "PUT", fmt.Sprintf("/namespace/%s/blobs/%s/uploads/%s", ns, d.dg(k), uid), nil, nil)
}

func (d *drv) simple(n *node, op, ns, k string) resp {
	h := d.dg(k)
	switch op {
	case "stat":
		return d.do(n, "HEAD", fmt.Sprintf("/internal/namespace/%s/blobs/%s", ns, h), nil, nil)
	case "statlocal":
		return d.do(n, "HEAD", fmt.Sprintf("/internal/namespace/%s/blobs/%s?local=true", ns, h), nil, nil)
	case "download":
		return d.do(n, "GET", fmt.Sprintf("/namespace/%s/blobs/%s", ns, h), nil, nil)
	case "prefetch":
		return d.do(n, "POST", fmt.Sprintf("/namespace/%s/blobs/%s/prefetch", ns, h), nil, nil)
	case "getmeta":
		return d.do(n, "GET", fmt.Sprintf("/internal/namespace/%s/blobs/%s/metainfo", ns, h), nil, nil)
	case "delete":
		return d.do(n, "DELETE", fmt.Sprintf("/internal/blobs/%s", h), nil, nil)
	case "replicate":
		return d.do(n, "POST", fmt.Sprintf("/namespace/%s/blobs/%s/remote/%s", ns, h, "remote-dc"), nil, nil)
	case "locations":
		return d.do(n, "GET", fmt.Sprintf("/blobs/%s/locations", h), nil, nil)
	case "health":
		return d.do(n, "GET", "/health", nil, nil)
	case "readiness":
		return d.do(n, "GET", "/readiness", nil, nil)
	case "peerctx":
		return d.do(n, "GET", "/internal/peercontext", nil, nil)
	case "forcecleanup2":
		return d.do(n, "POST", "/forcecleanup/v2", nil, nil)
	}
	panic("x03: unknown simple op " + op)
}

func (d *drv) overwriteMeta(n *node, k string, pl int) resp {
	return d.do(n, "POST", fmt.Sprintf("/internal/blobs/%s/metainfo?piece_length=%d", d.dg(k), pl), nil, nil)
}
func (d *drv) forceCleanup(n *node, ttl int) resp {
	return d.do(n, "POST", fmt.Sprintf("/forcecleanup?ttl_hr=%d", ttl), nil, nil)
}

// requests whose parameters do not parse
func (d *drv) badRequest(n *node, which int) {
	bad := func(s string) map[string]string { return map[string]string{"X-Verif-Bad": s} }
	h := d.dg("k1")
	switch which % 8 {
	case 0:
		d.do(n, "GET", "/namespace/ns/blobs/nothex", bad("digest"), nil)
	case 1:
		d.do(n, "HEAD", "/internal/namespace/ns/blobs/"+h[:20], bad("digest"), nil)
	case 2:
		d.do(n, "HEAD", "/internal/namespace/ns/blobs/"+h+"?local=maybe", bad("local"), nil)
	case 3:
		d.do(n, "PATCH", "/namespace/ns/blobs/"+h+"/uploads/nosuch", map[string]string{"X-Verif-Bad": "range", "Content-Range": "blah"}, strings.NewReader("abcd"))
	case 4:
		d.do(n, "PATCH", "/internal/blobs/"+h+"/uploads/nosuch", bad("range"), strings.NewReader("abcd")) // no Content-Range at all
	case 5:
		d.do(n, "PATCH", "/namespace/ns/blobs/"+h+"/uploads/nosuch", map[string]string{"X-Verif-Bad": "range", "Content-Range": "0-4-8"}, strings.NewReader("abcd"))
	case 6:
		d.do(n, "POST", "/internal/blobs/"+h+"/metainfo?piece_length=four", bad("pl"), nil)
	case 7:
		d.do(n, "PUT", "/internal/duplicate/namespace/ns/blobs/"+h+"/uploads/nosuch", bad("json"), strings.NewReader("{not json"))
	}
}
func (d *drv) badCleanup(n *node, which int) {
	if which%2 == 0 {
		d.do(n, "POST", "/forcecleanup", map[string]string{"X-Verif-Bad": "ttl"}, nil)
	} else {
		d.do(n, "POST", "/forcecleanup?ttl_hr=soon", map[string]string{"X-Verif-Bad": "ttl"}, nil)
	}
}

// ---- environment --------------------------------------------------------------------------------

func (d *drv) env(what, node, k string, on bool, locs []string, num int) {
	if locs == nil {
		locs = []string{}
	}
	d.c.W.Ev("Env", "what", what, "node", node, "d", k, "on", on, "locs", locs, "num", num)
}

func (d *drv) setUp(n *node, up bool) { n.up.Store(up); d.env("up", n.name, "k1", up, nil, 0) }
func (d *drv) setBackendDown(b bool) {
	d.cl.bk.mu.Lock()
	d.cl.bk.down = b
	d.cl.bk.mu.Unlock()
	d.env("bdown", "n1", "k1", b, nil, 0)
}

// setRemote gives every remote origin a disposition: "ok", "net", or "fail"/"retry" with the stage and status it fails at.
type rmode struct {
	mode, stage string
	status      int
}

func (d *drv) setRemote(ms ...rmode) {
	var names []string
	detail := ""
	d.cl.remote.mu.Lock()
	for i, h := range d.cl.remote.hosts {
		m := rmode{mode: "ok"}
		if i < len(ms) {
			m = ms[i]
		}
		h.mode, h.stage, h.status = m.mode, m.stage, m.status
		names = append(names, m.mode)
		detail += fmt.Sprintf("%s@%s:%d ", m.mode, m.stage, m.status)
	}
	d.cl.remote.mu.Unlock()
	d.c.W.Ev("Env", "what", "rhosts", "node", "n1", "d", "k1", "on", true, "locs", names, "num", 0, "detail", detail)
}

func (d *drv) randomRmode(allowPatch bool) rmode {
	stages := []string{"start", "commit"}
	if allowPatch {
		stages = append(stages, "patch")
	}
	switch d.rng.Intn(7) {
	case 0:
		return rmode{"fail", stages[d.rng.Intn(len(stages))], []int{500, 400, 403, 404}[d.rng.Intn(4)]}
	case 1:
		return rmode{"retry", stages[d.rng.Intn(len(stages))], []int{429, 502, 503, 504}[d.rng.Intn(4)]}
	case 2:
		return rmode{mode: "net"}
	case 3:
		return rmode{"fail", "start", 0}
	}
	return rmode{mode: "ok"}
}

func (d *drv) setWbFail(n *node, b bool) {
	n.mgr.mu.Lock()
	n.mgr.fail = b
	n.mgr.mu.Unlock()
	d.env("wbfail", n.name, "k1", b, nil, 0)
}
func (d *drv) backendPut(k string) {
	bl := d.cl.byK[k]
	d.cl.bk.mu.Lock()
	d.cl.bk.kv[bl.d.Hex()] = append([]byte(nil), bl.data...)
	d.cl.bk.mu.Unlock()
	d.env("backend", "n1", k, true, nil, 0)
}
func (d *drv) setRing(k string, owners []*node) {
	var addrs, names []string
	for _, n := range owners {
		addrs = append(addrs, n.addr)
		names = append(names, n.name)
	}
	d.cl.ring.mu.Lock()
	d.cl.ring.locs[d.hexOf(k)] = addrs
	d.cl.ring.mu.Unlock()
	d.env("ring", "n1", k, true, names, 0)
}
func (d *drv) hours(h int) {
	for _, n := range d.cl.nodes {
		n.clk.Add(time.Duration(h) * time.Hour)
	}
	d.env("hours", "n1", "k1", true, nil, h)
}
func (d *drv) tick() {
	for _, n := range d.cl.nodes {
		n.rclk.Add(tickDur)
	}
	d.env("tick", "n1", "k1", true, nil, 1)
}

// release lets a parked refresh worker go on with what the backend "delivers".
func (d *drv) release(n *node, k, kind string) bool {
	hexd := d.hexOf(k)
	n.bkc.mu.Lock()
	g := n.bkc.gates[hexd]
	delete(n.bkc.gates, hexd)
	n.bkc.mu.Unlock()
	if g == nil {
		return false
	}
	g.kind <- kind
	return true
}

func (d *drv) parkedList() (out [][2]string) {
	for _, n := range d.cl.nodes {
		for _, bl := range d.cl.blobs {
			if n.bkc.parked(bl.d.Hex()) != nil {
				out = append(out, [2]string{n.name, bl.k})
			}
		}
	}
	return
}

func (d *drv) nodeByName(s string) *node {
	for _, n := range d.cl.nodes {
		if n.name == s {
			return n
		}
	}
	return nil
}

// step closes one driver step: wait for quiescence, then record the state of the whole cluster.
func (d *drv) step() {
	if d.cl.settle() {
		d.cl.obs()
	}
}

// ---- initial configuration ------------------------------------------------------------------------

func (d *drv) ringNames() map[string]any {
	out := map[string]any{}
	for _, bl := range d.cl.blobs {
		var names []string
		for _, a := range d.cl.ring.Locations(bl.d) {
			names = append(names, d.cl.nodeName(a))
		}
		out[bl.k] = names
	}
	return out
}

func (d *drv) randomRing() {
	for _, bl := range d.cl.blobs {
		perm := d.rng.Perm(len(d.cl.nodes))
		k := 1 + d.rng.Intn(len(d.cl.nodes))
		var addrs []string
		for _, i := range perm[:k] {
			addrs = append(addrs, d.cl.nodes[i].addr)
		}
		d.cl.ring.locs[bl.d.Hex()] = addrs
	}
}

func (d *drv) reset(t int, kind string) {
	d.c.W.Reset(t, map[string]any{"kind": kind, "nodes": len(d.cl.nodes), "legchunk": d.cl.lchunk, "ring": d.ringNames()})
}

// ---- family "seq": one request at a time, every dependency failing / parked / released at random ------------------

func (d *drv) pickBlob() string { return d.cl.blobs[d.rng.Intn(len(d.cl.blobs))].k }
func (d *drv) pickNode() *node  { return d.cl.nodes[d.rng.Intn(len(d.cl.nodes))] }

// cachedAt tells the driver (from outside) whether a node holds a blob; only used to keep random traces away from
// the inputs of recorded findings.
func (d *drv) cachedAt(n *node, k string) bool {
	_, err := n.cas.GetCacheFileStat(d.hexOf(k))
	return err == nil
}

func (d *drv) randomPatch(s *session, ns string) {
	bl := d.cl.byK[s.k]
	nch := len(bl.data) / chunk
	k := s.k
	if d.rng.Intn(12) == 0 {
		k = d.pickBlob() // patching under another digest than the one the upload was started for
	}
	uid := s.uid
	switch v := d.rng.Intn(20); {
	case v < 9 || nch == 0: // the whole blob
		d.patch(s.n, ns, k, uid, s.xfer, 0, nch, bl.data, "", "")
	case v < 13: // one chunk at its place
		i := d.rng.Intn(nch)
		d.patch(s.n, ns, k, uid, s.xfer, i, i+1, bl.data[i*chunk:(i+1)*chunk], "", "")
	case v < 15: // junk over the whole blob / one chunk
		i := d.rng.Intn(nch)
		d.patch(s.n, ns, k, uid, s.xfer, i, i+1, d.cl.junk, "", "")
	case v < 16: // a chunk of another blob
		o := d.cl.byK["k4"]
		i := d.rng.Intn(nch)
		d.patch(s.n, ns, k, uid, s.xfer, i, i+1, o.data[:chunk], "", "")
	case v < 17: // beyond the end: leaves a hole
		d.patch(s.n, ns, k, uid, s.xfer, nch+1, nch+2, d.cl.junk, "", "")
	case v < 18: // body shorter than the range
		d.patch(s.n, ns, k, uid, s.xfer, 0, nch, bl.data[:len(bl.data)-chunk], "", "")
	case v < 19: // body longer than the range: the surplus is ignored
		d.patch(s.n, ns, k, uid, s.xfer, 0, nch, append(append([]byte(nil), bl.data...), d.cl.junk...), "", "")
	default: // empty range
		d.patch(s.n, ns, k, uid, s.xfer, 0, 0, nil, "", "")
	}
}

func seqTrace(c *eng.Ctx, t int, rng *rand.Rand) {
	nn := 2 + rng.Intn(2)
	cl := newCluster(c, rng, nn, 1+rng.Intn(3))
	defer cl.close()
	d := newDrv(c, cl, rng)
	d.randomRing()
	d.reset(t, "seq")
	d.step()
	var sess []*session
	steps := 20 + rng.Intn(26)
	if !c.Quick() {
		steps += 10
	}
	for i := 0; i < steps; i++ {
		n := d.pickNode()
		k := d.pickBlob()
		ns := nsOK
		if rng.Intn(12) == 0 { // replicate-to-remote against whatever the remote origins are up to right now
			if rng.Intn(2) == 0 {
				d.setRemote(d.randomRmode(false), d.randomRmode(false))
			}
			d.simple(n, "replicate", nsOK, k)
			d.step()
			continue
		}
		var s *session
		if len(sess) > 0 {
			s = sess[rng.Intn(len(sess))]
		}
		switch v := rng.Intn(130); {
		case v < 12:
			if ns2 := d.start(n, ns, k, false); ns2 != nil {
				sess = append(sess, ns2)
			}
		case v < 16:
			if ns2 := d.start(n, ns, k, true); ns2 != nil {
				sess = append(sess, ns2)
			}
		case v < 38:
			if s == nil {
				d.patch(n, ns, k, "nosuchupload", rng.Intn(2) == 0, 0, 1, cl.junk, "", "")
			} else if rng.Intn(15) == 0 {
				d.patch(s.n, ns, s.k, "nosuchupload", s.xfer, 0, 1, cl.junk, "", "")
			} else {
				d.randomPatch(s, ns)
			}
		case v < 54:
			if s == nil {
				d.commit(n, ns, k, "nosuchupload", []string{"c", "t", "d"}[rng.Intn(3)], stagger)
				break
			}
			kind := "c"
			if s.xfer {
				kind = "t"
			}
			if rng.Intn(8) == 0 {
				kind = []string{"c", "t", "d"}[rng.Intn(3)]
			}
			kk := s.k
			if rng.Intn(12) == 0 {
				kk = d.pickBlob()
			}
			d.commit(s.n, ns, kk, s.uid, kind, time.Duration(1+rng.Intn(2))*stagger)
		case v < 60:
			d.simple(n, []string{"stat", "statlocal"}[rng.Intn(2)], []string{nsOK, nsOK, nsNone}[rng.Intn(3)], k)
		case v < 67:
			d.simple(n, "download", []string{nsOK, nsOK, nsOK, nsNone}[rng.Intn(4)], k)
		case v < 69:
			d.simple(n, "prefetch", nsOK, k)
		case v < 76:
			d.simple(n, "getmeta", []string{nsOK, nsOK, nsOK, nsNone}[rng.Intn(4)], k)
		case v < 81:
			d.simple(n, "delete", nsOK, k)
		case v < 84:
			d.simple(n, "replicate", []string{nsOK, nsOK, nsNone}[rng.Intn(3)], k)
		case v < 86:
			d.simple(n, "locations", nsOK, k)
		case v < 88:
			if d.cachedAt(n, k) { // on an absent blob: recorded finding X03-3, scenario "om404"
				d.overwriteMeta(n, k, []int{8, 12}[rng.Intn(2)])
			}
		case v < 90:
			d.simple(n, []string{"health", "readiness", "peerctx", "forcecleanup2"}[rng.Intn(4)], nsOK, k)
		case v < 94:
			d.forceCleanup(n, rng.Intn(3))
		case v < 97:
			if rng.Intn(3) == 0 {
				d.badCleanup(n, rng.Intn(2))
			} else {
				d.badRequest(n, rng.Intn(8))
			}
		case v < 100:
			d.setUp(n, !n.up.Load())
		case v < 102:
			cl.bk.mu.Lock()
			b := !cl.bk.down
			cl.bk.mu.Unlock()
			d.setBackendDown(b)
		case v < 105:
			n.mgr.mu.Lock()
			b := !n.mgr.fail
			n.mgr.mu.Unlock()
			d.setWbFail(n, b)
		case v < 106:
			// stages start / commit only: the empty blob has no patch (scenario "remote" fails patches too)
			d.setRemote(d.randomRmode(false), d.randomRmode(false))
		case v < 111:
			d.backendPut(k)
		case v < 114:
			perm := rng.Perm(nn)
			var ow []*node
			for _, j := range perm[:1+rng.Intn(nn)] {
				ow = append(ow, cl.nodes[j])
			}
			d.setRing(k, ow)
		case v < 116:
			d.hours(1 + rng.Intn(2))
		case v < 120:
			d.tick()
		default:
			pk := d.parkedList()
			if len(pk) == 0 {
				d.simple(n, "getmeta", nsOK, k)
				break
			}
			p := pk[rng.Intn(len(pk))]
			kind := []string{"exact", "exact", "exact", "bad", "err", "nf"}[rng.Intn(6)]
			d.release(d.nodeByName(p[0]), p[1], kind)
		}
		d.step()
	}
	// drain: restore every dependency, release every parked worker with the exact bytes, look once more
	for _, n := range cl.nodes {
		if !n.up.Load() {
			d.setUp(n, true)
		}
	}
	for _, p := range d.parkedList() {
		d.release(d.nodeByName(p[0]), p[1], "exact")
		d.step()
	}
	d.step()
}

// ---- family "conc": several clients at once against the same nodes ------------------------------------------------

func concTrace(c *eng.Ctx, t int, rng *rand.Rand) {
	nn := 2 + rng.Intn(2)
	cl := newCluster(c, rng, nn, 1+rng.Intn(3))
	defer cl.close()
	d := newDrv(c, cl, rng)
	d.randomRing()
	// downloads are not parked; what the backend delivers is fixed per blob for the whole trace
	kinds := map[string]string{}
	for _, bl := range cl.blobs {
		kinds[bl.k] = []string{"exact", "exact", "exact", "bad", "err"}[rng.Intn(5)]
	}
	for _, n := range cl.nodes {
		n.bkc.auto = func(k string) string { return kinds[k] }
	}
	d.reset(t, "conc")
	d.step()
	rounds := 2 + rng.Intn(2)
	blobsInPlay := []string{d.pickBlob(), d.pickBlob()} // few blobs, so that the clients collide
	for r := 0; r < rounds; r++ {
		// environment changes and DELETEs only between rounds.  (A DELETE that the store refuses because the blob
		// awaits write-back still drops the store's in-memory entry for an instant -- lib/store/base DeleteFile
		// "removed from map regardless" -- and requests racing with it can fail; that window belongs to the store
		// (C07/C10), the blob server model treats store calls as atomic, so deletes do not race here.)
		switch rng.Intn(8) {
		case 0:
			d.backendPut(blobsInPlay[rng.Intn(2)])
		case 1:
			n := d.pickNode()
			d.setWbFail(n, rng.Intn(2) == 0)
		case 2:
			n := d.pickNode()
			d.setUp(n, !n.up.Load())
		case 3:
			d.backendPut(blobsInPlay[0])
			d.backendPut(blobsInPlay[1])
		case 4, 5:
			d.simple(d.pickNode(), "delete", nsOK, blobsInPlay[rng.Intn(2)])
			d.step()
		case 6:
			d.setRemote(d.randomRmode(false), d.randomRmode(false))
		}
		var wg sync.WaitGroup
		ng := 2 + rng.Intn(2)
		for g := 0; g < ng; g++ {
			grng := rand.New(rand.NewSource(rng.Int63()))
			wg.Add(1)
			go func() {
				defer wg.Done()
				gd := &drv{c: c, cl: cl, rng: grng, hc: d.hc}
				var mine []*session // an upload is patched and committed by the client that started it only
				nops := 3 + grng.Intn(4)
				for i := 0; i < nops; i++ {
					n := cl.nodes[grng.Intn(nn)]
					k := blobsInPlay[grng.Intn(2)]
					switch v := grng.Intn(40); {
					case v < 7:
						if s := gd.start(n, nsOK, k, grng.Intn(5) == 0); s != nil {
							mine = append(mine, s)
						}
					case v < 16:
						if len(mine) > 0 {
							s := mine[grng.Intn(len(mine))]
							bl := cl.byK[s.k]
							if grng.Intn(6) == 0 {
								gd.patch(s.n, nsOK, s.k, s.uid, s.xfer, 0, 1, cl.junk, "", "")
							} else {
								gd.patch(s.n, nsOK, s.k, s.uid, s.xfer, 0, len(bl.data)/chunk, bl.data, "", "")
							}
						}
					case v < 24:
						if len(mine) > 0 {
							j := grng.Intn(len(mine))
							s := mine[j]
							kind := "c"
							if s.xfer {
								kind = "t"
							}
							gd.commit(s.n, nsOK, s.k, s.uid, kind, stagger)
							mine = append(mine[:j], mine[j+1:]...)
						}
					case v < 27:
						gd.simple(n, []string{"stat", "statlocal"}[grng.Intn(2)], nsOK, k)
					case v < 31:
						gd.simple(n, "download", nsOK, k)
					case v < 34:
						gd.simple(n, "getmeta", nsOK, k)
					case v < 38:
						gd.simple(n, "prefetch", nsOK, k)
					case v < 39 || v == 39 && grng.Intn(2) == 0:
						gd.simple(n, "replicate", nsOK, k)
					default:
						gd.simple(n, "locations", nsOK, k)
					}
				}
			}()
		}
		wg.Wait()
		d.step()
	}
}

// ---- scripted traces ----------------------------------------------------------------------------------------------

// fdOpenOn reports whether this process holds an open descriptor on path (the PATCH handler's upload file).
func fdOpenOn(path string) bool {
	ents, err := os.ReadDir("/proc/self/fd")
	if err != nil {
		return false
	}
	for _, e := range ents {
		if l, err := os.Readlink(filepath.Join("/proc/self/fd", e.Name())); err == nil && l == path {
			return true
		}
	}
	return false
}

func (d *drv) allOwn(k string) {
	d.cl.ring.locs[d.hexOf(k)] = nil
	for _, n := range d.cl.nodes {
		d.cl.ring.locs[d.hexOf(k)] = append(d.cl.ring.locs[d.hexOf(k)], n.addr)
	}
}

// upload runs the complete client protocol for blob k on node n.
func (d *drv) upload(n *node, k string) {
	bl := d.cl.byK[k]
	if s := d.start(n, nsOK, k, false); s != nil {
		d.step()
		if len(bl.data) > 0 {
			d.patch(n, nsOK, k, s.uid, false, 0, len(bl.data)/chunk, bl.data, "", "")
			d.step()
		}
		d.commit(n, nsOK, k, s.uid, "c", 0)
	}
	d.step()
}

func scenario(c *eng.Ctx, t int, rng *rand.Rand, kind string) {
	nn := 2
	if kind == "fanout" || kind == "refresh" {
		nn = 3
	}
	cl := newCluster(c, rng, nn, 1)
	defer cl.close()
	d := newDrv(c, cl, rng)
	for _, bl := range cl.blobs {
		d.allOwn(bl.k)
	}
	cl.ct = kind == "ctype"
	d.reset(t, kind)
	d.step()
	n1, n2 := cl.nodes[0], cl.nodes[1]
	switch kind {
	case "stalepatch":
		// X03-1: a PATCH that has opened the upload file is still copying its body when the commit verifies and
		// renames the file: the rest of the body lands in the committed cache file.
		k := "k1"
		bl := cl.byK[k]
		s := d.start(n1, nsOK, k, false)
		d.step()
		d.patch(n1, nsOK, k, s.uid, false, 0, 2, bl.data, "", "")
		d.step()
		pr, pw := io.Pipe()
		done := make(chan resp, 1)
		go func() {
			req, _ := http.NewRequest("PATCH", fmt.Sprintf("http://%s/namespace/%s/blobs/%s/uploads/%s", n1.addr, nsOK, bl.d.String(), s.uid), pr)
			req.Header.Set("X-Verif-Client", "1")
			req.Header.Set("X-Verif-Stream", "j")
			req.Header.Set("Content-Range", fmt.Sprintf("0-%d", chunk))
			req.ContentLength = chunk
			r, err := d.hc.Do(req)
			if err != nil {
				done <- resp{}
				return
			}
			b, _ := io.ReadAll(r.Body)
			r.Body.Close()
			done <- resp{r.StatusCode, r.Header, b}
		}()
		path := filepath.Join(n1.updir, s.uid, "data")
		deadline := time.Now().Add(waitMax)
		for !fdOpenOn(path) && time.Now().Before(deadline) {
			time.Sleep(time.Millisecond)
		}
		// commit while the PATCH handler holds the file open; a server that makes the commit wait answers only
		// after the PATCH is through, so the body is released after a grace period in that case
		cdone := make(chan resp, 1)
		go func() { cdone <- d.commit(n1, nsOK, k, s.uid, "c", 0) }()
		select {
		case <-cdone:
			pw.Write(cl.junk)
			pw.Close()
			<-done
		case <-time.After(2 * time.Second):
			pw.Write(cl.junk)
			pw.Close()
			<-done
			<-cdone
		}
		d.step()
		d.simple(n1, "download", nsOK, k)
		d.step()
	case "negrange", "negrange_t":
		// X03-2: Content-Range with start > end
		xfer := kind == "negrange_t"
		s := d.start(n1, nsOK, "k1", xfer)
		d.step()
		d.patch(n1, nsOK, "k1", s.uid, xfer, 1, 0, cl.junk, "", "")
		d.step()
	case "om404":
		// X03-3: overwrite the metainfo of a blob the node does not have
		d.overwriteMeta(n1, "k2", 8)
		d.step()
	case "ctype":
		// X03-4: the content type of a successful download (empty blob first: no body is written for it)
		d.upload(n1, "k3")
		d.simple(n1, "download", nsOK, "k3")
		d.step()
		d.upload(n1, "k2")
		d.simple(n1, "download", nsOK, "k2")
		d.step()
	case "fanout":
		// a commit duplicates the upload to the two other owners with staggered delays; one of them is down the
		// second time, one already has the blob the third time
		d.upload(n1, "k1")
		d.setUp(cl.nodes[2], false)
		d.upload(n2, "k4")
		d.setUp(cl.nodes[2], true)
		d.upload(cl.nodes[2], "k1")
		d.simple(n2, "delete", nsOK, "k1")
		d.step()
		d.upload(n2, "k1")
	case "refresh":
		// 202 while the download is parked, 200 afterwards, the refreshed blob is transferred to the other owners;
		// a failing download is remembered for the error TTL and forgotten after it
		d.backendPut("k1")
		d.backendPut("k2")
		d.simple(n1, "getmeta", nsOK, "k1")
		d.step()
		d.simple(n1, "download", nsOK, "k1")
		d.step()
		d.release(n1, "k1", "exact")
		d.step()
		d.simple(n1, "getmeta", nsOK, "k1")
		d.step()
		d.simple(n2, "statlocal", nsOK, "k1")
		d.step()
		d.simple(n2, "replicate", nsOK, "k2")
		d.step()
		d.release(n2, "k2", "bad")
		d.step()
		for i := 0; i < 5; i++ {
			d.simple(n2, "download", nsOK, "k2")
			d.step()
			d.tick()
		}
		d.release(n2, "k2", "exact")
		d.step()
		d.simple(n2, "replicate", nsOK, "k2")
		d.step()
	case "cleanup":
		// ring change: the blob moves away from n1; forced cleanup on n1 writes it back and drops it, unless the
		// backend is down
		d.upload(n1, "k1")
		d.upload(n1, "k2")
		d.setRing("k1", []*node{n2})
		d.setBackendDown(true)
		d.forceCleanup(n1, 5)
		d.step()
		d.setBackendDown(false)
		d.forceCleanup(n1, 5)
		d.step()
		d.hours(7)
		d.forceCleanup(n1, 5)
		d.step()
		d.simple(n1, "stat", nsOK, "k1")
		d.step()
	case "dupconflict":
		// the duplicate commit of a fan-out leg finds the blob already cached on the replica (uploaded there directly
		// while the leg was between its patch and its commit): 409, which the sending origin takes for success
		gate := make(chan struct{})
		n2.holdMu.Lock()
		n2.hold["dupcommit"] = gate
		n2.holdMu.Unlock()
		s := d.start(n1, nsOK, "k2", false)
		d.step()
		d.patch(n1, nsOK, "k2", s.uid, false, 0, 1, cl.byK["k2"].data, "", "")
		d.step()
		cdone := make(chan resp, 1)
		go func() { cdone <- d.commit(n1, nsOK, "k2", s.uid, "c", 0) }()
		deadline := time.Now().Add(waitMax)
		for n2.held.Load() == 0 && time.Now().Before(deadline) {
			time.Sleep(time.Millisecond)
		}
		s2 := d.start(n2, nsOK, "k2", false)
		if s2 != nil {
			d.patch(n2, nsOK, "k2", s2.uid, false, 0, 1, cl.byK["k2"].data, "", "")
			d.commit(n2, nsOK, "k2", s2.uid, "c", 0)
		}
		close(gate)
		<-cdone
		d.step()
	case "remote":
		// replicate-to-remote against remote origins whose upload legs fail in every way the cluster client
		// distinguishes: the answer is 200 exactly when the remote cluster ends up holding the blob
		d.upload(n1, "k1")
		d.upload(n1, "k4")
		ok := rmode{mode: "ok"}
		for _, cfg := range [][]rmode{
			{{"fail", "start", 500}, ok},
			{{"fail", "patch", 400}, ok},
			{{"fail", "commit", 404}, ok},
			{{"fail", "start", 0}, ok},
			{{"fail", "commit", 403}, ok},
			{{"retry", "start", 503}, {"retry", "patch", 429}},
			{{"retry", "commit", 502}, {"fail", "start", 500}},
			{{mode: "net"}, {mode: "net"}},
			{{mode: "net"}, {"fail", "patch", 500}},
			{{"retry", "patch", 504}, ok},
			{{mode: "net"}, ok},
			{ok, ok},
		} {
			d.setRemote(cfg...)
			d.simple(n1, "replicate", nsOK, "k1")
			d.step()
		}
		d.setRemote(rmode{"fail", "commit", 500}, rmode{"fail", "commit", 500})
		d.simple(n2, "replicate", nsOK, "k4")
		d.step()
		d.setRemote(ok, ok)
		d.simple(n2, "replicate", nsOK, "k4")
		d.step()
	}
}

var scenarios = []string{"stalepatch", "negrange", "negrange_t", "om404", "ctype", "fanout", "refresh", "cleanup", "dupconflict", "remote"}

func run(c *eng.Ctx) error {
	// scripted traces first, then two sequential traces for every concurrent one (interleaved, so that the chunks the
	// validator cuts the log into cost about the same)
	n := c.N(84, 402)
	ns := len(scenarios)
	c.Traces(ns+n, func(t int, rng *rand.Rand) {
		switch {
		case t < ns:
			scenario(c, t, rng, scenarios[t])
		case (t-ns)%3 == 2:
			concTrace(c, t, rng)
		default:
			seqTrace(c, t, rng)
		}
	})
	return nil
}
