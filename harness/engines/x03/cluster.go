// Package x03 drives a small cluster of real origin blob servers (extension module X03).
//
// Every node is a real blobserver.Server (origin/blobserver) behind an httptest server, on a real CAStore, with the
// real metainfo generator and the real blob refresher; the nodes talk to each other through the real
// blobclient.HTTPClient.  The dependencies the blob server treats as given are supplied by the harness and log what
// the server does with them: the hash ring (owners per digest, changeable), the storage backend (one shared
// in-memory store; Download is gated so that "accepted, come back later" is a forced state), the persisted-retry
// manager (a task list; Add / SyncExec can fail), the remote cluster and the clocks.
//
// One ndjson record is written per linearization point the harness can see: arrival ("Call") and answer ("Ret") of
// every HTTP request at every node (requests of the driver and requests the origins send each other), manager.Add,
// backend.Download call / return, the upload to a remote cluster, every change of the environment, and, whenever
// the cluster is quiescent, the complete externally visible state of every node ("Obs").  The harness only
// records; spec/origin/BlobServerTrace.tla decides.
package x03

import (
	"bytes"
	"context"
	"crypto/sha256"
	"encoding/hex"
	"encoding/json"
	"errors"
	"fmt"
	"io"
	"net/http"
	"net/http/httptest"
	"os"
	"path/filepath"
	"reflect"
	"sort"
	"strconv"
	"strings"
	"sync"
	"sync/atomic"
	"time"

	"github.com/andres-erbsen/clock"
	"github.com/c2h5oh/datasize"
	"github.com/uber-go/tally"

	"github.com/uber/kraken/core"
	"github.com/uber/kraken/lib/backend"
	"github.com/uber/kraken/lib/backend/backenderrors"
	"github.com/uber/kraken/lib/blobrefresh"
	"github.com/uber/kraken/lib/metainfogen"
	"github.com/uber/kraken/lib/persistedretry"
	"github.com/uber/kraken/lib/persistedretry/writeback"
	"github.com/uber/kraken/lib/store"
	"github.com/uber/kraken/lib/store/metadata"
	"github.com/uber/kraken/origin/blobclient"
	"github.com/uber/kraken/origin/blobserver"
	"github.com/uber/kraken/utils/stringset"

	"kvh/internal/eng"
)

const (
	chunk   = 4               // bytes per token
	defPL   = 4               // piece length metainfogen is configured with (bytes)
	stagger = time.Minute     // blobserver.Config.DuplicateWriteBackStagger
	tickDur = 5 * time.Second // one Tick of the refreshers' clock (error TTL 15 s => expired after 4 ticks)
	nsOK    = "ns"            // namespace with a backend
	nsNone  = "nob"           // namespace without one
	waitMax = 20 * time.Second
)

var errInjected = errors.New("x03: injected failure")

// blob is one content-addressed test blob; its bytes are len(toks) chunks of 4 random bytes.
type blob struct {
	k    string // "k1".."k4"
	d    core.Digest
	data []byte
}

type cluster struct {
	c      *eng.Ctx
	mu     sync.Mutex // guards the maps below
	blobs  []*blob
	byHex  map[string]*blob
	byK    map[string]*blob
	tok    map[string]string // 4 bytes -> token
	junk   []byte
	nodes  []*node
	byAddr map[string]*node
	uids   map[string]string // real upload id -> rid of the start request that returned it
	rid    int64
	ring   *fakeRing
	bk     *bstore
	remote *fakeRemote
	lchunk int  // tokens per chunk of the inter-origin blobclient
	ct     bool // observe the content type of downloads (scenario "ctype" only)
	legacy bool
	dir    string
}

type node struct {
	cl     *cluster
	name   string
	addr   string
	cas    *store.CAStore
	updir  string
	srv    *blobserver.Server
	inner  http.Handler
	hs     *httptest.Server
	mgr    *fakeManager
	refr   *blobrefresh.Refresher
	bkc    *nodeBackend
	clk    *clock.Mock // the blob server's clock (forced cleanup TTL)
	rclk   *clock.Mock // the refresher's request cache clock
	up     atomic.Bool
	inflt  atomic.Int64
	holdMu sync.Mutex
	hold   map[string]chan struct{} // op -> gate: an arriving peer request of that op waits here before it is logged
	held   atomic.Int64             // requests waiting at a gate
}

// ---------------------------------------------------------------------------------------------
// hash ring (abstract: owners per digest)

type fakeRing struct {
	mu   sync.Mutex
	locs map[string][]string // digest hex -> addresses
	all  []string
}

func (r *fakeRing) Locations(d core.Digest) []string {
	r.mu.Lock()
	defer r.mu.Unlock()
	if l, ok := r.locs[d.Hex()]; ok {
		return append([]string(nil), l...)
	}
	return append([]string(nil), r.all[:1]...)
}
func (r *fakeRing) Contains(addr string) bool {
	for _, a := range r.all {
		if a == addr {
			return true
		}
	}
	return false
}
func (r *fakeRing) WaitForContains(addr string) error { return nil }
func (r *fakeRing) Members() stringset.Set            { return stringset.FromSlice(r.all) }
func (r *fakeRing) Monitor(stop <-chan struct{})      {}
func (r *fakeRing) Refresh()                          {}

// ---------------------------------------------------------------------------------------------
// storage backend: one shared store, one client per node

type bstore struct {
	mu   sync.Mutex
	kv   map[string][]byte // digest hex -> bytes (namespace "ns" only)
	down bool
}

type dlGate struct {
	kind chan string
}

type nodeBackend struct {
	n     *node
	s     *bstore
	mu    sync.Mutex
	gates map[string]*dlGate    // digest hex -> parked download
	auto  func(k string) string // non-nil: downloads are not parked, the result kind is taken from here
}

func (b *nodeBackend) Stat(namespace, name string) (*core.BlobInfo, error) {
	b.s.mu.Lock()
	defer b.s.mu.Unlock()
	if b.s.down {
		return nil, errInjected
	}
	if v, ok := b.s.kv[name]; ok {
		return core.NewBlobInfo(int64(len(v))), nil
	}
	return nil, backenderrors.ErrBlobNotFound
}

func (b *nodeBackend) Upload(namespace, name string, src io.Reader) error {
	return errors.New("x03: the blob server never uploads to the backend itself")
}

// Download is the gate of the refresh worker: it reports that the worker arrived, waits for the harness to say
// what the backend delivers, reports that and delivers it.
func (b *nodeBackend) Download(namespace, name string, dst io.Writer) error {
	cl := b.n.cl
	bl := cl.blobOf(name)
	k := "k?"
	if bl != nil {
		k = bl.k
	}
	var kind string
	if b.auto != nil {
		cl.c.W.Ev("DlCall", "node", b.n.name, "d", k)
		kind = b.auto(k)
	} else {
		g := &dlGate{kind: make(chan string, 1)}
		cl.c.W.Ev("DlCall", "node", b.n.name, "d", k)
		b.mu.Lock()
		b.gates[name] = g
		b.mu.Unlock()
		select {
		case kind = <-g.kind:
		case <-time.After(2 * waitMax):
			kind = "err"
		}
		b.mu.Lock()
		delete(b.gates, name)
		b.mu.Unlock()
	}
	cl.c.W.Ev("DlRet", "node", b.n.name, "d", k, "kind", kind)
	switch kind {
	case "exact":
		_, err := dst.Write(bl.data)
		return err
	case "bad": // the right length, one byte flipped
		bad := append([]byte(nil), bl.data...)
		if len(bad) == 0 {
			bad = []byte{1}
		} else {
			bad[len(bad)-1] ^= 0x5a
		}
		_, err := dst.Write(bad)
		return err
	case "nf":
		return backenderrors.ErrBlobNotFound
	}
	return errInjected
}
func (b *nodeBackend) List(prefix string, opts ...backend.ListOption) (*backend.ListResult, error) {
	return &backend.ListResult{}, nil
}
func (b *nodeBackend) Close() error { return nil }

func (b *nodeBackend) parked(hexd string) *dlGate {
	b.mu.Lock()
	defer b.mu.Unlock()
	return b.gates[hexd]
}

// ---------------------------------------------------------------------------------------------
// persisted-retry manager (abstract: a list of write-back tasks)

type wbTask struct {
	ns, name string
	delay    time.Duration
}

type fakeManager struct {
	n     *node
	mu    sync.Mutex
	tasks []wbTask
	fail  bool
}

func delayUnits(d time.Duration) int {
	if d%stagger != 0 {
		return -1
	}
	return int(d / stagger)
}

func (m *fakeManager) Add(t persistedretry.Task) error {
	w, ok := t.(*writeback.Task)
	if !ok {
		return fmt.Errorf("x03: unexpected task %T", t)
	}
	m.mu.Lock()
	defer m.mu.Unlock()
	cl := m.n.cl
	k := "k?"
	if bl := cl.blobOf(w.Name); bl != nil {
		k = bl.k
	}
	if m.fail {
		cl.c.W.Ev("WbAdd", "node", m.n.name, "ns", w.Namespace, "d", k, "num", delayUnits(w.Delay), "ok", false)
		return errInjected
	}
	m.tasks = append(m.tasks, wbTask{w.Namespace, w.Name, w.Delay})
	cl.c.W.Ev("WbAdd", "node", m.n.name, "ns", w.Namespace, "d", k, "num", delayUnits(w.Delay), "ok", true)
	return nil
}

// SyncExec does what the write-back executor does for a task: upload the cached blob to the namespace's backend
// and clear the persist flag; the task itself stays in the table (the real manager does not remove it either).
func (m *fakeManager) SyncExec(t persistedretry.Task) error {
	w, ok := t.(*writeback.Task)
	if !ok {
		return fmt.Errorf("x03: unexpected task %T", t)
	}
	s := m.n.cl.bk
	s.mu.Lock()
	down := s.down
	s.mu.Unlock()
	if down {
		return errInjected
	}
	if w.Namespace == nsOK {
		f, err := m.n.cas.GetCacheFileReader(w.Name)
		if err != nil {
			return err
		}
		b, err := io.ReadAll(f)
		f.Close()
		if err != nil {
			return err
		}
		s.mu.Lock()
		s.kv[w.Name] = b
		s.mu.Unlock()
	}
	if err := m.n.cas.DeleteCacheFileMetadata(w.Name, &metadata.Persist{}); err != nil && !os.IsNotExist(err) {
		return err
	}
	return nil
}
func (m *fakeManager) Close() {}
func (m *fakeManager) Find(query interface{}) ([]persistedretry.Task, error) {
	name := ""
	if v := reflect.ValueOf(query); v.Kind() == reflect.Ptr && v.Elem().Kind() == reflect.Struct && v.Elem().NumField() > 0 {
		name = v.Elem().Field(0).String()
	}
	m.mu.Lock()
	defer m.mu.Unlock()
	var out []persistedretry.Task
	for _, t := range m.tasks {
		if t.name == name {
			out = append(out, writeback.NewTask(t.ns, t.name, t.delay))
		}
	}
	return out, nil
}

// ---------------------------------------------------------------------------------------------
// remote cluster: two scripted remote origins behind the REAL blobclient cluster client (location resolution, chunked
// upload, move-on-to-the-next-origin rules).  Each remote origin speaks the upload protocol of an origin and has a
// disposition: "ok", "fail" (a non-retryable status, or no Location header, at one stage), "retry" (a retryable
// status at one stage) or "net" (drops every connection).

type rhost struct {
	r      *fakeRemote
	hs     *httptest.Server
	addr   string
	mode   string // ok | fail | retry | net
	stage  string // start | patch | commit (fail, retry)
	status int    // status answered at that stage; 0 = 200 without a Location header (start only)
	stored map[string][]byte
	ups    map[string][]byte
	nup    int
}

type fakeRemote struct {
	cl    *cluster
	mu    sync.Mutex
	hosts []*rhost
}

type staticHosts struct{ addrs []string }

func (h staticHosts) Resolve() stringset.Set { return stringset.FromSlice(h.addrs) }

func newFakeRemote(cl *cluster) *fakeRemote {
	r := &fakeRemote{cl: cl}
	for i := 0; i < 2; i++ {
		h := &rhost{r: r, mode: "ok", stored: map[string][]byte{}, ups: map[string][]byte{}}
		h.hs = httptest.NewUnstartedServer(http.HandlerFunc(h.serve))
		h.hs.Config.SetKeepAlivesEnabled(false)
		h.hs.Start()
		h.addr = h.hs.Listener.Addr().String()
		r.hosts = append(r.hosts, h)
	}
	return r
}

func (r *fakeRemote) close() {
	for _, h := range r.hosts {
		h.hs.Close()
	}
}

// holds reports whether some remote origin stores exactly the bytes of the digest.
func (r *fakeRemote) holds(hexd string) bool {
	r.mu.Lock()
	defer r.mu.Unlock()
	for _, h := range r.hosts {
		if b, ok := h.stored[hexd]; ok {
			sum := sha256.Sum256(b)
			if hex.EncodeToString(sum[:]) == hexd {
				return true
			}
		}
	}
	return false
}

func drop(w http.ResponseWriter) {
	if hj, ok := w.(http.Hijacker); ok {
		if c, _, err := hj.Hijack(); err == nil {
			c.Close()
		}
	}
}

func (h *rhost) serve(w http.ResponseWriter, req *http.Request) {
	body, _ := io.ReadAll(req.Body)
	h.r.mu.Lock()
	defer h.r.mu.Unlock()
	if h.mode == "net" {
		drop(w)
		return
	}
	p := strings.Split(strings.Trim(req.URL.EscapedPath(), "/"), "/")
	if len(p) == 3 && p[0] == "blobs" && p[2] == "locations" {
		var addrs []string
		for _, o := range h.r.hosts {
			addrs = append(addrs, o.addr)
		}
		w.Header().Set("Origin-Locations", strings.Join(addrs, ","))
		return
	}
	if len(p) < 5 || p[0] != "namespace" || p[2] != "blobs" || p[4] != "uploads" {
		w.WriteHeader(http.StatusNotImplemented)
		return
	}
	hexd := strings.TrimPrefix(p[3], "sha256:")
	if i := strings.Index(p[3], "%3A"); i >= 0 {
		hexd = p[3][i+3:]
	}
	stage := "start"
	if len(p) == 6 && req.Method == http.MethodPatch {
		stage = "patch"
	} else if len(p) == 6 && req.Method == http.MethodPut {
		stage = "commit"
	}
	if (h.mode == "fail" || h.mode == "retry") && h.stage == stage {
		if h.status == 0 { // "succeeds" without telling the upload id
			w.WriteHeader(http.StatusOK)
			return
		}
		w.WriteHeader(h.status)
		return
	}
	switch stage {
	case "start":
		if _, ok := h.stored[hexd]; ok && h.mode == "ok" {
			w.WriteHeader(http.StatusConflict)
			return
		}
		h.nup++
		uid := fmt.Sprintf("ru%d", h.nup)
		h.ups[uid] = nil
		w.Header().Set("Location", uid)
	case "patch":
		buf, ok := h.ups[p[5]]
		parts := strings.Split(req.Header.Get("Content-Range"), "-")
		if !ok || len(parts) != 2 {
			w.WriteHeader(http.StatusNotFound)
			return
		}
		a, _ := strconv.Atoi(parts[0])
		for len(buf) < a+len(body) {
			buf = append(buf, 0)
		}
		copy(buf[a:], body)
		h.ups[p[5]] = buf
	case "commit":
		buf, ok := h.ups[p[5]]
		if !ok {
			w.WriteHeader(http.StatusNotFound)
			return
		}
		delete(h.ups, p[5])
		sum := sha256.Sum256(buf)
		if hex.EncodeToString(sum[:]) != hexd {
			w.WriteHeader(http.StatusInternalServerError)
			return
		}
		h.stored[hexd] = append([]byte{}, buf...)
	}
}

type remoteClient struct {
	r    *fakeRemote
	from *node
	dns  string
	real blobclient.ClusterClient
}

func (r *fakeRemote) provider(n *node) blobclient.ClusterProvider { return &remoteProvider{r, n} }

type remoteProvider struct {
	r *fakeRemote
	n *node
}

func (p *remoteProvider) Provide(dns string) (blobclient.ClusterClient, error) {
	var addrs []string
	for _, h := range p.r.hosts {
		addrs = append(addrs, h.addr)
	}
	prov := blobclient.NewProvider(blobclient.WithChunkSize(uint64(p.r.cl.lchunk * chunk)))
	real := blobclient.NewClusterClient(blobclient.NewClientResolver(prov, staticHosts{addrs}))
	return &remoteClient{p.r, p.n, dns, real}, nil
}
func (c *remoteClient) CheckReadiness() error { return nil }

// UploadBlob runs the real cluster client against the scripted remote origins and reports what came of it: ok = the
// client reported success, good = success coincides with the remote cluster really holding the blob's bytes.
func (c *remoteClient) UploadBlob(ctx context.Context, namespace string, d core.Digest, b io.ReadSeeker, size uint64) error {
	had := c.r.holds(d.Hex())
	err := c.real.UploadBlob(ctx, namespace, d, b, size)
	has := c.r.holds(d.Hex())
	good := has == (had || err == nil)
	c.r.cl.c.W.Ev("RemoteUp", "node", c.from.name, "ns", namespace, "d", c.r.cl.kOf(d.Hex()), "str", c.dns, "ok", err == nil, "good", good)
	return err
}
func (c *remoteClient) DownloadBlob(ctx context.Context, namespace string, d core.Digest, dst io.Writer) error {
	return errors.New("x03: unused")
}
func (c *remoteClient) PrefetchBlob(namespace string, d core.Digest) error {
	return errors.New("x03: unused")
}
func (c *remoteClient) GetMetaInfo(namespace string, d core.Digest) (*core.MetaInfo, error) {
	return nil, errors.New("x03: unused")
}
func (c *remoteClient) Stat(namespace string, d core.Digest) (*core.BlobInfo, error) {
	return nil, errors.New("x03: unused")
}
func (c *remoteClient) OverwriteMetaInfo(d core.Digest, pieceLength int64) error {
	return errors.New("x03: unused")
}
func (c *remoteClient) Owners(d core.Digest) ([]core.PeerContext, error) {
	return nil, errors.New("x03: unused")
}
func (c *remoteClient) ReplicateToRemote(namespace string, d core.Digest, remoteDNS string) error {
	return errors.New("x03: unused")
}

// ---------------------------------------------------------------------------------------------
// cluster construction

func (cl *cluster) blobOf(hexd string) *blob {
	cl.mu.Lock()
	defer cl.mu.Unlock()
	return cl.byHex[hexd]
}

func (cl *cluster) nodeName(addr string) string {
	if n, ok := cl.byAddr[addr]; ok {
		return n.name
	}
	return "n?"
}

// tokens renders bytes as chunk tokens: "k1.0" for the i-th chunk of a blob, "z" for zeros, "j" for anything else
// ("?" marks a tail that is not a whole chunk).
func (cl *cluster) tokens(b []byte) []string {
	out := []string{}
	for len(b) >= chunk {
		c := string(b[:chunk])
		b = b[chunk:]
		if t, ok := cl.tok[c]; ok {
			out = append(out, t)
		} else if c == "\x00\x00\x00\x00" {
			out = append(out, "z")
		} else {
			out = append(out, "j")
		}
	}
	if len(b) > 0 {
		out = append(out, "?")
	}
	return out
}

type rnd interface {
	Intn(int) int
	Read([]byte) (int, error)
}

var blobLens = []int{2, 1, 0, 3} // chunks of k1..k4

func newCluster(c *eng.Ctx, rng rnd, nnodes, lchunk int) *cluster {
	dir, err := os.MkdirTemp("", "x03-")
	if err != nil {
		panic(err)
	}
	cl := &cluster{c: c, byHex: map[string]*blob{}, byK: map[string]*blob{}, tok: map[string]string{}, byAddr: map[string]*node{},
		uids: map[string]string{}, lchunk: lchunk, dir: dir}
	used := map[string]bool{"\x00\x00\x00\x00": true}
	fresh := func() []byte {
		for {
			b := make([]byte, chunk)
			rng.Read(b)
			if !used[string(b)] {
				used[string(b)] = true
				return b
			}
		}
	}
	for i, n := range blobLens {
		bl := &blob{k: fmt.Sprintf("k%d", i+1)}
		for j := 0; j < n; j++ {
			ch := fresh()
			cl.tok[string(ch)] = fmt.Sprintf("%s.%d", bl.k, j)
			bl.data = append(bl.data, ch...)
		}
		sum := sha256.Sum256(bl.data)
		bl.d, _ = core.NewSHA256DigestFromHex(hex.EncodeToString(sum[:]))
		cl.blobs = append(cl.blobs, bl)
		cl.byHex[bl.d.Hex()] = bl
		cl.byK[bl.k] = bl
	}
	cl.junk = fresh()
	cl.ring = &fakeRing{locs: map[string][]string{}}
	cl.bk = &bstore{kv: map[string][]byte{}}
	cl.remote = newFakeRemote(cl)
	for i := 0; i < nnodes; i++ {
		cl.nodes = append(cl.nodes, cl.newNode(fmt.Sprintf("n%d", i+1)))
	}
	for _, n := range cl.nodes {
		cl.ring.all = append(cl.ring.all, n.addr)
	}
	return cl
}

func (cl *cluster) newNode(name string) *node {
	n := &node{cl: cl, name: name, hold: map[string]chan struct{}{}}
	n.up.Store(true)
	base := filepath.Join(cl.dir, name)
	n.updir = filepath.Join(base, "upload")
	cas, err := store.NewCAStore(store.CAStoreConfig{UploadDir: n.updir, CacheDir: filepath.Join(base, "cache")}, tally.NoopScope)
	if err != nil {
		panic(err)
	}
	n.cas = cas
	n.hs = httptest.NewUnstartedServer(http.HandlerFunc(n.serve))
	n.addr = n.hs.Listener.Addr().String()
	cl.byAddr[n.addr] = n
	bm := backend.ManagerFixture()
	n.bkc = &nodeBackend{n: n, s: cl.bk, gates: map[string]*dlGate{}}
	if err := bm.Register(nsOK, n.bkc, true); err != nil {
		panic(err)
	}
	mg, err := metainfogen.New(metainfogen.Config{PieceLengths: map[datasize.ByteSize]datasize.ByteSize{0: defPL}}, cas)
	if err != nil {
		panic(err)
	}
	now := time.Now()
	n.clk = clock.NewMock()
	n.clk.Set(now)
	n.rclk = clock.NewMock()
	n.rclk.Set(now)
	n.refr = blobrefresh.VerifX03New(blobrefresh.Config{}, tally.NoopScope, cas, bm, mg, n.rclk)
	n.mgr = &fakeManager{n: n}
	prov := blobclient.NewProvider(blobclient.WithChunkSize(uint64(cl.lchunk * chunk)))
	srv, err := blobserver.New(blobserver.Config{DuplicateWriteBackStagger: stagger}, tally.NoopScope, n.clk, n.addr, cl.ring, cas,
		prov, cl.remote.provider(n), core.PeerContextFixture(), bm, n.refr, mg, n.mgr)
	if err != nil {
		panic(err)
	}
	n.srv = srv
	n.inner = srv.Handler()
	n.hs.Config.SetKeepAlivesEnabled(false)
	n.hs.Start()
	return n
}

func (cl *cluster) close() {
	for _, n := range cl.nodes {
		// parked downloads must not outlive the trace
		n.bkc.mu.Lock()
		for _, g := range n.bkc.gates {
			select {
			case g.kind <- "err":
			default:
			}
		}
		n.bkc.mu.Unlock()
	}
	for _, n := range cl.nodes {
		n.hs.Close()
		n.cas.Close()
	}
	cl.remote.close()
	os.RemoveAll(cl.dir)
}

// ---------------------------------------------------------------------------------------------
// the front door of a node: classify, log, forward, log

type call struct {
	op, ns, d, uid, str, bad, src string
	a, b, num                     int
	data                          []string
	short, flag                   bool
}

func (cl *cluster) kOf(hexd string) string {
	if bl := cl.blobOf(hexd); bl != nil {
		return bl.k
	}
	return "k?"
}

// classify maps method + path (the routes of blobserver.Server.Handler) to the operation names of the specification.
func (n *node) classify(r *http.Request, body []byte) call {
	cl := n.cl
	c := call{op: "?", ns: nsOK, d: "k1", uid: "none", bad: "none", src: "peer", data: []string{}}
	if r.Header.Get("X-Verif-Client") != "" {
		c.src = "client"
	}
	if v := r.Header.Get("X-Verif-Bad"); v != "" {
		c.bad = v
	}
	p := strings.Split(strings.Trim(r.URL.EscapedPath(), "/"), "/")
	get := func(i int) string {
		if i < len(p) {
			return p[i]
		}
		return ""
	}
	setUID := func(raw string) {
		cl.mu.Lock()
		if rid, ok := cl.uids[raw]; ok {
			c.uid = rid
		} else {
			c.uid = "x"
		}
		cl.mu.Unlock()
	}
	dig := func(raw string) {
		raw = strings.TrimPrefix(raw, "sha256:")
		if c.bad == "digest" {
			return
		}
		c.d = cl.kOf(raw)
	}
	rng := func() {
		if c.bad == "range" {
			return
		}
		parts := strings.Split(r.Header.Get("Content-Range"), "-")
		if len(parts) != 2 {
			c.a, c.b = -1, -1
			return
		}
		s, e1 := strconv.Atoi(parts[0])
		e, e2 := strconv.Atoi(parts[1])
		if e1 != nil || e2 != nil || s%chunk != 0 || e%chunk != 0 {
			c.a, c.b = -1, -1
			return
		}
		c.a, c.b = s/chunk, e/chunk
		if v := r.Header.Get("X-Verif-Stream"); v != "" { // the body is streamed by the driver, which declares it
			c.data = strings.Split(v, ",")
			return
		}
		c.data = cl.tokens(body)
		if c.a <= c.b && len(body) < (e-s) {
			c.short = true
		} else if c.a <= c.b && len(body) > (e-s) {
			c.data = cl.tokens(body[:e-s]) // bytes beyond the declared range are never read by the handler
		}
	}
	switch {
	case len(p) == 1 && p[0] == "health":
		c.op = "health"
	case len(p) == 1 && p[0] == "readiness":
		c.op = "readiness"
	case len(p) == 1 && p[0] == "forcecleanup":
		c.op = "forcecleanup"
		c.num, _ = strconv.Atoi(r.URL.Query().Get("ttl_hr"))
	case len(p) == 2 && p[0] == "forcecleanup" && p[1] == "v2":
		c.op = "forcecleanup2"
	case len(p) == 3 && p[0] == "blobs" && p[2] == "locations":
		c.op = "locations"
		dig(p[1])
	case len(p) == 2 && p[0] == "internal" && p[1] == "peercontext":
		c.op = "peerctx"
	case p[0] == "namespace" && get(2) == "blobs":
		c.ns = p[1]
		dig(get(3))
		switch {
		case len(p) == 4 && r.Method == http.MethodGet:
			c.op = "download"
		case len(p) == 5 && p[4] == "prefetch":
			c.op = "prefetch"
		case len(p) == 6 && p[4] == "remote":
			c.op = "replicate"
			c.str = p[5]
		case len(p) == 5 && p[4] == "uploads":
			c.op = "start"
		case len(p) == 6 && p[4] == "uploads" && r.Method == http.MethodPatch:
			c.op = "patch"
			setUID(p[5])
			rng()
		case len(p) == 6 && p[4] == "uploads" && r.Method == http.MethodPut:
			c.op = "commit"
			setUID(p[5])
		}
	case p[0] == "internal" && get(1) == "namespace" && get(3) == "blobs":
		c.ns = p[2]
		dig(get(4))
		if len(p) == 5 {
			c.op = "stat"
			c.flag = r.URL.Query().Get("local") == "true"
		} else if len(p) == 6 && p[5] == "metainfo" {
			c.op = "getmeta"
		}
	case p[0] == "internal" && get(1) == "duplicate":
		c.op = "dupcommit"
		c.ns = get(3)
		dig(get(5))
		setUID(get(7))
		var dr blobclient.DuplicateCommitUploadRequest
		if c.bad == "none" {
			if json.Unmarshal(body, &dr) != nil {
				c.num = -1
			} else {
				c.num = delayUnits(dr.Delay)
			}
		}
	case p[0] == "internal" && get(1) == "blobs":
		dig(get(2))
		switch {
		case len(p) == 3 && r.Method == http.MethodDelete:
			c.op = "delete"
		case len(p) == 4 && p[3] == "metainfo":
			c.op = "overwritemeta"
			c.num, _ = strconv.Atoi(r.URL.Query().Get("piece_length"))
		case len(p) == 4 && p[3] == "uploads":
			c.op = "tstart"
		case len(p) == 5 && p[3] == "uploads" && r.Method == http.MethodPatch:
			c.op = "tpatch"
			setUID(p[4])
			rng()
		case len(p) == 5 && p[3] == "uploads" && r.Method == http.MethodPut:
			c.op = "tcommit"
			setUID(p[4])
		}
	}
	return c
}

type recorder struct {
	http.ResponseWriter
	code  int
	body  bytes.Buffer
	wrote bool
	ctAt  string // Content-Type header at the moment the status line went out
}

func (r *recorder) WriteHeader(c int) {
	if !r.wrote {
		r.wrote, r.code = true, c
		r.ctAt = r.Header().Get("Content-Type")
	}
	r.ResponseWriter.WriteHeader(c)
}
func (r *recorder) Write(b []byte) (int, error) {
	if !r.wrote {
		r.WriteHeader(http.StatusOK)
	}
	r.body.Write(b)
	return r.ResponseWriter.Write(b)
}

func (n *node) serve(w http.ResponseWriter, r *http.Request) {
	cl := n.cl
	var body []byte
	if r.Header.Get("X-Verif-Stream") == "" {
		body, _ = io.ReadAll(r.Body)
		r.Body = io.NopCloser(bytes.NewReader(body))
	}
	c := n.classify(r, body)
	n.holdMu.Lock()
	gate := n.hold[c.op]
	n.holdMu.Unlock()
	if gate != nil && c.src == "peer" {
		n.held.Add(1)
		select {
		case <-gate:
		case <-time.After(waitMax):
		}
		n.held.Add(-1)
	}
	n.inflt.Add(1)
	defer n.inflt.Add(-1)
	rid := fmt.Sprintf("r%d", atomic.AddInt64(&cl.rid, 1))
	cl.c.W.Ev("Call", "rid", rid, "node", n.name, "op", c.op, "ns", c.ns, "d", c.d, "uid", c.uid, "a", c.a, "b", c.b,
		"data", c.data, "short", c.short, "flag", c.flag, "num", c.num, "str", c.str, "bad", c.bad, "src", c.src)
	if !n.up.Load() {
		cl.c.W.Ev("Ret", "rid", rid, "op", c.op, "code", 503, "out", []string{}, "onum", 0, "ct", "na", "good", true)
		w.WriteHeader(http.StatusServiceUnavailable)
		return
	}
	rec := &recorder{ResponseWriter: w}
	n.inner.ServeHTTP(rec, r)
	if !rec.wrote {
		rec.code = http.StatusOK
		rec.ctAt = rec.Header().Get("Content-Type")
	}
	out, onum, good, ct := []string{}, 0, true, "na"
	if rec.code == http.StatusOK {
		switch c.op {
		case "start", "tstart":
			uid := rec.Header().Get("Location")
			cl.mu.Lock()
			cl.uids[uid] = rid
			cl.mu.Unlock()
			out = []string{rid}
			good = uid != ""
		case "locations":
			for _, a := range strings.Split(rec.Header().Get("Origin-Locations"), ",") {
				out = append(out, cl.nodeName(a))
			}
		case "download":
			out = cl.tokens(rec.body.Bytes())
			if cl.ct {
				ct = "missing"
				if rec.ctAt == "application/octet-stream-v1" {
					ct = "ok"
				}
			}
		case "stat":
			sz, err := strconv.Atoi(rec.Header().Get("Content-Length"))
			if err != nil || sz%chunk != 0 {
				onum = -1
			} else {
				onum = sz / chunk
			}
		case "getmeta":
			onum, good = cl.checkMetaInfo(c.d, rec.body.Bytes())
		case "forcecleanup":
			var res struct {
				Deleted []string `json:"deleted"`
				Errors  []string `json:"errors"`
			}
			good = json.Unmarshal(rec.body.Bytes(), &res) == nil
			for _, bl := range cl.blobs {
				for _, h := range res.Deleted {
					if h == bl.d.Hex() {
						out = append(out, bl.k)
					}
				}
			}
			if len(out) != len(res.Deleted) {
				good = false
			}
			onum = len(res.Errors)
		}
	}
	cl.c.W.Ev("Ret", "rid", rid, "op", c.op, "code", rec.code, "out", out, "onum", onum, "ct", ct, "good", good)
}

// checkMetaInfo: the served metainfo must be exactly the metainfo of the blob's bytes for its piece length.
func (cl *cluster) checkMetaInfo(k string, raw []byte) (pl int, good bool) {
	mi, err := core.DeserializeMetaInfo(raw)
	if err != nil {
		return -1, false
	}
	bl := cl.byK[k]
	if bl == nil {
		return int(mi.PieceLength()), false
	}
	want, err := core.NewMetaInfoFromBytes(bl.d, bl.data, mi.PieceLength())
	if err != nil {
		return int(mi.PieceLength()), false
	}
	ws, _ := want.Serialize()
	gs, _ := mi.Serialize()
	return int(mi.PieceLength()), bytes.Equal(ws, gs) && mi.Digest() == bl.d
}

// ---------------------------------------------------------------------------------------------
// observation of the externally visible state

func (n *node) observe() map[string]any {
	cl := n.cl
	cache, meta, persist, uploads, tasks, rst := [][]any{}, [][]any{}, []string{}, [][]any{}, [][]any{}, [][]any{}
	names, _ := n.cas.ListCacheFiles()
	for _, bl := range cl.blobs {
		found := false
		for _, nm := range names {
			if nm == bl.d.Hex() {
				found = true
			}
		}
		if found {
			good := false
			if f, err := n.cas.GetCacheFileReader(bl.d.Hex()); err == nil {
				b, _ := io.ReadAll(f)
				f.Close()
				sum := sha256.Sum256(b)
				good = hex.EncodeToString(sum[:]) == bl.d.Hex()
			}
			cache = append(cache, []any{bl.k, good})
		}
		var tm metadata.TorrentMeta
		if err := n.cas.GetCacheFileMetadata(bl.d.Hex(), &tm); err == nil {
			raw, _ := tm.Serialize()
			pl, good := cl.checkMetaInfo(bl.k, raw)
			if !good {
				pl = -pl - 1000
			}
			meta = append(meta, []any{bl.k, pl})
		}
		var pm metadata.Persist
		if err := n.cas.GetCacheFileMetadata(bl.d.Hex(), &pm); err == nil && pm.Value {
			persist = append(persist, bl.k)
		}
		if s := n.refr.VerifX03State(bl.d); s != "idle" {
			rst = append(rst, []any{bl.k, s})
		}
	}
	for _, nm := range names {
		if cl.blobOf(nm) == nil {
			cache = append(cache, []any{"k?", false})
		}
	}
	// upload files: every regular file below the upload directory whose name is an upload id
	type up struct {
		rid  string
		toks []string
	}
	var ups []up
	filepath.Walk(n.updir, func(p string, info os.FileInfo, err error) error {
		if err != nil || info.IsDir() {
			return nil
		}
		if filepath.Base(p) != "data" { // <upload dir>/<upload id>/data; everything else is a metadata sidecar
			return nil
		}
		base := filepath.Base(filepath.Dir(p))
		cl.mu.Lock()
		rid, ok := cl.uids[base]
		cl.mu.Unlock()
		if !ok {
			if strings.Contains(base, ".") { // "<digest>.<uuid>": the refresher's own temporary file, not an upload
				return nil
			}
			rid = "x:" + base
		}
		b, _ := os.ReadFile(p)
		ups = append(ups, up{rid, cl.tokens(b)})
		return nil
	})
	sort.Slice(ups, func(i, j int) bool { return ups[i].rid < ups[j].rid })
	for _, u := range ups {
		uploads = append(uploads, []any{u.rid, u.toks})
	}
	n.mgr.mu.Lock()
	seen := map[string]bool{}
	for _, t := range n.mgr.tasks {
		key := fmt.Sprintf("%s/%s/%d", t.ns, t.name, t.delay)
		if seen[key] {
			continue
		}
		seen[key] = true
		tasks = append(tasks, []any{t.ns, cl.kOf(t.name), delayUnits(t.delay)})
	}
	n.mgr.mu.Unlock()
	return map[string]any{"cache": cache, "meta": meta, "persist": persist, "uploads": uploads, "tasks": tasks, "rst": rst}
}

func (cl *cluster) obs() {
	nodes := map[string]any{}
	for _, n := range cl.nodes {
		nodes[n.name] = n.observe()
	}
	bk, rem := []string{}, []string{}
	cl.bk.mu.Lock()
	for _, bl := range cl.blobs {
		if _, ok := cl.bk.kv[bl.d.Hex()]; ok {
			bk = append(bk, bl.k)
		}
	}
	cl.bk.mu.Unlock()
	for _, bl := range cl.blobs {
		if cl.remote.holds(bl.d.Hex()) {
			rem = append(rem, bl.k)
		}
	}
	cl.c.W.Ev("Obs", "nodes", nodes, "backend", bk, "remote", rem)
}

// settle waits until nothing moves any more: no request is being served and every refresh that is pending has its
// worker parked at the backend gate.  Returns false if that does not happen (logged as an unexplained event).
func (cl *cluster) settle() bool {
	deadline := time.Now().Add(waitMax)
	for {
		quiet := true
		for _, n := range cl.nodes {
			if n.inflt.Load() != 0 {
				quiet = false
			}
			for _, bl := range cl.blobs {
				if n.refr.VerifX03State(bl.d) == "pending" && n.bkc.parked(bl.d.Hex()) == nil {
					quiet = false
				}
			}
		}
		if quiet {
			return true
		}
		if time.Now().After(deadline) {
			cl.c.W.Ev("Stuck")
			return false
		}
		time.Sleep(200 * time.Microsecond)
	}
}
