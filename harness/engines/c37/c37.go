// Package c37 records Upload/Download/Stat/List/Close histories of the real in-process backend clients
// (testfs against a real testfs server, sqlbackend on sqlite, s3backend over an in-memory S3, shadowbackend
// over pairs of those) for validation against spec/backend/BackendKV.tla (property C37).
package c37

import (
	"bytes"
	"crypto/sha256"
	"encoding/hex"
	"errors"
	"fmt"
	"io"
	"math/rand"
	"net/http/httptest"
	"os"
	"path/filepath"
	"strings"

	"github.com/aws/aws-sdk-go/aws"
	"github.com/uber-go/tally"

	"github.com/uber/kraken/lib/backend"
	"github.com/uber/kraken/lib/backend/backenderrors"
	"github.com/uber/kraken/lib/backend/namepath"
	"github.com/uber/kraken/lib/backend/s3backend"
	"github.com/uber/kraken/lib/backend/shadowbackend"
	"github.com/uber/kraken/lib/backend/sqlbackend"
	"github.com/uber/kraken/lib/backend/testfs"

	"kvh/internal/eng"
)

func init() { eng.Register("c37", run) }

// ---- inputs -------------------------------------------------------------------------------------------

// names valid for the identity pather / for the docker_tag pather and sqlbackend ("repo:tag")
var idNames = []string{"a/x", "a/y", "a/b/z", "b/w", "c"}
var tagNames = []string{"alpha:v1", "alpha:v2", "alpha/sub:v1", "beta:latest", "gamma:v9"}

// listing prefixes; all are whole path segments and none equals a name (testfs lists directories, S3 matches
// key strings -- the two agree exactly on such prefixes)
var idPrefixes = []string{"", "a", "a/b", "b", "zz"}
var tagPrefixes = []string{"", "alpha", "alpha/_manifests/tags", "beta/_manifests/tags", "nope/_manifests/tags"}
var sqlPrefixes = []string{"alpha/_manifests/tags", "beta/_manifests/tags", "nope/_manifests/tags", "alpha/sub/_manifests/tags"}

func digestStr(seed string) []byte {
	h := sha256.Sum256([]byte(seed))
	return []byte("sha256:" + hex.EncodeToString(h[:]))
}

// contents: c0 empty, c1/c2 equal length and different bytes (tag payloads are digests), c3 long
func contents(text bool) [][]byte {
	long := make([]byte, 300)
	for i := range long {
		if text {
			long[i] = byte('a' + i%26)
		} else {
			long[i] = byte((i * 37) % 256) // includes 0x00, 0x0a, 0xff
		}
	}
	return [][]byte{{}, digestStr("c1"), digestStr("c2"), long}
}

// pathKey is the path of a name relative to the pather's base path (the reference for "under a prefix").
func pathKey(np, name string) string {
	if np == namepath.DockerTag {
		i := strings.Index(name, ":")
		return name[:i] + "/_manifests/tags/" + name[i+1:] + "/current/link"
	}
	return name
}

func under(np, prefix, name string) bool {
	return prefix == "" || strings.HasPrefix(pathKey(np, name), prefix+"/")
}

// ---- the world of one trace -----------------------------------------------------------------------------

type world struct {
	kind     string
	cl       backend.Client
	np       string
	names    []string
	prefixes []string
	cont     [][]byte
	statsize bool
	paging   string // token | reject | ignore
	defmax   int
	emptyerr bool
	sqlBased bool                                    // some layer is sqlbackend
	peek     func(name string) ([]byte, bool, error) // shadow's own store, nil unless shadowbackend
	junk     bool
	cleanups []func()
}

func (w *world) cleanup() {
	for i := len(w.cleanups) - 1; i >= 0; i-- {
		w.cleanups[i]()
	}
}

func must(err error) {
	if err != nil {
		panic(err)
	}
}

func (w *world) newTestfs(root, np string) (*testfs.Client, testfs.Config) {
	srv := testfs.NewServer()
	hs := httptest.NewServer(srv.Handler())
	w.cleanups = append(w.cleanups, func() { hs.Close(); srv.Cleanup() })
	cfg := testfs.Config{Addr: strings.TrimPrefix(hs.URL, "http://"), Root: root, NamePath: np}
	c, err := testfs.NewClient(cfg, tally.NoopScope)
	must(err)
	return c, cfg
}

func (w *world) newSQL() (*sqlbackend.Client, sqlbackend.Config) {
	dir, err := os.MkdirTemp("", "c37-sql")
	must(err)
	w.cleanups = append(w.cleanups, func() { os.RemoveAll(dir) })
	cfg := sqlbackend.Config{Dialect: "sqlite3", ConnectionString: filepath.Join(dir, "tags.db")}
	c, err := sqlbackend.NewClient(cfg, sqlbackend.UserAuthConfig{}, tally.NoopScope)
	must(err)
	return c, cfg
}

const bucket = "verif-bucket"

func (w *world) newS3(np string, listMax int, junk bool) (*s3backend.Client, *fakeS3) {
	f := newFakeS3(bucket, 8)
	var auth s3backend.AuthConfig
	auth.S3.AccessKeyID = "k"
	auth.S3.AccessSecretKey = "s"
	cfg := s3backend.Config{Username: "u", Region: "verif-1", Bucket: bucket, NamePath: np, RootDirectory: "/root",
		ListMaxKeys: listMax}
	c, err := s3backend.NewClient(cfg, s3backend.UserAuthConfig{"u": auth}, tally.NoopScope, s3backend.WithS3(f))
	must(err)
	if junk {
		// keys a real registry bucket holds next to the tag links; none of them is a tag of the client
		base := "root/docker/registry/v2/repositories/"
		for _, k := range []string{
			"alpha/_layers/sha256/aa/link",
			"alpha/_manifests/revisions/sha256/bb/link",
			"alpha/_manifests/tags/v1/index/sha256/cc/link",
			"alpha/_manifests/tags/v2/index/sha256/dd/link",
			"alpha/_uploads/x/data",
			"beta/_manifests/tags/latest/index/sha256/ee/link",
			"gamma/_layers/sha256/ff/link",
			"zeta/_layers/sha256/00/link",
		} {
			f.put(base+k, []byte("junk"))
		}
		f.put("other-root/file", []byte("junk"))
	}
	return c, f
}

func peekVia(c backend.Client) func(string) ([]byte, bool, error) {
	return func(name string) ([]byte, bool, error) {
		var b bytes.Buffer
		err := c.Download("ns", name, &b)
		if errors.Is(err, backenderrors.ErrBlobNotFound) {
			return nil, false, nil
		}
		return b.Bytes(), err == nil, err
	}
}

var kinds = []string{"testfs-id", "testfs-tag", "s3-id", "s3-tag", "sql", "shadow-sql-testfs", "shadow-testfs-sql", "shadow-s3-testfs"}

func build(kind string, rng *rand.Rand) *world {
	w := &world{kind: kind, defmax: 1000}
	listMax := []int{2, 3, 250}[rng.Intn(3)]
	switch kind {
	case "testfs-id", "testfs-tag":
		w.np, w.names, w.prefixes = namepath.Identity, idNames, idPrefixes
		root := "root"
		if kind == "testfs-tag" {
			w.np, w.names, w.prefixes, root = namepath.DockerTag, tagNames, tagPrefixes, "tags"
		}
		w.cl, _ = w.newTestfs(root, w.np)
		w.statsize, w.paging, w.emptyerr = true, "reject", true
		w.cont = contents(false)
	case "s3-id", "s3-tag":
		w.np, w.names, w.prefixes = namepath.Identity, idNames, idPrefixes
		if kind == "s3-tag" {
			w.np, w.names, w.prefixes = namepath.DockerTag, tagNames, tagPrefixes
			w.junk = rng.Intn(2) == 0
		}
		w.cl, _ = w.newS3(w.np, listMax, w.junk)
		w.statsize, w.paging, w.defmax = true, "token", listMax
		w.cont = contents(false)
	case "sql":
		w.np, w.names, w.prefixes = namepath.DockerTag, tagNames, sqlPrefixes
		w.cl, _ = w.newSQL()
		w.paging, w.sqlBased = "ignore", true
		w.cont = contents(true)
	case "shadow-sql-testfs", "shadow-testfs-sql":
		// public constructor, as in the shadowbackend README
		w.np, w.names, w.prefixes = namepath.DockerTag, tagNames, sqlPrefixes
		tc, tcfg := w.newTestfs("tags", namepath.DockerTag)
		sc, scfg := w.newSQL()
		must(sc.Close()) // the shadow client opens its own connection to the same sqlite file
		a, s := map[string]interface{}{"sql": scfg}, map[string]interface{}{"testfs": tcfg}
		w.paging = "ignore"
		if kind == "shadow-testfs-sql" {
			a, s = s, a
			w.statsize, w.paging, w.emptyerr = true, "reject", true
		}
		cl, err := shadowbackend.NewClient(shadowbackend.Config{ActiveClientConfig: a, ShadowClientConfig: s},
			backend.AuthConfig{"sql": sqlbackend.UserAuthConfig{}, "testfs": map[string]interface{}{}}, tally.NoopScope)
		must(err)
		w.cl = cl
		if kind == "shadow-testfs-sql" {
			direct, err := sqlbackend.NewClient(scfg, sqlbackend.UserAuthConfig{}, tally.NoopScope)
			must(err)
			w.cleanups = append(w.cleanups, func() { direct.Close() })
			w.peek = peekVia(direct)
		} else {
			w.peek = peekVia(tc)
		}
		w.sqlBased = true
		w.cont = contents(true)
	case "shadow-s3-testfs":
		// s3backend can get a custom S3 only through its own constructor => export-only shim VerifNewClient
		w.np, w.names, w.prefixes = namepath.Identity, idNames, idPrefixes
		ac, _ := w.newS3(w.np, listMax, false)
		tc, tcfg := w.newTestfs("root", w.np)
		direct, err := testfs.NewClient(tcfg, tally.NoopScope)
		must(err)
		w.cl = shadowbackend.VerifNewClient(ac, tc)
		w.peek = peekVia(direct)
		w.statsize, w.paging, w.defmax = true, "token", listMax
		w.cont = contents(false)
	default:
		panic("unknown kind " + kind)
	}
	return w
}

// ---- recording ------------------------------------------------------------------------------------------

func classify(err error) string {
	switch {
	case err == nil:
		return "ok"
	case errors.Is(err, backenderrors.ErrBlobNotFound):
		return "notfound"
	default:
		return "other"
	}
}

// wabuf is a destination that supports both io.Writer and io.WriterAt (like the store files kraken passes).
type wabuf struct{ *aws.WriteAtBuffer }

func (b wabuf) Write(p []byte) (int, error) { return b.WriteAt(p, int64(len(b.Bytes()))) }

type rec struct {
	c     *eng.Ctx
	w     *world
	rng   *rand.Rand
	nid   map[string]string
	toks  []string // token id k (1-based) -> real continuation token
	tokP  []int    // prefix index of token k
	last  map[int]int
	debug bool
}

func (r *rec) cid(b []byte) string {
	for i, c := range r.w.cont {
		if bytes.Equal(b, c) {
			return fmt.Sprintf("c%d", i)
		}
	}
	return "other"
}

func (r *rec) note(op string, err error) {
	if r.debug && err != nil {
		fmt.Printf("NOTE %s %s: %v\n", r.w.kind, op, err)
	}
}

func (r *rec) upload(n, ci int) {
	b := r.w.cont[ci]
	err := r.w.cl.Upload("ns", r.w.names[n], bytes.NewReader(b))
	r.note("Upload", err)
	sc := "-"
	if r.w.peek != nil {
		got, found, perr := r.w.peek(r.w.names[n])
		switch {
		case perr != nil:
			sc = "error"
		case !found:
			sc = "none"
		default:
			sc = r.cid(got)
		}
	}
	if err == nil {
		r.last[n] = ci
	}
	r.c.W.Ev("Upload", "n", fmt.Sprintf("n%d", n+1), "c", fmt.Sprintf("c%d", ci), "sz", len(b), "res", classify(err), "sc", sc)
}

func (r *rec) download(n int) {
	var err error
	var got []byte
	wa := r.rng.Intn(2) == 0
	if wa {
		dst := wabuf{aws.NewWriteAtBuffer(nil)}
		err = r.w.cl.Download("ns", r.w.names[n], dst)
		got = dst.Bytes()
	} else {
		var dst bytes.Buffer
		err = r.w.cl.Download("ns", r.w.names[n], &dst)
		got = dst.Bytes()
	}
	r.note("Download", err)
	c := r.cid(got)
	if len(got) == 0 && err != nil {
		c = "none"
	}
	r.c.W.Ev("Download", "n", fmt.Sprintf("n%d", n+1), "res", classify(err), "c", c, "sz", len(got), "wa", wa)
}

func (r *rec) stat(n int) {
	info, err := r.w.cl.Stat("ns", r.w.names[n])
	r.note("Stat", err)
	sz := 0
	if err == nil && info != nil {
		sz = int(info.Size)
	}
	r.c.W.Ev("Stat", "n", fmt.Sprintf("n%d", n+1), "res", classify(err), "sz", sz, "nilinfo", err == nil && info == nil)
}

// list issues one List call; returns the id of the continuation token it returned (0 = none).
func (r *rec) list(p int, pg bool, max int, tin int) int {
	var opts []backend.ListOption
	if pg {
		opts = append(opts, backend.ListWithPagination(), backend.ListWithMaxKeys(max))
		if tin > 0 {
			opts = append(opts, backend.ListWithContinuationToken(r.toks[tin-1]))
		}
	} else {
		max, tin = 0, 0
	}
	res, err := r.w.cl.List(r.w.prefixes[p], opts...)
	r.note("List", err)
	names := []string{}
	tout := 0
	if err == nil && res != nil {
		for _, n := range res.Names {
			id, ok := r.nid[n]
			if !ok {
				id = "other"
			}
			names = append(names, id)
		}
		if res.ContinuationToken != "" {
			r.toks = append(r.toks, res.ContinuationToken)
			r.tokP = append(r.tokP, p)
			tout = len(r.toks)
		}
	}
	r.c.W.Ev("List", "p", fmt.Sprintf("p%d", p+1), "pg", pg, "max", max, "tin", tin, "res", classify(err),
		"names", names, "tout", tout, "nilres", err == nil && res == nil)
	return tout
}

func run(c *eng.Ctx) error {
	n := c.N(160, 1200)
	debug := os.Getenv("C37_DEBUG") != ""
	c.Traces(n, func(t int, rng *rand.Rand) {
		kind := kinds[t%len(kinds)]
		// the re-upload of EMPTY content over existing content on sqlbackend (known finding F37a) is exercised in
		// one dedicated trace only: the last one of the run (so that a rejection costs no re-validation)
		emptyow := t == n-1
		if emptyow {
			kind = "sql"
		}
		w := build(kind, rng)
		defer w.cleanup()
		r := &rec{c: c, w: w, rng: rng, nid: map[string]string{}, last: map[int]int{}, debug: debug}
		und := map[string]any{}
		for i, nm := range w.names {
			r.nid[nm] = fmt.Sprintf("n%d", i+1)
		}
		for pi, p := range w.prefixes {
			l := []string{}
			for i, nm := range w.names {
				if under(w.np, p, nm) {
					l = append(l, fmt.Sprintf("n%d", i+1))
				}
			}
			und[fmt.Sprintf("p%d", pi+1)] = l
		}
		c.W.Reset(t, map[string]any{"kind": kind, "np": w.np, "statsize": w.statsize, "paging": w.paging,
			"defmax": w.defmax, "emptyerr": w.emptyerr, "shadow": w.peek != nil, "junk": w.junk,
			"emptyow": emptyow, "under": und})

		nn, np := len(w.names), len(w.prefixes)
		pickContent := func(nm int) int {
			ci := rng.Intn(len(w.cont))
			if w.sqlBased && !emptyow && ci == 0 {
				if l, ok := r.last[nm]; ok && l != 0 {
					ci = 1 + rng.Intn(len(w.cont)-1)
				}
			}
			return ci
		}
		// follow continuation tokens of a listing to its end, optionally with uploads in between
		follow := func(p, tok int, churn bool) {
			for guard := 0; tok != 0 && guard < 12; guard++ {
				if churn && rng.Intn(3) == 0 {
					nm := rng.Intn(nn)
					r.upload(nm, pickContent(nm))
				}
				tok = r.list(p, true, 1+rng.Intn(3), tok)
			}
		}
		if emptyow {
			r.upload(0, 1+rng.Intn(3))
			r.upload(0, 0)
			r.download(0)
		}
		steps := 25 + rng.Intn(30)
		for s := 0; s < steps; s++ {
			nm := rng.Intn(nn)
			switch k := rng.Intn(100); {
			case k < 32:
				r.upload(nm, pickContent(nm))
			case k < 50:
				r.download(nm)
			case k < 64:
				r.stat(nm)
			case k < 76:
				r.list(rng.Intn(np), false, 0, 0)
			case k < 92:
				p := rng.Intn(np)
				tok := r.list(p, true, 1+rng.Intn(3), 0)
				if rng.Intn(10) < 7 {
					follow(p, tok, rng.Intn(4) == 0)
				}
			default:
				// continue (or repeat) some outstanding token, possibly issued long ago
				if len(r.toks) == 0 {
					r.stat(nm)
					continue
				}
				k := 1 + rng.Intn(len(r.toks))
				tok := r.list(r.tokP[k-1], true, 1+rng.Intn(3), k)
				if rng.Intn(2) == 0 {
					follow(r.tokP[k-1], tok, false)
				}
			}
		}
		// final sweep: makes the hidden store observable at the end of every history
		for nm := 0; nm < nn; nm++ {
			r.download(nm)
			r.stat(nm)
		}
		for p := 0; p < np; p++ {
			if w.paging == "token" {
				follow(p, r.list(p, true, 1+(p+t)%3, 0), false)
			} else {
				r.list(p, false, 0, 0)
			}
		}
		for i := 0; i < 2; i++ {
			err := w.cl.Close()
			r.note("Close", err)
			c.W.Ev("Close", "res", classify(err))
		}
		c.Inc("kind_"+kind, 1)
	})
	return nil
}

var _ io.Writer = wabuf{}
