package c37

import (
	"encoding/base64"
	"io"
	"path"
	"sort"
	"strings"
	"sync"

	"github.com/aws/aws-sdk-go/aws"
	"github.com/aws/aws-sdk-go/aws/awserr"
	"github.com/aws/aws-sdk-go/service/s3"
	"github.com/aws/aws-sdk-go/service/s3/s3manager"
)

// fakeS3 is an in-memory S3 that remembers uploads. It implements exactly the four operations of
// s3backend.S3 (HeadObject, s3manager-style Download/Upload, ListObjectsV2Pages) with the observable
// behaviour of the real service / SDK:
//   - object requests (HEAD/GET/PUT) address the key through the REST URI, which the SDK cleans
//     (private/protocol/rest cleanPath: path.Clean, trailing slash kept) -- so the key "/root/x" that
//     s3backend builds from an absolute root directory IS the object "root/x"; list prefixes travel as a
//     query parameter and are not cleaned (this is why s3backend strips the leading slash when listing);
//   - HEAD of a missing key fails with a 404 awserr of code "NotFound", GET with code "NoSuchKey";
//   - Download writes the object through io.WriterAt in parts, not in offset order (the real downloader is
//     concurrent), and writes nothing for an empty object;
//   - ListObjectsV2Pages lists the keys with the given Prefix in UTF-8 binary order, at most MaxKeys per page,
//     sets IsTruncated / NextContinuationToken (opaque) when keys remain, honours ContinuationToken, and keeps
//     fetching pages while the callback returns true and the listing is truncated (SDK paginator).
type fakeS3 struct {
	mu     sync.Mutex
	bucket string
	objs   map[string][]byte
	part   int // download part size

	listCalls int // number of single-page requests served
}

func newFakeS3(bucket string, part int) *fakeS3 {
	return &fakeS3{bucket: bucket, objs: map[string][]byte{}, part: part}
}

func reqFail(code, msg string, status int) error {
	return awserr.NewRequestFailure(awserr.New(code, msg, nil), status, "VERIF-REQ")
}

// objKey maps the Key of an object request to the stored key the way the SDK's REST URI cleaning does.
func objKey(k *string) string {
	key := aws.StringValue(k)
	c := path.Clean("/" + key)
	if strings.HasSuffix(key, "/") && c != "/" {
		c += "/"
	}
	return strings.TrimPrefix(c, "/")
}

func (f *fakeS3) checkBucket(b *string) error {
	if b == nil || *b != f.bucket {
		return reqFail(s3.ErrCodeNoSuchBucket, "The specified bucket does not exist", 404)
	}
	return nil
}

// put stores an object directly (used to pre-populate keys that are not blobs of the client under test).
func (f *fakeS3) put(key string, b []byte) {
	f.mu.Lock()
	defer f.mu.Unlock()
	f.objs[key] = append([]byte(nil), b...)
}

// get reads an object directly.
func (f *fakeS3) get(key string) ([]byte, bool) {
	f.mu.Lock()
	defer f.mu.Unlock()
	b, ok := f.objs[key]
	return b, ok
}

func (f *fakeS3) HeadObject(in *s3.HeadObjectInput) (*s3.HeadObjectOutput, error) {
	if err := f.checkBucket(in.Bucket); err != nil {
		return nil, err
	}
	f.mu.Lock()
	defer f.mu.Unlock()
	b, ok := f.objs[objKey(in.Key)]
	if !ok {
		return nil, reqFail("NotFound", "Not Found", 404)
	}
	return &s3.HeadObjectOutput{ContentLength: aws.Int64(int64(len(b))), ETag: aws.String("\"verif\"")}, nil
}

func (f *fakeS3) Download(w io.WriterAt, in *s3.GetObjectInput, _ ...func(*s3manager.Downloader)) (int64, error) {
	if err := f.checkBucket(in.Bucket); err != nil {
		return 0, err
	}
	f.mu.Lock()
	b, ok := f.objs[objKey(in.Key)]
	b = append([]byte(nil), b...)
	f.mu.Unlock()
	if !ok {
		return 0, reqFail(s3.ErrCodeNoSuchKey, "The specified key does not exist.", 404)
	}
	// parts, last part first (the real downloader's workers finish in any order)
	var offs []int
	for o := 0; o < len(b); o += f.part {
		offs = append(offs, o)
	}
	var n int64
	for i := range offs {
		o := offs[(i+len(offs)-1)%len(offs)]
		e := o + f.part
		if e > len(b) {
			e = len(b)
		}
		m, err := w.WriteAt(b[o:e], int64(o))
		n += int64(m)
		if err != nil {
			return n, err
		}
	}
	return n, nil
}

func (f *fakeS3) Upload(in *s3manager.UploadInput, _ ...func(*s3manager.Uploader)) (*s3manager.UploadOutput, error) {
	if err := f.checkBucket(in.Bucket); err != nil {
		return nil, err
	}
	b, err := io.ReadAll(in.Body)
	if err != nil {
		return nil, err
	}
	f.mu.Lock()
	defer f.mu.Unlock()
	f.objs[objKey(in.Key)] = b
	return &s3manager.UploadOutput{Location: "mem://" + f.bucket + "/" + objKey(in.Key)}, nil
}

const tokPfx = "1v"

func encTok(key string) string { return tokPfx + base64.RawURLEncoding.EncodeToString([]byte(key)) }
func decTok(t string) (string, bool) {
	if !strings.HasPrefix(t, tokPfx) {
		return "", false
	}
	b, err := base64.RawURLEncoding.DecodeString(t[len(tokPfx):])
	return string(b), err == nil
}

// listOnce serves one ListObjectsV2 request.
func (f *fakeS3) listOnce(in *s3.ListObjectsV2Input) (*s3.ListObjectsV2Output, error) {
	if err := f.checkBucket(in.Bucket); err != nil {
		return nil, err
	}
	prefix := aws.StringValue(in.Prefix)
	max := int64(1000)
	if in.MaxKeys != nil {
		max = *in.MaxKeys
	}
	if max > 1000 {
		max = 1000
	}
	after, haveAfter := "", false
	if in.ContinuationToken != nil {
		k, ok := decTok(*in.ContinuationToken)
		if !ok {
			return nil, reqFail("InvalidArgument", "The continuation token provided is incorrect", 400)
		}
		after, haveAfter = k, true
	}
	f.mu.Lock()
	defer f.mu.Unlock()
	f.listCalls++
	var keys []string
	for k := range f.objs {
		if strings.HasPrefix(k, prefix) && (!haveAfter || k > after) {
			keys = append(keys, k)
		}
	}
	sort.Strings(keys)
	out := &s3.ListObjectsV2Output{
		Name: aws.String(f.bucket), Prefix: aws.String(prefix), MaxKeys: aws.Int64(max),
		ContinuationToken: in.ContinuationToken,
	}
	trunc := false
	if max < 0 {
		max = 0
	}
	if int64(len(keys)) > max {
		trunc = max > 0
		keys = keys[:max]
	}
	for _, k := range keys {
		out.Contents = append(out.Contents, &s3.Object{
			Key: aws.String(k), Size: aws.Int64(int64(len(f.objs[k]))), StorageClass: aws.String("STANDARD")})
	}
	out.KeyCount = aws.Int64(int64(len(keys)))
	out.IsTruncated = aws.Bool(trunc)
	if trunc {
		out.NextContinuationToken = aws.String(encTok(keys[len(keys)-1]))
	}
	return out, nil
}

func (f *fakeS3) ListObjectsV2Pages(in *s3.ListObjectsV2Input, fn func(*s3.ListObjectsV2Output, bool) bool) error {
	cp := *in
	for {
		page, err := f.listOnce(&cp)
		if err != nil {
			return err
		}
		more := page.NextContinuationToken != nil
		if !fn(page, !more) || !more {
			return nil
		}
		cp.ContinuationToken = page.NextContinuationToken
	}
}
