// Package c05: an origin/proxy crash at any point leaves its blob cache consistent (property C05).
//
// Upload commits, backend refreshes, persist-flag writes, metainfo generation and metainfo
// overwrites run once in a child process under strace; every prefix of the recorded file-system
// operations is materialized, the REAL store is reopened on it (NewCAStore) and probed: every listed
// blob must hash to its name, its torrent metainfo must be absent or valid, and regenerating it must work.
package c05

import (
	"bytes"
	"crypto/sha256"
	"encoding/hex"
	"encoding/json"
	"fmt"
	"io"
	"math/rand"
	"os"
	"path/filepath"
	"sort"

	"github.com/c2h5oh/datasize"
	"github.com/uber-go/tally"

	"github.com/uber/kraken/core"
	"github.com/uber/kraken/lib/metainfogen"
	"github.com/uber/kraken/lib/store"
	"github.com/uber/kraken/lib/store/metadata"

	"kvh/internal/crashlab"
	"kvh/internal/eng"
)

func init() {
	eng.Register("c05", run)
	eng.Register("c05child", child)
}

type step struct {
	Op   string `json:"op"` // upload | refresh | persist | generate | overwrite
	Blob int    `json:"blob"`
	PL   int    `json:"pl"`
	Res  string `json:"res"`
}
type scenario struct {
	Dir   string `json:"dir"`
	Seed  int64  `json:"seed"`
	Sizes []int  `json:"sizes"`
	Steps []step `json:"steps"`
}

func blob(sc scenario, i int) ([]byte, core.Digest) {
	b := make([]byte, sc.Sizes[i])
	rand.New(rand.NewSource(sc.Seed + int64(i)*31)).Read(b)
	sum := sha256.Sum256(b)
	d, _ := core.NewSHA256DigestFromHex(hex.EncodeToString(sum[:]))
	return b, d
}

func open(dir string) (*store.CAStore, *metainfogen.Generator, error) {
	cas, err := store.NewCAStore(store.CAStoreConfig{UploadDir: filepath.Join(dir, "upload"), CacheDir: filepath.Join(dir, "cache")}, tally.NoopScope)
	if err != nil {
		return nil, nil, err
	}
	g, err := metainfogen.New(metainfogen.Config{PieceLengths: map[datasize.ByteSize]datasize.ByteSize{0: 4, 16: 8}}, cas)
	if err != nil {
		return nil, nil, err
	}
	return cas, g, nil
}

func cls(err error) string {
	if err == nil {
		return "ok"
	}
	if os.IsExist(err) {
		return "exist"
	}
	return "error"
}

func child(c *eng.Ctx) error {
	path := os.Getenv("KVH_SCENARIO")
	raw, err := os.ReadFile(path)
	if err != nil {
		return err
	}
	var sc scenario
	if err := json.Unmarshal(raw, &sc); err != nil {
		return err
	}
	crashlab.Mark(0)
	cas, gen, err := open(sc.Dir)
	if err != nil {
		return err
	}
	for i := range sc.Steps {
		crashlab.Mark(i + 1)
		st := &sc.Steps[i]
		b, d := blob(sc, st.Blob)
		switch st.Op {
		case "upload": // what the origin does for PATCH + PUT (commit)
			uid := fmt.Sprintf("upload-%d", i)
			err = cas.CreateUploadFile(uid, 0)
			if err == nil {
				var w store.FileReadWriter
				w, err = cas.GetUploadFileReadWriter(uid)
				if err == nil {
					half := len(b) / 2
					w.Write(b[:half])
					w.Write(b[half:])
					w.Close()
					err = cas.MoveUploadFileToCache(uid, d.Hex())
				}
			}
		case "refresh": // blobrefresh: backend stream into the cache + metainfo
			err = cas.WriteBlobToCacheWithMetaInfo(d.Hex(), uint64(len(b)), func(w store.FileReadWriter) error {
				_, e := io.Copy(w, bytes.NewReader(b))
				return e
			}, int64(st.PL))
		case "persist":
			_, err = cas.SetCacheFileMetadata(d.Hex(), metadata.NewPersist(true))
		case "generate":
			err = gen.Generate(d)
		case "overwrite": // the overwrite-metainfo endpoint: regenerate with another piece length
			var f store.FileReader
			f, err = cas.GetCacheFileReader(d.Hex())
			if err == nil {
				var mi *core.MetaInfo
				mi, err = core.NewMetaInfo(d, f, int64(st.PL))
				f.Close()
				if err == nil {
					_, err = cas.SetCacheFileMetadata(d.Hex(), metadata.NewTorrentMeta(mi))
				}
			}
		}
		st.Res = cls(err)
	}
	crashlab.Mark(len(sc.Steps) + 1)
	out, _ := json.Marshal(sc)
	return os.WriteFile(path+".out", out, 0o644)
}

func gen(rng *rand.Rand) scenario {
	sc := scenario{Seed: rng.Int63(), Sizes: []int{1 + rng.Intn(40), rng.Intn(3) * 8, 17 + rng.Intn(20)}}
	have := map[int]bool{}
	n := 4 + rng.Intn(4)
	for i := 0; i < n; i++ {
		b := rng.Intn(len(sc.Sizes))
		if !have[b] {
			op := []string{"upload", "refresh"}[rng.Intn(2)]
			sc.Steps = append(sc.Steps, step{Op: op, Blob: b, PL: []int{4, 8, 16}[rng.Intn(3)]})
			have[b] = true
			continue
		}
		op := []string{"persist", "generate", "overwrite", "overwrite", "refresh"}[rng.Intn(5)]
		sc.Steps = append(sc.Steps, step{Op: op, Blob: b, PL: []int{3, 4, 5, 8, 16, 64}[rng.Intn(6)]})
	}
	return sc
}

func run(c *eng.Ctx) error {
	nsc := c.N(6, 48)
	root, err := os.MkdirTemp("", "kvh-c05-")
	if err != nil {
		return err
	}
	defer os.RemoveAll(root)
	self, _ := os.Executable()
	tid, prefixes := 0, 0
	for s := 0; s < nsc; s++ {
		rng := rand.New(rand.NewSource(c.Seed*7919 + int64(s)*104729 + 5))
		sc := gen(rng)
		sc.Dir = filepath.Join(root, fmt.Sprintf("s%d", s))
		os.MkdirAll(sc.Dir, 0o755)
		spath := filepath.Join(root, fmt.Sprintf("s%d.json", s))
		raw, _ := json.Marshal(sc)
		os.WriteFile(spath, raw, 0o644)
		env := append(os.Environ(), "KVH_SCENARIO="+spath)
		ops, out, err := crashlab.Record([]string{self, "c05child", "-out", filepath.Join(root, fmt.Sprintf("s%d.childout", s))}, sc.Dir, env)
		if err != nil {
			return fmt.Errorf("record scenario %d: %v\n%s", s, err, out)
		}
		rawOut, err := os.ReadFile(spath + ".out")
		if err != nil {
			return fmt.Errorf("child results: %v\n%s", err, out)
		}
		var done scenario
		json.Unmarshal(rawOut, &done)
		c.Inc("fs_ops", len(ops))
		for p := 0; p <= len(ops); p++ {
			if c.Only >= 0 && tid != c.Only {
				tid++
				continue
			}
			prefixes++
			dst := filepath.Join(root, fmt.Sprintf("m%d", tid))
			if err := crashlab.Materialize(ops, p, dst); err != nil {
				return err
			}
			mark := len(done.Steps) + 1
			if p < len(ops) {
				mark = ops[p].Mark
			}
			emit(c, tid, s, p, ops, done, mark, dst)
			os.RemoveAll(dst)
			tid++
		}
		os.RemoveAll(sc.Dir)
	}
	c.Stats["scenarios"] = nsc
	c.Stats["crash_points"] = prefixes
	c.Stats["exhaustive"] = true
	return nil
}

// metaClass classifies the stored metainfo of blob b (digest d): absent | valid | error | wrong
func metaClass(cas *store.CAStore, d core.Digest, b []byte) string {
	var tm metadata.TorrentMeta
	err := cas.GetCacheFileMetadata(d.Hex(), &tm)
	if os.IsNotExist(err) {
		return "absent"
	}
	if err != nil || tm.MetaInfo == nil {
		return "error"
	}
	mi := tm.MetaInfo
	if mi.Digest() != d || mi.Length() != int64(len(b)) || mi.PieceLength() <= 0 {
		return "wrong"
	}
	want, err := core.NewMetaInfoFromBytes(d, b, mi.PieceLength())
	if err != nil || want.InfoHash() != mi.InfoHash() {
		return "wrong"
	}
	return "valid"
}

func emit(c *eng.Ctx, tid, s, p int, ops []crashlab.Op, sc scenario, mark int, dir string) {
	lastop, nextop := "none", "none"
	if p > 0 {
		lastop = ops[p-1].String()
	}
	if p < len(ops) {
		nextop = ops[p].String()
	}
	inflight := "none"
	if mark >= 1 && mark <= len(sc.Steps) {
		inflight = sc.Steps[mark-1].Op
	}
	c.W.Reset(tid, map[string]any{"scenario": s, "prefix": p, "nops": len(ops), "lastop": lastop, "nextop": nextop, "inflight": inflight})
	// blobs whose write path had returned ok before the crash call
	committed := make([]bool, len(sc.Sizes))
	for i, st := range sc.Steps {
		if i+1 < mark && st.Res == "ok" && (st.Op == "upload" || st.Op == "refresh") {
			committed[st.Blob] = true
		}
	}
	c.W.Ev("Crash", "committed", committed, "inflight", inflight)

	res := "ok"
	var cas *store.CAStore
	var g *metainfogen.Generator
	func() {
		defer func() {
			if r := recover(); r != nil {
				res = "panic"
			}
		}()
		var err error
		cas, g, err = open(dir)
		if err != nil {
			res = "error"
		}
	}()
	n := len(sc.Sizes)
	listed, hashok, regen := make([]bool, n), make([]bool, n), make([]string, n)
	readable, rewrite := make([]bool, n), make([]string, n)
	meta := make([]string, n)
	unknown := 0
	uploadLeft := 0
	for i := range meta {
		meta[i], regen[i], rewrite[i] = "none", "none", "none"
	}
	if res == "ok" {
		names, err := cas.ListCacheFiles()
		if err != nil {
			res = "listerror"
		}
		sort.Strings(names)
		byName := map[string]int{}
		for i := 0; i < n; i++ {
			_, d := blob(sc, i)
			byName[d.Hex()] = i
		}
		for _, name := range names {
			i, ok := byName[name]
			if !ok {
				unknown++
				continue
			}
			b, d := blob(sc, i)
			listed[i] = true
			if r, err := cas.GetCacheFileReader(name); err == nil {
				got, _ := io.ReadAll(r)
				r.Close()
				readable[i] = true
				hashok[i] = bytes.Equal(got, b)
				meta[i] = metaClass(cas, d, b)
				// metainfo is regenerated on demand: the origin's getMetaInfo answers a missing metainfo by refreshing the
				// blob (blobrefresh -> WriteBlobToCacheWithMetaInfo on the already cached blob); metainfogen is the other producer
				regen[i] = meta[i]
				if meta[i] == "absent" {
					err := cas.WriteBlobToCacheWithMetaInfo(d.Hex(), uint64(len(b)), func(w store.FileReadWriter) error {
						_, e := io.Copy(w, bytes.NewReader(b))
						return e
					}, 4)
					if err != nil {
						regen[i] = "error"
					} else {
						regen[i] = metaClass(cas, d, b)
					}
				}
				if regen[i] == "valid" {
					if err := g.Generate(d); err != nil {
						regen[i] = "generror"
					} else {
						regen[i] = metaClass(cas, d, b)
					}
				}
			}
		}
		// whatever the crash left behind, every blob can be written (again) and is then served correctly
		for i := 0; i < n; i++ {
			b, d := blob(sc, i)
			err := cas.WriteBlobToCacheWithMetaInfo(d.Hex(), uint64(len(b)), func(w store.FileReadWriter) error {
				_, e := io.Copy(w, bytes.NewReader(b))
				return e
			}, 4)
			rewrite[i] = "error"
			if err == nil {
				if r, err := cas.GetCacheFileReader(d.Hex()); err == nil {
					got, _ := io.ReadAll(r)
					r.Close()
					if bytes.Equal(got, b) && metaClass(cas, d, b) == "valid" {
						rewrite[i] = "ok"
					}
				}
			}
		}
		if ents, err := os.ReadDir(filepath.Join(dir, "upload")); err == nil {
			uploadLeft = len(ents)
		}
		cas.Close()
	}
	c.W.Ev("Recover", "res", res, "listed", listed, "readable", readable, "hashok", hashok, "rewrite", rewrite, "meta", meta, "regen", regen, "unknown", unknown, "uploadleft", uploadLeft)
}
