// Package c38 records abstract cases of the real lib/dockerregistry path functions (property C38) for
// validation against spec/registry/RegistryPaths.tla.
//
// One trace = one built path (a kind, a repository, and the components the kind needs) followed by all of
// its single mutations, or - for the "look-alike" traces - many built paths whose repository components or
// tags are spelled like layout keywords.  Every case (a sequence of segment tokens) is concretised K times
// with random valid strings; ParsePath and all Get* extractors are called on the real string; the answers are
// mapped back to tokens and one record per distinct abstract outcome is logged with a count.  The driver
// asserts nothing.
package c38

import (
	"fmt"
	"math/rand"
	"sort"
	"strings"

	"github.com/uber/kraken/lib/dockerregistry"

	"kvh/internal/eng"
)

func init() { eng.Register("c38", run) }

var root0 = []string{"docker", "registry", "v2"}

var keywords = []string{"docker", "registry", "v2", "repositories", "blobs", "_manifests", "_layers", "_uploads",
	"revisions", "tags", "sha256", "link", "data", "current", "index", "startedat", "hashstates"}

var isKeyword = func() map[string]bool {
	m := map[string]bool{}
	for _, k := range keywords {
		m[k] = true
	}
	return m
}()

const (
	lower  = "abcdefghijklmnopqrstuvwxyz0123456789"
	letter = "ghijklmnopqrstuvwxyz"
	hexd   = "0123456789abcdef"
	upper  = "ABCDEFGHIJKLMNOPQRSTUVWXYZ"
)

func pick(rng *rand.Rand, set string, n int) string {
	b := make([]byte, n)
	for i := range b {
		b[i] = set[rng.Intn(len(set))]
	}
	return string(b)
}

type comp struct {
	kind   string
	repo   []string
	tag    string // for kind blob: the shard token
	digest string
	uuid   string
	algo   string
	off    string
}

const none = "-"

func (c comp) json() map[string]any {
	repo := c.repo
	if repo == nil {
		repo = []string{}
	}
	f := func(s string) string {
		if s == "" {
			return none
		}
		return s
	}
	return map[string]any{"kind": c.kind, "repo": repo, "tag": f(c.tag), "digest": f(c.digest), "uuid": f(c.uuid), "algo": f(c.algo), "off": f(c.off)}
}

func build(c comp) []string {
	pre := append(append(append([]string{}, root0...), "repositories"), c.repo...)
	switch c.kind {
	case "revision":
		return append(pre, "_manifests", "revisions", "sha256", c.digest, "link")
	case "revisions_dir":
		return append(pre, "_manifests", "revisions")
	case "tag_current":
		return append(pre, "_manifests", "tags", c.tag, "current", "link")
	case "tag_index":
		return append(pre, "_manifests", "tags", c.tag, "index", "sha256", c.digest, "link")
	case "tags_dir":
		return append(pre, "_manifests", "tags")
	case "layer_link":
		return append(pre, "_layers", "sha256", c.digest, "link")
	case "layer_data":
		return append(pre, "_layers", "sha256", c.digest, "data")
	case "upload_data":
		return append(pre, "_uploads", c.uuid, "data")
	case "upload_startedat":
		return append(pre, "_uploads", c.uuid, "startedat")
	case "upload_hs":
		return append(pre, "_uploads", c.uuid, "hashstates", c.algo)
	case "upload_hs_off":
		return append(pre, "_uploads", c.uuid, "hashstates", c.algo, c.off)
	case "blob":
		return append(append([]string{}, root0...), "blobs", "sha256", c.tag, c.digest, "data")
	}
	panic("kind " + c.kind)
}

var kinds = []string{"revision", "revisions_dir", "tag_current", "tag_index", "tags_dir", "layer_link", "layer_data",
	"upload_data", "upload_startedat", "upload_hs", "upload_hs_off", "blob"}

func mk(kind string, repo []string, tag, algo string) comp {
	c := comp{kind: kind, repo: repo}
	switch kind {
	case "revision", "layer_link", "layer_data":
		c.digest = "H1"
	case "tag_current":
		c.tag = tag
	case "tag_index":
		c.tag, c.digest = tag, "H1"
	case "upload_data", "upload_startedat":
		c.uuid = "U1"
	case "upload_hs":
		c.uuid, c.algo = "U1", algo
	case "upload_hs_off":
		c.uuid, c.algo, c.off = "U1", algo, "N1"
	case "blob":
		c.repo, c.tag, c.digest = nil, "sh-H1", "H1"
	}
	return c
}

// conc maps tokens to concrete strings for one concretisation; the class of a token is given by its spelling.
type conc struct {
	rng  *rand.Rand
	fwd  map[string]string
	back map[string]string
}

func newConc(rng *rand.Rand) *conc {
	c := &conc{rng: rng, fwd: map[string]string{}, back: map[string]string{}}
	for _, k := range keywords {
		c.back[k] = k
	}
	return c
}

func (c *conc) gen(tok string) string {
	r := c.rng
	switch {
	case isKeyword[tok]:
		return tok
	case strings.HasPrefix(tok, "UP-"):
		return strings.ToUpper(tok[3:])
	case strings.HasPrefix(tok, "sh-"):
		return c.get(tok[3:])[:2]
	case tok == "HU1":
		return strings.ToUpper(c.get("H1"))
	case tok == "HS1":
		return c.get("H1")[:63]
	case tok == "HL1":
		return c.get("H1") + pick(r, hexd, 1)
	case tok == "HZ1":
		h := []byte(c.get("H1"))
		h[5+r.Intn(50)] = letter[r.Intn(len(letter))]
		return string(h)
	case tok[0] == 'H': // valid digest whose first two characters are not both digits
		return pick(r, "abcdef", 1) + pick(r, hexd, 63)
	case tok == "r1": // repository component with a separator: [a-z0-9]+([._-][a-z0-9]+)+
		s := pick(r, lower, 2+r.Intn(6))
		for i := 0; i < 1+r.Intn(2); i++ {
			s += []string{".", "-", "_", "__"}[r.Intn(4)] + pick(r, lower, 1+r.Intn(5))
		}
		return s
	case tok == "r2", tok == "r3": // plain lower-case component containing a non-hex letter
		return pick(r, lower, 1+r.Intn(5)) + pick(r, letter, 1) + pick(r, lower, r.Intn(5))
	case tok[0] == 't': // tag with an upper-case letter and a dot: [\w][\w.-]*
		return pick(r, lower+"_", 1) + pick(r, lower+"_-", r.Intn(6)) + pick(r, upper, 1) + "." + pick(r, lower+"_.-", r.Intn(8))
	case tok[0] == 'U':
		return fmt.Sprintf("%s-%s-%s-%s-%s", pick(r, hexd, 8), pick(r, hexd, 4), pick(r, hexd, 4), pick(r, hexd, 4), pick(r, hexd, 12))
	case tok[0] == 'A': // algorithm name with upper-case letters
		return pick(r, upper, 2+r.Intn(3)) + pick(r, lower, 1+r.Intn(4))
	case tok[0] == 'N': // offset: three or more digits
		return pick(r, "123456789", 1) + pick(r, "0123456789", 2+r.Intn(7))
	case tok[0] == 'J': // junk matching [0-9a-z]+ but no digest, not two characters, not a number
		return pick(r, lower, 2+r.Intn(5)) + pick(r, letter, 1) + pick(r, lower, r.Intn(4))
	case tok[0] == 'W': // junk matching none of the character classes
		return pick(r, upper, 1+r.Intn(3)) + "-" + pick(r, lower, 1+r.Intn(3)) + "~" + pick(r, upper, 1)
	}
	panic("token " + tok)
}

func (c *conc) get(tok string) string {
	if s, ok := c.fwd[tok]; ok {
		return s
	}
	for {
		s := c.gen(tok)
		if prev, taken := c.back[s]; taken && prev != tok {
			if isKeyword[tok] {
				return s
			}
			continue
		}
		c.fwd[tok] = s
		c.back[s] = tok
		return s
	}
}

func (c *conc) tok(s string) string {
	if t, ok := c.back[s]; ok {
		return t
	}
	if len(s) > 20 {
		s = s[:20]
	}
	return "?" + s
}

func (c *conc) toks(s string) []string {
	out := []string{}
	for _, x := range strings.Split(s, "/") {
		out = append(out, c.tok(x))
	}
	return out
}

const errTok = "!err"

// call runs all eight functions on the real path and abstracts the answers.
func call(c *conc, p []string) map[string]any {
	parts := make([]string, len(p))
	for i, t := range p {
		parts[i] = c.get(t)
	}
	path := "/" + strings.Join(parts, "/")
	r := map[string]any{}
	pt, st, err := dockerregistry.ParsePath(path)
	r["perr"] = err != nil
	r["type"], r["sub"] = pt.String(), string(st)
	if repo, err := dockerregistry.GetRepo(path); err != nil {
		r["repo"] = []string{errTok}
	} else {
		r["repo"] = c.toks(repo)
	}
	if tag, cur, err := dockerregistry.GetManifestTag(path); err != nil {
		r["tag"], r["cur"] = errTok, false
	} else {
		r["tag"], r["cur"] = c.tok(tag), cur
	}
	if d, err := dockerregistry.GetManifestDigest(path); err != nil {
		r["md"] = errTok
	} else {
		r["md"] = c.tok(d.Hex())
	}
	if d, err := dockerregistry.GetLayerDigest(path); err != nil {
		r["ld"] = errTok
	} else {
		r["ld"] = c.tok(d.Hex())
	}
	if d, err := dockerregistry.GetBlobDigest(path); err != nil {
		r["bd"] = errTok
	} else {
		r["bd"] = c.tok(d.Hex())
	}
	if u, err := dockerregistry.GetUploadUUID(path); err != nil {
		r["uuid"] = errTok
	} else {
		r["uuid"] = c.tok(u)
	}
	if a, o, err := dockerregistry.GetUploadAlgoAndOffset(path); err != nil {
		r["algo"], r["off"] = errTok, errTok
	} else {
		r["algo"], r["off"] = c.tok(a), c.tok(o)
	}
	return r
}

type mcase struct {
	p   []string
	mut string
}

func splice(p []string, i, del int, ins ...string) []string {
	out := append([]string{}, p[:i]...)
	out = append(out, ins...)
	return append(out, p[i+del:]...)
}

var substKeywords = []string{"link", "data", "tags", "revisions", "current", "index", "sha256", "_manifests", "_layers",
	"_uploads", "repositories", "blobs", "startedat", "hashstates"}

// mutations returns every single mutation of p (de-duplicated, never p itself).
func mutations(p []string, full bool) []mcase {
	var out []mcase
	seen := map[string]bool{strings.Join(p, "/"): true}
	add := func(q []string, mut string) {
		k := strings.Join(q, "/")
		if seen[k] || len(q) == 0 {
			return
		}
		seen[k] = true
		out = append(out, mcase{q, mut})
	}
	for i := range p {
		add(splice(p, i, 1), fmt.Sprintf("drop@%d", i+1))
		add(splice(p, i, 0, p[i]), fmt.Sprintf("dup@%d", i+1))
		if i+1 < len(p) {
			add(splice(p, i, 2, p[i+1], p[i]), fmt.Sprintf("swap@%d", i+1))
		}
	}
	for i := 0; i <= len(p); i++ {
		for _, j := range []string{"J1", "W1"} {
			add(splice(p, i, 0, j), fmt.Sprintf("ins:%s@%d", j, i))
		}
	}
	for i, t := range p {
		subs := []string{"J1", "W1", "N1"}
		if isKeyword[t] {
			subs = append(subs, "UP-"+t)
		}
		if t == "H1" {
			subs = append(subs, "HU1", "HS1", "HL1", "HZ1", "H2")
		}
		if t == "sh-H1" {
			subs = append(subs, "sh-H2")
		}
		if t == "sha256" || t == "N1" {
			subs = append(subs, "A1")
		}
		if full {
			subs = append(subs, substKeywords...)
		} else if isKeyword[t] {
			subs = append(subs, "link", "data", "tags", "revisions", "current", "index", "_manifests", "_uploads")
		}
		tagPos := i >= 2 && p[i-1] == "tags" && p[i-2] == "_manifests"
		uuidPos := i >= 1 && p[i-1] == "_uploads"
		for _, j := range subs {
			if (tagPos || uuidPos) && (j == "_manifests" || j == "_layers" || j == "_uploads") {
				// a reserved keyword in the tag position is not a mutation but a valid tag: those paths are
				// exercised as BUILT paths in the dedicated look-alike trace (finding F38b), not here; the same
				// greedy-GetRepo effect with a reserved keyword as upload id belongs to that finding too
				continue
			}
			if j != t {
				add(splice(p, i, 1, j), fmt.Sprintf("sub:%s@%d", j, i+1))
			}
		}
	}
	return out
}

type outcome struct {
	r   map[string]any
	cnt int
}

// logCase concretises one case k times and logs the distinct outcomes.
func logCase(c *eng.Ctx, rng *rand.Rand, p []string, built *comp, mut, cls string, k int) {
	outs := map[string]*outcome{}
	var keys []string
	for i := 0; i < k; i++ {
		cc := newConc(rng)
		r := call(cc, p)
		key := fmt.Sprint(r)
		if o := outs[key]; o != nil {
			o.cnt++
		} else {
			outs[key] = &outcome{r, 1}
			keys = append(keys, key)
		}
	}
	sort.Strings(keys)
	cj := comp{kind: "mutated", repo: []string{}}.json()
	if built != nil {
		cj = built.json()
	}
	for _, key := range keys {
		o := outs[key]
		c.W.Ev("Case", "p", p, "isbuilt", built != nil, "c", cj, "mut", mut, "cls", cls, "r", o.r, "cnt", o.cnt)
	}
	c.Inc("cases", 1)
	c.Inc("calls", 8*k)
}

type plan struct {
	kind  string // "mut": one base + mutations; "lookalike": many built paths
	base  comp
	cls   string
	built []comp
	known string
}

func run(c *eng.Ctx) error {
	var plans []plan
	repos := [][]string{{"r1"}, {"r2", "r1"}}
	if !c.Quick() {
		repos = append(repos, []string{"r1", "r2", "r3"})
	}
	for _, k := range kinds {
		for ri, rp := range repos {
			if k == "blob" && ri > 0 {
				continue
			}
			algos := []string{"sha256"}
			if !c.Quick() && (k == "upload_hs" || k == "upload_hs_off") {
				algos = append(algos, "A1")
			}
			for _, a := range algos {
				plans = append(plans, plan{kind: "mut", base: mk(k, rp, "t1", a), cls: "plain"})
			}
		}
	}
	// look-alikes: repository components / tags spelled like layout keywords (built paths only)
	repoKW := []string{"blobs", "tags", "revisions", "sha256", "link", "data", "current", "index", "hashstates", "startedat", "docker", "registry", "v2"}
	tagKW := []string{"current", "index", "link", "tags", "revisions", "data", "sha256", "repositories", "blobs"}
	lookRepo := func(kw string) []comp {
		var out []comp
		for _, rp := range [][]string{{kw}, {"r1", kw}, {kw, "r1"}, {kw, kw}} {
			for _, k := range kinds {
				if k != "blob" {
					out = append(out, mk(k, rp, "t1", "sha256"))
				}
			}
		}
		return out
	}
	lookTag := func(kw string) []comp {
		var out []comp
		for _, rp := range [][]string{{"r1"}, {"r2", "r1"}} {
			out = append(out, mk("tag_current", rp, kw, ""), mk("tag_index", rp, kw, ""))
		}
		return out
	}
	var harmless []comp
	for _, kw := range repoKW {
		harmless = append(harmless, lookRepo(kw)...)
	}
	for _, kw := range tagKW {
		harmless = append(harmless, lookTag(kw)...)
	}
	plans = append(plans, plan{kind: "lookalike", cls: "keyword_lookalike", built: harmless})
	// known findings: dedicated traces
	plans = append(plans, plan{kind: "lookalike", cls: "repo_has_repositories", built: lookRepo("repositories"), known: "F38a"})
	var tagRes []comp
	for _, kw := range []string{"_manifests", "_layers", "_uploads"} {
		tagRes = append(tagRes, lookTag(kw)...)
	}
	plans = append(plans, plan{kind: "lookalike", cls: "tag_is_reserved_keyword", built: tagRes, known: "F38b"})

	k := c.N(5, 40)
	c.Traces(len(plans), func(t int, rng *rand.Rand) {
		p := plans[t]
		cfg := map[string]any{"kind": p.kind, "cls": p.cls, "known": p.known}
		if p.kind == "mut" {
			cfg["base"] = p.base.kind
			c.W.Reset(t, cfg)
			b := p.base
			path := build(b)
			logCase(c, rng, path, &b, "none", p.cls, k)
			for _, m := range mutations(path, !c.Quick()) {
				logCase(c, rng, m.p, nil, m.mut, "mutated", k)
			}
			return
		}
		c.W.Reset(t, cfg)
		for i := range p.built {
			b := p.built[i]
			logCase(c, rng, build(b), &b, "none", p.cls, k)
		}
	})
	c.Stats["exhaustive"] = true
	return nil
}
