// Package c35 records executions of the real blobclient.ClusterClient.DownloadBlob (real clusterClient/Poll,
// real clientResolver + Locations, real HTTPClients) against scripted httptest origins that answer 200 with
// the whole blob, cut the connection after k body bytes (declared Content-Length or chunked), 202, 5xx, 404,
// 403 or drop the connection (property C35). Verdicts come from spec/cluster/ClusterDownload.tla.
package c35

import (
	"bytes"
	"context"
	"errors"
	"fmt"
	"io"
	"math/rand"
	"net/http"
	"net/http/httptest"
	"os"
	"path/filepath"
	"strings"
	"sync"

	"github.com/uber/kraken/core"
	"github.com/uber/kraken/lib/hostlist"
	"github.com/uber/kraken/origin/blobclient"
	"github.com/uber/kraken/utils/stringset"

	"kvh/internal/eng"
)

func init() { eng.Register("c35", run) }

// staticList is a hostlist.List over fixed addresses (hostlist.Fixture cannot build an empty cluster).
type staticList []string

func (l staticList) Resolve() stringset.Set { return stringset.New(l...) }

var _ hostlist.List = staticList(nil)

const (
	rFull = 200
	rCut  = 1
	rNet  = 0
)

type answer struct {
	r int // rFull, rCut, rNet or a status code
	k int // bytes sent when r == rCut
}

type scenario struct {
	origins [][]answer // per origin: answers to successive download requests (past the end: 500)
	n       int
	chunked bool
	dstKind string // "buf" | "file"
	flag    string
}

type event struct {
	name string
	kv   []any
}

type recorder struct {
	mu  sync.Mutex
	evs []event
}

func (r *recorder) ev(name string, kv ...any) {
	r.mu.Lock()
	r.evs = append(r.evs, event{name, kv})
	r.mu.Unlock()
}

// bufWriter is a plain io.Writer (no Seek, no ReadFrom).
type bufWriter struct {
	mu sync.Mutex
	b  bytes.Buffer
}

func (w *bufWriter) Write(p []byte) (int, error) {
	w.mu.Lock()
	defer w.mu.Unlock()
	return w.b.Write(p)
}
func (w *bufWriter) Len() int {
	w.mu.Lock()
	defer w.mu.Unlock()
	return w.b.Len()
}

type origin struct {
	idx     int
	srv     *httptest.Server
	mu      sync.Mutex
	script  []answer
	next    int
	blob    []byte
	chunked bool
	rec     *recorder
	dstLen  func() int
	locs    *string
}

func hijackWrite(w http.ResponseWriter, raw []byte) {
	hj, ok := w.(http.Hijacker)
	if !ok {
		return
	}
	c, bw, err := hj.Hijack()
	if err != nil {
		return
	}
	bw.Write(raw)
	bw.Flush()
	c.Close()
}

func (o *origin) handle(w http.ResponseWriter, r *http.Request) {
	if strings.HasSuffix(r.URL.Path, "/locations") {
		w.Header().Set("Origin-Locations", *o.locs)
		w.WriteHeader(200)
		return
	}
	if r.Method != "GET" || !strings.HasPrefix(r.URL.Path, "/namespace/") {
		w.WriteHeader(418)
		return
	}
	o.mu.Lock()
	a := answer{r: 500}
	if o.next < len(o.script) {
		a = o.script[o.next]
	}
	o.next++
	o.mu.Unlock()
	n := len(o.blob)
	o.rec.ev("Req", "o", o.idx, "r", a.r, "k", a.k, "pre", o.dstLen())
	switch a.r {
	case rFull:
		if o.chunked {
			fl, _ := w.(http.Flusher)
			for off := 0; off < n; off += 7000 {
				end := off + 7000
				if end > n {
					end = n
				}
				w.Write(o.blob[off:end])
				if fl != nil {
					fl.Flush()
				}
			}
			if n == 0 && fl != nil {
				fl.Flush()
			}
		} else {
			w.Header().Set("Content-Length", fmt.Sprint(n))
			w.Write(o.blob)
		}
	case rCut:
		var raw bytes.Buffer
		if o.chunked {
			raw.WriteString("HTTP/1.1 200 OK\r\nContent-Type: application/octet-stream\r\nTransfer-Encoding: chunked\r\n\r\n")
			if a.k > 0 {
				fmt.Fprintf(&raw, "%x\r\n", a.k)
				raw.Write(o.blob[:a.k])
				raw.WriteString("\r\n")
			}
		} else {
			fmt.Fprintf(&raw, "HTTP/1.1 200 OK\r\nContent-Type: application/octet-stream\r\nContent-Length: %d\r\n\r\n", n)
			raw.Write(o.blob[:a.k])
		}
		hijackWrite(w, raw.Bytes())
	case rNet:
		hijackWrite(w, nil)
	default:
		w.WriteHeader(a.r)
		io.WriteString(w, "scripted\n")
	}
}

var failover = []int{rCut, -1 /* cut0 */, 500, rNet}
var terminal = []int{rFull, 404, 403}

// patterns enumerates every effective answer pattern over no origins: a run of fail-over answers followed by a
// terminal one, or fail-over answers on all origins. -1 stands for a cut before the first body byte.
func patterns(no int) [][]int {
	var out [][]int
	var rec func(cur []int)
	rec = func(cur []int) {
		if len(cur) == no {
			out = append(out, append([]int{}, cur...))
			return
		}
		for _, t := range terminal {
			out = append(out, append(append([]int{}, cur...), t))
		}
		for _, f := range failover {
			rec(append(cur, f))
		}
	}
	rec(nil)
	return out
}

type pat struct {
	no int
	p  []int
}

func inF35Class(p []int) bool { // generator precondition: a partial delivery followed by a complete one
	part := false
	for _, x := range p {
		if x == rCut {
			part = true
		}
		if x == rFull && part {
			return true
		}
	}
	return false
}

func build(p pat, rng *rand.Rand, quick bool) scenario {
	s := scenario{flag: "none"}
	s.n = []int{1, 2, 1000, 100000}[rng.Intn(4)]
	if !hasCut(p.p) && rng.Intn(6) == 0 {
		s.n = 0
	}
	for _, x := range p.p {
		if x == rCut && s.n < 2 {
			s.n = 2 // a partial delivery needs 0 < k < n
		}
	}
	s.chunked = rng.Intn(2) == 0
	s.dstKind = []string{"buf", "buf", "file"}[rng.Intn(3)]
	budget202 := 1
	if !quick {
		budget202 = 2
	}
	for i := 0; i < p.no; i++ {
		var sc []answer
		if i < len(p.p) {
			if rng.Intn(8) == 0 && budget202 > 0 { // blob still being fetched: costs one real poll interval (~1s)
				sc = append(sc, answer{r: 202})
				budget202--
			}
			x := p.p[i]
			switch x {
			case rCut:
				k := 1
				if s.n > 2 {
					k = []int{1, s.n / 2, s.n - 1}[rng.Intn(3)]
				}
				sc = append(sc, answer{r: rCut, k: k})
			case -1:
				sc = append(sc, answer{r: rCut, k: 0})
			case 500:
				sc = append(sc, answer{r: []int{500, 502, 503, 504}[rng.Intn(4)]})
			case 403:
				sc = append(sc, answer{r: []int{403, 400, 409}[rng.Intn(3)]})
			default:
				sc = append(sc, answer{r: x})
			}
		}
		s.origins = append(s.origins, sc)
	}
	return s
}

func hasCut(p []int) bool {
	for _, x := range p {
		if x == rCut || x == -1 {
			return true
		}
	}
	return false
}

func run(c *eng.Ctx) error {
	maxNo, variants := 3, 2
	if !c.Quick() {
		maxNo, variants = 4, 4
	}
	var pats []pat
	skipped := 0
	for no := 1; no <= maxNo; no++ {
		for _, p := range patterns(no) {
			if inF35Class(p) {
				skipped++
				continue
			}
			pats = append(pats, pat{no, p})
		}
	}
	c.Stats["patterns"] = len(pats)
	c.Stats["patterns_in_f35_class"] = skipped
	dedicated := []scenario{
		{origins: [][]answer{{{rCut, 300}}, {{rFull, 0}}}, n: 1000, dstKind: "buf", flag: "partial_then_full"},
		{origins: [][]answer{{{rNet, 0}}, {{rCut, 99999}}, {{503, 0}}, {{rFull, 0}}}, n: 100000, chunked: true, dstKind: "file", flag: "partial_then_full"},
		{origins: [][]answer{}, n: 10, dstKind: "buf", flag: "none"}, // empty cluster: resolve fails
	}
	nBulk := len(pats) * variants
	total := nBulk + len(dedicated)
	recs := make([]*recorder, total)
	cfgs := make([]map[string]any, total)
	var wg sync.WaitGroup
	sem := make(chan struct{}, 24)
	c.Traces(total, func(t int, rng *rand.Rand) {
		var s scenario
		if t >= nBulk {
			s = dedicated[t-nBulk]
		} else {
			s = build(pats[t%len(pats)], rng, c.Quick())
		}
		// blob[0] occurs nowhere else, so no concatenation of two or more prefixes can equal the blob by accident
		// (the specification abstracts dst to a sequence of prefix lengths)
		blob := make([]byte, s.n)
		rng.Read(blob)
		for i := range blob {
			if blob[i] == 0xFF {
				blob[i] = 0x7F
			}
		}
		if s.n > 0 {
			blob[0] = 0xFF
		}
		rec := &recorder{}
		recs[t] = rec
		var script []any
		for _, o := range s.origins {
			var one []int
			for _, a := range o {
				one = append(one, a.r, a.k)
			}
			if one == nil {
				one = []int{}
			}
			script = append(script, one)
		}
		if script == nil {
			script = []any{}
		}
		cfgs[t] = map[string]any{"f35": s.flag, "n": s.n, "chunked": s.chunked, "dst": s.dstKind, "script": script}
		wg.Add(1)
		sem <- struct{}{}
		go func() {
			defer wg.Done()
			defer func() { <-sem }()
			exec(c, t, &s, blob, rec)
		}()
	})
	wg.Wait()
	for t := 0; t < total; t++ {
		if recs[t] == nil {
			continue
		}
		c.W.Reset(t, cfgs[t])
		for _, e := range recs[t].evs {
			c.W.Ev(e.name, e.kv...)
		}
	}
	return nil
}

func exec(c *eng.Ctx, t int, s *scenario, blob []byte, rec *recorder) {
	var dstLen func() int
	var dst io.Writer
	var buf *bufWriter
	var file *os.File
	if s.dstKind == "file" {
		f, err := os.Create(filepath.Join(c.Out, fmt.Sprintf("dst-%d.bin", t)))
		if err != nil {
			panic(err)
		}
		file, dst = f, f
		dstLen = func() int { return -1 }
	} else {
		buf = &bufWriter{}
		dst = buf
		dstLen = buf.Len
	}
	locs := new(string)
	var origins []*origin
	var addrs []string
	for i, sc := range s.origins {
		o := &origin{idx: i + 1, script: sc, blob: blob, chunked: s.chunked, rec: rec, dstLen: dstLen, locs: locs}
		o.srv = httptest.NewUnstartedServer(http.HandlerFunc(o.handle))
		// one connection per request: the transport never silently re-sends a GET on a reused connection
		o.srv.Config.SetKeepAlivesEnabled(false)
		o.srv.Start()
		origins = append(origins, o)
		addrs = append(addrs, strings.TrimPrefix(o.srv.URL, "http://"))
	}
	*locs = strings.Join(addrs, ",")
	d, err := core.NewDigester().FromBytes(blob)
	if err != nil {
		panic(err)
	}
	cc := blobclient.NewClusterClient(blobclient.NewClientResolver(blobclient.NewProvider(), staticList(addrs)))

	rec.ev("Download", "no", len(s.origins), "n", len(blob), "seek", s.dstKind == "file")
	err = cc.DownloadBlob(context.Background(), "verif/ns", d, dst)
	res := "err"
	switch {
	case err == nil:
		res = "ok"
	case errors.Is(err, blobclient.ErrBlobNotFound):
		res = "nf"
	}
	var got []byte
	if file != nil {
		name := file.Name()
		file.Close()
		got, _ = os.ReadFile(name)
		os.Remove(name)
	} else {
		got = buf.b.Bytes()
	}
	rec.ev("Return", "res", res, "dstlen", len(got), "eq", bytes.Equal(got, blob))
	for _, o := range origins {
		o.srv.Close()
	}
}
