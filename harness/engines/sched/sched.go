// Package sched drives a REAL agent scheduler (lib/torrent/scheduler) for properties C17 and C18
// (and the system half of C20) and records one event per serialized scheduler event / async step.
//
// The scheduler is built by an export-only shim (NewVerifAgentScheduler) exactly like NewAgentScheduler
// but with a mock clock, announcing disabled and a gated event loop: every dispatcherCompleteEvent
// (the asynchronous completion notice) is parked until the driver flushes it, so "the torrent is
// complete but its notice has not been applied" is a forced state.  The remote peer is played by the
// driver through dispatch.Messages (no network): it answers piece requests and requests pieces itself.
package sched

import (
	"bytes"
	"crypto/sha256"
	"encoding/hex"
	"fmt"
	"io"
	"math/rand"
	"os"
	"sync"
	"time"

	"github.com/andres-erbsen/clock"
	"github.com/uber-go/tally"
	"github.com/willf/bitset"

	"github.com/uber/kraken/core"
	"github.com/uber/kraken/gen/go/proto/p2p"
	"github.com/uber/kraken/lib/store"
	"github.com/uber/kraken/lib/torrent/networkevent"
	"github.com/uber/kraken/lib/torrent/scheduler"
	"github.com/uber/kraken/lib/torrent/scheduler/announcequeue"
	"github.com/uber/kraken/lib/torrent/scheduler/conn"
	"github.com/uber/kraken/lib/torrent/storage/agentstorage"
	"github.com/uber/kraken/lib/torrent/storage/piecereader"
	"github.com/uber/kraken/tracker/metainfoclient"

	"kvh/internal/eng"
)

func init() {
	eng.Register("c17", func(c *eng.Ctx) error { return run(c, "c17") })
	eng.Register("c18", func(c *eng.Ctx) error { return run(c, "c18") })
}

// ---- gate
type gate struct {
	applied chan string
}

func (g *gate) Defer(name string) bool { return name == "scheduler.dispatcherCompleteEvent" }
func (g *gate) Applied(name string) {
	select {
	case g.applied <- name:
	default:
	}
}
func (g *gate) wait(name string, d time.Duration) bool {
	t := time.After(d)
	for {
		select {
		case n := <-g.applied:
			if n == name {
				return true
			}
		case <-t:
			return false
		}
	}
}
func (g *gate) drain() {
	for {
		select {
		case <-g.applied:
		default:
			return
		}
	}
}

// ---- the peer played by the driver
type fakePeer struct {
	mu       sync.Mutex
	recv     chan *conn.Message
	closed   bool
	reqs     chan int // piece indices the dispatcher asked us for
	payloads chan int // piece payloads the dispatcher sent us (fully read and closed)
}

func newFakePeer() *fakePeer {
	return &fakePeer{recv: make(chan *conn.Message, 16), reqs: make(chan int, 64), payloads: make(chan int, 64)}
}
func (f *fakePeer) Send(m *conn.Message) error {
	switch m.Message.Type {
	case p2p.Message_PIECE_REQUEST:
		f.reqs <- int(m.Message.PieceRequest.Index)
	case p2p.Message_PIECE_PAYLOAD:
		io.Copy(io.Discard, m.Payload)
		m.Payload.Close() // what conn.sendPiecePayload does
		f.payloads <- int(m.Message.PiecePayload.Index)
	}
	return nil
}
func (f *fakePeer) Receiver() <-chan *conn.Message { return f.recv }
func (f *fakePeer) Close() {
	f.mu.Lock()
	defer f.mu.Unlock()
	if !f.closed {
		f.closed = true
		close(f.recv)
	}
}
func (f *fakePeer) isClosed() bool {
	f.mu.Lock()
	defer f.mu.Unlock()
	return f.closed
}
func (f *fakePeer) deliver(m *conn.Message) bool {
	f.mu.Lock()
	defer f.mu.Unlock()
	if f.closed {
		return false
	}
	f.recv <- m
	return true
}

type aqRec struct {
	announcequeue.Queue
	mu   sync.Mutex
	log  []string
	main core.InfoHash // only calls for the torrent under observation are logged (bystander torrents are not)
}

func (a *aqRec) rec(h core.InfoHash, s string) {
	if h != a.main {
		return
	}
	a.mu.Lock()
	a.log = append(a.log, s)
	a.mu.Unlock()
}
func (a *aqRec) Add(h core.InfoHash)   { a.rec(h, "Add"); a.Queue.Add(h) }
func (a *aqRec) Eject(h core.InfoHash) { a.rec(h, "Eject"); a.Queue.Eject(h) }
func (a *aqRec) take() []string {
	a.mu.Lock()
	defer a.mu.Unlock()
	l := a.log
	a.log = nil
	if l == nil {
		l = []string{}
	}
	return l
}

const tmo = 3 * time.Second

func run(c *eng.Ctx, mode string) error {
	n := c.N(60, 1200)
	root, err := os.MkdirTemp("", "kvh-sched-")
	if err != nil {
		return err
	}
	defer os.RemoveAll(root)
	skipped := 0
	c.Traces(n, func(t int, rng *rand.Rand) {
		if !one(c, t, rng, mode, fmt.Sprintf("%s/t%d", root, t)) {
			skipped++
		}
	})
	c.Stats["skipped"] = skipped
	if c.Only < 0 && skipped*5 > n {
		return fmt.Errorf("dead driver: %d of %d schedules could not be driven", skipped, n)
	}
	return nil
}

func one(c *eng.Ctx, t int, rng *rand.Rand, mode, dir string) bool {
	defer os.RemoveAll(dir)
	const npieces = 2
	const pl = 4
	blob := make([]byte, npieces*pl)
	rng.Read(blob)
	sum := sha256.Sum256(blob)
	d, _ := core.NewSHA256DigestFromHex(hex.EncodeToString(sum[:]))
	mi, err := core.NewMetaInfoFromBytes(d, blob, pl)
	if err != nil {
		panic(err)
	}
	h := mi.InfoHash()
	cads, err := store.NewCADownloadStore(store.CADownloadStoreConfig{DownloadDir: dir + "/download", CacheDir: dir + "/cache"}, tally.NoopScope)
	if err != nil {
		panic(err)
	}
	defer cads.Close()
	tc := metainfoclient.NewTestClient()
	tc.Upload(mi)
	ta := agentstorage.NewTorrentArchive(tally.NoopScope, cads, tc)
	clk := clock.NewMock()
	clk.Set(time.Unix(1700000000, 0))
	const tti = 2
	cfg := scheduler.Config{SeederTTI: tti * time.Second, LeecherTTI: tti * time.Second, ConnTTI: time.Hour, ConnTTL: time.Hour,
		DisablePreemption: true, EmitStatsInterval: time.Hour, PreemptionInterval: time.Hour, ProbeTimeout: tmo}
	cfg.Dispatch.PieceRequestMinTimeout = time.Hour
	g := &gate{applied: make(chan string, 256)}
	aq := &aqRec{Queue: announcequeue.New(), main: h}
	pctx := core.PeerContextFixture()
	pctx.Port = 0
	vs, err := scheduler.NewVerifAgentScheduler(cfg, ta, pctx, clk, g, aq, networkevent.NewTestProducer())
	if err != nil {
		panic(err)
	}
	s := vs.Scheduler()
	stopped := false
	defer func() {
		if !stopped {
			s.Stop()
		}
	}()
	// ---- bystander torrents in the same scheduler (not part of the recorded history: torrents are independent of each
	// other, so whatever happens to them must not show in the history of the torrent under observation): an idle seeder
	// (complete, never served) and/or an idle leecher (in progress, never receives a piece).  Both go idle, and are
	// dropped by preemption ticks, at times at which the observed torrent may be perfectly active.
	bystanders := []string{}
	addBystander := func(complete bool) {
		bb := make([]byte, npieces*pl)
		rng.Read(bb)
		bsum := sha256.Sum256(bb)
		bd, _ := core.NewSHA256DigestFromHex(hex.EncodeToString(bsum[:]))
		bmi, err := core.NewMetaInfoFromBytes(bd, bb, pl)
		if err != nil {
			panic(err)
		}
		tc.Upload(bmi)
		if complete {
			bt, err := ta.CreateTorrent("ns", bd)
			if err != nil {
				panic(err)
			}
			for i := 0; i < npieces; i++ {
				if err := bt.WritePiece(piecereader.NewBuffer(append([]byte{}, bb[i*pl:(i+1)*pl]...)), i); err != nil {
					panic(err)
				}
			}
		}
		g.drain()
		go s.Download("ns", bd) // a complete one returns at once; an in-progress one returns when it is dropped or at Stop
		g.wait("scheduler.newTorrentEvent", tmo)
		if complete {
			g.wait("deferred:scheduler.dispatcherCompleteEvent", tmo)
			for vs.Deferred() > 0 {
				vs.Flush()
			}
		}
		g.drain()
		bystanders = append(bystanders, map[bool]string{true: "seeder", false: "leecher"}[complete])
	}
	if by := rng.Intn(4); mode == "c18" || by == 0 {
		switch rng.Intn(3) {
		case 0:
			addBystander(true)
		case 1:
			addBystander(false)
		default:
			addBystander(true)
			addBystander(false)
		}
	}
	c.W.Reset(t, map[string]any{"npieces": npieces, "tti": tti, "mode": mode, "bystanders": bystanders})

	reqNames := []string{"r1", "r2", "r3"}
	issued := 0
	rets := make(chan [2]string, 8)
	returned := map[string]bool{}
	var peer *fakePeer
	cacheState := func() string {
		if _, err := cads.Cache().GetFileStat(d.Hex()); err == nil {
			return "full"
		}
		if _, err := cads.Download().GetFileStat(d.Hex()); err == nil {
			return "partial"
		}
		return "absent"
	}
	observe := func(kv []any) ([]any, scheduler.VerifSnapshot) {
		snap, _ := vs.Snapshot(h)
		return append(kv, "hasctl", snap.HasControl, "waiters", snap.Waiters, "cache", cacheState(), "notices", vs.Deferred(), "aq", aq.take()), snap
	}
	collect := func(wait time.Duration) {
		deadline := time.After(wait)
		for {
			select {
			case r := <-rets:
				returned[r[0]] = true
				c.W.Ev("Ret", "r", r[0], "res", r[1])
			case <-deadline:
				return
			default:
				if wait == 0 {
					return
				}
				time.Sleep(time.Millisecond)
			}
		}
	}
	ev := func(name string, kv ...any) scheduler.VerifSnapshot {
		out, snap := observe(kv)
		c.W.Ev(name, out...)
		collect(0)
		return snap
	}
	drift := func(why string) bool {
		c.W.Ev("Drift", "why", why)
		return false
	}
	attach := func(full bool) bool {
		peer = newFakePeer()
		b := bitset.New(uint(npieces))
		if full {
			for i := 0; i < npieces; i++ {
				b.Set(uint(i))
			}
		}
		return vs.AddPeer(h, core.PeerIDFixture(), b, peer) == nil
	}
	classify := func(err error) string {
		switch err {
		case nil:
			return "ok"
		case scheduler.ErrTorrentNotFound:
			return "notfound"
		case scheduler.ErrTorrentTimeout:
			return "timeout"
		case scheduler.ErrTorrentRemoved:
			return "removed"
		case scheduler.ErrSchedulerStopped:
			return "stopped"
		}
		return "other"
	}

	steps := 6 + rng.Intn(10)
	for i := 0; i < steps; i++ {
		snap, _ := vs.Snapshot(h)
		cs := cacheState()
		var choices []string
		if issued < len(reqNames) {
			choices = append(choices, "Download", "Download")
		}
		if snap.HasControl && cs == "partial" {
			choices = append(choices, "RecvPiece", "RecvPiece", "RecvPiece")
		}
		if snap.HasControl && cs == "full" {
			choices = append(choices, "ServePiece")
			if mode == "c18" {
				choices = append(choices, "ServePiece", "ServePiece")
			}
		}
		if vs.Deferred() > 0 {
			choices = append(choices, "ApplyNotice")
		}
		choices = append(choices, "Remove", "PreemptTick", "Tick")
		if mode == "c18" {
			choices = append(choices, "Tick", "Tick", "PreemptTick")
		}
		switch a := choices[rng.Intn(len(choices))]; a {
		case "Download":
			r := reqNames[issued]
			issued++
			g.drain()
			go func() {
				err := s.Download("ns", d)
				rets <- [2]string{r, classify(err)}
			}()
			if !g.wait("scheduler.newTorrentEvent", tmo) {
				return drift("Download: newTorrentEvent not applied")
			}
			if !snap.HasControl && cs == "full" {
				// a dispatcher created on a complete torrent sends its completion notice at once
				if !g.wait("deferred:scheduler.dispatcherCompleteEvent", tmo) {
					return drift("Download: no completion notice for a complete torrent")
				}
			}
			ev("Download", "r", r)
		case "RecvPiece":
			if peer == nil || peer.isClosed() {
				if !attach(true) {
					return drift("cannot attach peer")
				}
			}
			var idx int
			select {
			case idx = <-peer.reqs:
			case <-time.After(tmo):
				return drift("RecvPiece: dispatcher did not request a piece")
			}
			before, _ := ta.Stat("ns", d)
			nb := 0
			if before != nil {
				nb = int(before.Bitfield().Count())
			}
			g.drain()
			payload := append([]byte{}, blob[idx*pl:(idx+1)*pl]...)
			if !peer.deliver(conn.NewPiecePayloadMessage(idx, piecereader.NewBuffer(payload))) {
				return drift("RecvPiece: peer closed")
			}
			last := nb+1 == npieces
			if last {
				if !g.wait("deferred:scheduler.dispatcherCompleteEvent", tmo) {
					return drift("RecvPiece: no completion notice after the last piece")
				}
			} else {
				ok := false
				for w := 0; w < 3000 && !ok; w++ {
					if st, err := ta.Stat("ns", d); err == nil && int(st.Bitfield().Count()) == nb+1 {
						ok = true
					} else {
						time.Sleep(time.Millisecond)
					}
				}
				if !ok {
					return drift("RecvPiece: piece not written")
				}
			}
			ev("RecvPiece", "piece", idx, "last", last)
		case "ServePiece":
			if peer == nil || peer.isClosed() {
				if !attach(false) {
					return drift("cannot attach peer")
				}
			}
			idx := rng.Intn(npieces)
			if !peer.deliver(conn.NewPieceRequestMessage(idx, pl)) {
				return drift("ServePiece: peer closed")
			}
			select {
			case <-peer.payloads:
			case <-time.After(tmo):
				return drift("ServePiece: no payload")
			}
			ev("ServePiece", "piece", idx)
		case "ApplyNotice":
			if !vs.Flush() {
				return drift("flush failed")
			}
			ev("ApplyNotice", "n", 1)
		case "Remove":
			err := s.RemoveTorrent(d)
			ev("Remove", "res", classify(err))
		case "PreemptTick":
			if !vs.PreemptionTick() {
				return drift("preemption tick failed")
			}
			ev("PreemptTick")
		case "Tick":
			clk.Add(time.Second)
			ev("Tick")
		}
	}
	// wind down: stop the scheduler; every Download call must have returned by then
	// in half of the schedules the notices still in flight are delivered before the scheduler stops; in the
	// other half the scheduler is stopped while a completion notice is still parked (shutdown must answer the waiters)
	for rng.Intn(2) == 0 && vs.Deferred() > 0 {
		vs.Flush()
		ev("ApplyNotice", "n", 1)
	}
	s.Stop()
	stopped = true
	c.W.Ev("Stop")
	collect(50 * time.Millisecond)
	for i := 0; i < issued; i++ {
		if !returned[reqNames[i]] {
			collect(tmo)
			break
		}
	}
	never := []string{}
	for i := 0; i < issued; i++ {
		if !returned[reqNames[i]] {
			never = append(never, reqNames[i])
		}
	}
	cached := false
	if r, err := cads.Cache().GetFileReader(d.Hex()); err == nil {
		b, _ := io.ReadAll(r)
		r.Close()
		cached = bytes.Equal(b, blob)
	}
	c.W.Ev("End", "never", never, "cache", cacheState(), "cachedok", cached)
	return true
}
