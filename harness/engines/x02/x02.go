// Package x02 records histories of the tracker's request handling (extension module X02) for
// validation against spec/tracker/TrackerServer.tla.
//
// Real parts: originstore.New(...) (the origin store with its two dedup limiters on a mock clock),
// trackerserver.Server's HTTP handler (chi router, handler.Wrap, both announce endpoints, metainfo,
// readiness, health), peerhandoutpolicy.PriorityPolicy, blobclient.NewClientResolver +
// blobclient.NewClusterClient + blobclient.Locations (the glue tracker/cmd wires in), the JSON types of
// announceclient, core.MetaInfo (de)serialization.
//
// Fakes (the environment of the specification): a blobclient.Provider whose clients answer
// Locations / GetPeerContext / GetMetaInfo / CheckReadiness from a scripted origin cluster state
// (every answer is logged as one event carrying the caller), a peerstore.Store whose UpdatePeer /
// GetPeers outcomes are scripted (errors, random samples of a population), a host list.
//
// Families: "seq" - one caller, 30-70 steps (requests of every kind, clock advances, cluster state
// flips); "conc" - three goroutines whose dependency calls are gates: the driver releases one at a
// time, advances the clock and flips the cluster state in between, so that requests overlap at every
// step the specification has; "probe" - single malformed requests.
package x02

import (
	"bytes"
	"crypto/sha256"
	"encoding/hex"
	"encoding/json"
	"errors"
	"fmt"
	"math/rand"
	"net/http"
	"net/http/httptest"
	"net/url"
	"runtime"
	"strconv"
	"sync"
	"time"

	"github.com/andres-erbsen/clock"
	"github.com/uber-go/tally"

	"github.com/uber/kraken/core"
	"github.com/uber/kraken/lib/backend"
	"github.com/uber/kraken/origin/blobclient"
	"github.com/uber/kraken/tracker/announceclient"
	"github.com/uber/kraken/tracker/originstore"
	"github.com/uber/kraken/tracker/peerhandoutpolicy"
	"github.com/uber/kraken/tracker/trackerserver"
	"github.com/uber/kraken/utils/httputil"
	"github.com/uber/kraken/utils/stringset"

	"kvh/internal/eng"
)

func init() { eng.Register("x02", run) }

const (
	nOrigins = 4
	nDigests = 2
	nHashes  = 2
	nPeers   = 6
	nCallers = 3
)

// ---------------------------------------------------------------------------------------------
// the fixed small world: model names <-> real kraken values

type world struct {
	base     time.Time
	oaddr    []string           // origin addresses (what Locations returns, what Provide receives)
	octx     []core.PeerContext // what the origin's /internal/peercontext answers
	digests  []core.Digest      // d1..dN
	hashes   []core.InfoHash    // h1..hN
	peers    []*core.PeerInfo   // p1..pN as incomplete peers (identity + address)
	mis      [][]*core.MetaInfo // [origin][digest]: distinct piece lengths per origin
	misRaw   [][]string
	oidx     map[string]int
	dname    map[core.Digest]string
	hname    map[core.InfoHash]string
	pidx     map[core.PeerID]int
	originID map[core.PeerID]int
}

func newWorld() *world {
	w := &world{base: time.Unix(1700000000-1700000000%3600, 0), oidx: map[string]int{}, dname: map[core.Digest]string{},
		hname: map[core.InfoHash]string{}, pidx: map[core.PeerID]int{}, originID: map[core.PeerID]int{}}
	blobs := [][]byte{}
	for i := 1; i <= nDigests; i++ {
		blob := []byte(fmt.Sprintf("verif-x02-blob-%d-0123456789abcdefghijklmnopqrstuvwxyz", i))
		sum := sha256.Sum256(blob)
		d, err := core.NewSHA256DigestFromHex(hex.EncodeToString(sum[:]))
		if err != nil {
			panic(err)
		}
		blobs = append(blobs, blob)
		w.digests = append(w.digests, d)
		w.dname[d] = fmt.Sprintf("d%d", i)
	}
	w.dname[backend.ReadinessCheckDigest] = "dr"
	for i := 1; i <= nHashes; i++ {
		h := core.NewInfoHashFromBytes([]byte(fmt.Sprintf("verif-x02-torrent-%d", i)))
		w.hashes = append(w.hashes, h)
		w.hname[h] = fmt.Sprintf("h%d", i)
	}
	for i := 1; i <= nPeers; i++ {
		id, err := core.HashedPeerID(fmt.Sprintf("verif-x02-peer-%d", i))
		if err != nil {
			panic(err)
		}
		w.peers = append(w.peers, core.NewPeerInfo(id, fmt.Sprintf("10.0.%d.%d", i, 10+i), 7000+i, false, false))
		w.pidx[id] = i - 1
	}
	for i := 1; i <= nOrigins; i++ {
		id, err := core.HashedPeerID(fmt.Sprintf("verif-x02-origin-%d", i))
		if err != nil {
			panic(err)
		}
		addr := fmt.Sprintf("origin%d.x02.test:15002", i)
		w.oaddr = append(w.oaddr, addr)
		w.oidx[addr] = i - 1
		w.originID[id] = i - 1
		w.octx = append(w.octx, core.PeerContext{IP: fmt.Sprintf("10.9.%d.1", i), Port: 9000 + i, PeerID: id,
			Zone: "z", Cluster: "x02", Origin: true})
		var row []*core.MetaInfo
		var raw []string
		for j := range w.digests {
			mi, err := core.NewMetaInfoFromBytes(w.digests[j], blobs[j], int64(3+i))
			if err != nil {
				panic(err)
			}
			b, err := mi.Serialize()
			if err != nil {
				panic(err)
			}
			row = append(row, mi)
			raw = append(raw, string(b))
		}
		w.mis = append(w.mis, row)
		w.misRaw = append(w.misRaw, raw)
	}
	return w
}

func oname(i int) string { return "o" + strconv.Itoa(i+1) }
func pname(i int) string { return "p" + strconv.Itoa(i+1) }

func (w *world) dn(d core.Digest) string {
	if s, ok := w.dname[d]; ok {
		return s
	}
	return "d?"
}
func (w *world) hn(h core.InfoHash) string {
	if s, ok := w.hname[h]; ok {
		return s
	}
	return "h?"
}
func (w *world) on(addr string) string {
	if i, ok := w.oidx[addr]; ok {
		return oname(i)
	}
	return "o?"
}

// infoName names a handed out peer: o<i> iff it is exactly origin i's context as a complete origin
// peer, p<j> iff it carries peer j's identity and address as a non-origin; "x?" otherwise.
func (w *world) infoName(p *core.PeerInfo) string {
	if p == nil {
		return "x?"
	}
	if i, ok := w.originID[p.PeerID]; ok {
		c := w.octx[i]
		if p.IP == c.IP && p.Port == c.Port && p.Origin && p.Complete {
			return oname(i)
		}
		return "x?"
	}
	if j, ok := w.pidx[p.PeerID]; ok {
		q := w.peers[j]
		if p.IP == q.IP && p.Port == q.Port && !p.Origin {
			return pname(j)
		}
	}
	return "x?"
}

// ---------------------------------------------------------------------------------------------
// environment: scripted origin cluster + peer store, the clock, caller identities, gates

type env struct {
	mu  sync.Mutex
	w   *world
	c   *eng.Ctx
	clk *clock.Mock
	rng *rand.Rand // only under mu

	nhosts int
	locUp  []bool
	ctxUp  []bool
	rdy    []bool
	mi     []int            // 200 / 202 / other status / 0 = network error / 1 = plain error
	ring   map[string][]int // digest name -> replica list (origin indexes)

	psUpdFail, psGetFail bool
	population           []*core.PeerInfo

	callers  map[int64]string
	expectNS map[string]string

	conc    bool
	events  chan wevent
	release map[string]chan struct{}
}

type wevent struct {
	name string
	kind byte // 'p' parked, 'd' done
}

func goid() int64 {
	var b [64]byte
	n := runtime.Stack(b[:], false)
	s := b[len("goroutine "):n]
	var id int64
	for _, ch := range s {
		if ch < '0' || ch > '9' {
			break
		}
		id = id*10 + int64(ch-'0')
	}
	return id
}

func (e *env) caller() string {
	if s, ok := e.callers[goid()]; ok {
		return s
	}
	return "c?"
}

// gate parks the calling request (conc family only) until the driver releases it.
func (e *env) gate() {
	if !e.conc {
		return
	}
	e.mu.Lock()
	name := e.caller()
	ch := e.release[name]
	e.mu.Unlock()
	if ch == nil {
		return
	}
	e.events <- wevent{name, 'p'}
	<-ch
}

// gclock is the mock clock with Now() serialized with the environment, so that a clock advance and
// its Tick record are one atomic step for every reader.
type gclock struct {
	*clock.Mock
	e *env
}

func (g gclock) Now() time.Time {
	g.e.mu.Lock()
	defer g.e.mu.Unlock()
	return g.Mock.Now()
}

type hosts struct{ set stringset.Set }

func (h hosts) Resolve() stringset.Set { return h.set.Copy() }

type provider struct{ e *env }

func (p provider) Provide(addr string) blobclient.Client { return &fclient{e: p.e, addr: addr} }

// fclient answers the four origin endpoints the tracker uses; every other method of the interface
// is nil (calling one panics, which no specification action explains).
type fclient struct {
	blobclient.Client
	e    *env
	addr string
}

func (f *fclient) Addr() string { return f.addr }

func (e *env) failure() error {
	switch e.rng.Intn(3) {
	case 0:
		return httputil.NetworkError{}
	case 1:
		return httputil.StatusError{Method: "GET", Status: 503}
	}
	return errors.New("x02: scripted failure")
}

func (f *fclient) Locations(d core.Digest) ([]string, error) {
	e := f.e
	e.gate()
	e.mu.Lock()
	defer e.mu.Unlock()
	o, known := e.w.oidx[f.addr]
	dn := e.w.dn(d)
	if !known || !e.locUp[o] {
		e.c.W.Ev("HostLoc", "c", e.caller(), "o", e.w.on(f.addr), "d", dn, "ok", false, "ring", []string{})
		return nil, e.failure()
	}
	var addrs, names []string
	for _, i := range e.ring[dn] {
		addrs = append(addrs, e.w.oaddr[i])
		names = append(names, oname(i))
	}
	e.c.W.Ev("HostLoc", "c", e.caller(), "o", oname(o), "d", dn, "ok", true, "ring", names)
	return addrs, nil
}

func (f *fclient) GetPeerContext() (core.PeerContext, error) {
	e := f.e
	e.gate()
	e.mu.Lock()
	defer e.mu.Unlock()
	o, known := e.w.oidx[f.addr]
	if !known || !e.ctxUp[o] {
		e.c.W.Ev("PeerCtx", "c", e.caller(), "o", e.w.on(f.addr), "ok", false)
		return core.PeerContext{}, e.failure()
	}
	e.c.W.Ev("PeerCtx", "c", e.caller(), "o", oname(o), "ok", true)
	return e.w.octx[o], nil
}

func (f *fclient) GetMetaInfo(namespace string, d core.Digest) (*core.MetaInfo, error) {
	e := f.e
	e.gate()
	e.mu.Lock()
	defer e.mu.Unlock()
	cn := e.caller()
	o, known := e.w.oidx[f.addr]
	dn := e.w.dn(d)
	code := 0
	if known {
		code = e.mi[o]
	}
	di := -1
	for j := range e.w.digests {
		if e.w.digests[j] == d {
			di = j
		}
	}
	if di < 0 && code == 200 {
		code = 404
	}
	logged := code
	if code == 1 {
		logged = 0
	}
	e.c.W.Ev("MiTry", "c", cn, "o", e.w.on(f.addr), "d", dn, "code", logged, "nsok", namespace == e.expectNS[cn])
	switch code {
	case 200:
		// a fresh object per call, as a real client deserializes one per response
		mi, err := core.DeserializeMetaInfo([]byte(e.w.misRaw[o][di]))
		if err != nil {
			panic(err)
		}
		return mi, nil
	case 0:
		return nil, httputil.NetworkError{}
	case 1:
		return nil, errors.New("x02: deserialize metainfo: scripted failure")
	}
	return nil, httputil.StatusError{Method: "GET", URL: "http://" + f.addr, Status: code, ResponseDump: "x02 scripted " + strconv.Itoa(code)}
}

func (f *fclient) CheckReadiness() error {
	e := f.e
	e.gate()
	e.mu.Lock()
	defer e.mu.Unlock()
	o, known := e.w.oidx[f.addr]
	if !known || !e.rdy[o] {
		e.c.W.Ev("Probe", "c", e.caller(), "o", e.w.on(f.addr), "ok", false)
		return fmt.Errorf("origin not ready: %v", e.failure())
	}
	e.c.W.Ev("Probe", "c", e.caller(), "o", oname(o), "ok", true)
	return nil
}

// fstore is the abstract peer store: outcomes are scripted, every call is logged with what it received.
type fstore struct{ e *env }

func (s fstore) Close() {}

func (s fstore) UpdatePeer(h core.InfoHash, p *core.PeerInfo) error {
	e := s.e
	e.gate()
	e.mu.Lock()
	defer e.mu.Unlock()
	name, cpl := "x?", false
	if p != nil {
		cpl = p.Complete
		if j, ok := e.w.pidx[p.PeerID]; ok && p.IP == e.w.peers[j].IP && p.Port == e.w.peers[j].Port && !p.Origin {
			name = pname(j)
		}
	}
	ok := !e.psUpdFail
	e.c.W.Ev("PSUpdate", "c", e.caller(), "h", e.w.hn(h), "p", name, "cpl", cpl, "ok", ok)
	if !ok {
		return errors.New("x02: peer store unavailable")
	}
	return nil
}

func (s fstore) GetPeers(h core.InfoHash, n int) ([]*core.PeerInfo, error) {
	e := s.e
	e.gate()
	e.mu.Lock()
	defer e.mu.Unlock()
	ids, cpls := []string{}, []bool{}
	if e.psGetFail {
		e.c.W.Ev("PSGet", "c", e.caller(), "h", e.w.hn(h), "n", n, "ok", false, "ids", ids, "cpls", cpls)
		return nil, errors.New("x02: peer store unavailable")
	}
	k := len(e.population)
	if k > n {
		k = n
	}
	if k < 0 {
		k = 0
	}
	if k > 0 && e.rng.Intn(4) == 0 {
		k = e.rng.Intn(k + 1) // the store may know fewer peers for this torrent
	}
	var out []*core.PeerInfo
	for _, i := range e.rng.Perm(len(e.population))[:k] {
		p := e.population[i]
		out = append(out, core.NewPeerInfo(p.PeerID, p.IP, p.Port, p.Origin, p.Complete))
		ids = append(ids, e.w.infoName(p))
		cpls = append(cpls, p.Complete)
	}
	e.c.W.Ev("PSGet", "c", e.caller(), "h", e.w.hn(h), "n", n, "ok", true, "ids", ids, "cpls", cpls)
	return out, nil
}

// ---------------------------------------------------------------------------------------------
// one tracker under test

type sut struct {
	e     *env
	store originstore.Store
	h     http.Handler
}

var ttlChoices = [][4]int{ // locTTL, locErrTTL, ctxTTL, unavTTL in seconds; 0 = unset (defaults 10, 1, 10, 60)
	{0, 0, 0, 0}, {3, 1, 2, 4}, {2, 2, 1, 3}, {5, 1, 3, 1}, {1, 2, 2, 2}, {4, 0, 1, 6}, {2, 1, 5, 2}, {0, 2, 3, 0},
}
var limitChoices = []int{0, 1, 2, 3, 5}
var intervalChoices = []int{0, 250, 5000, 1000} // ms; 0 = unset (3 s)

func eff(v, def int) int {
	if v == 0 {
		return def
	}
	return v
}

func newSut(c *eng.Ctx, w *world, t int, rng *rand.Rand, fam, probe string) *sut {
	e := &env{w: w, c: c, clk: clock.NewMock(), rng: rand.New(rand.NewSource(rng.Int63())),
		locUp: make([]bool, nOrigins), ctxUp: make([]bool, nOrigins), rdy: make([]bool, nOrigins), mi: make([]int, nOrigins),
		ring: map[string][]int{}, callers: map[int64]string{}, expectNS: map[string]string{},
		events: make(chan wevent, 64), release: map[string]chan struct{}{}}
	e.clk.Set(w.base)
	for i := 0; i < nOrigins; i++ {
		e.locUp[i], e.ctxUp[i], e.rdy[i], e.mi[i] = true, true, true, 200
	}
	e.nhosts = 1 + rng.Intn(nOrigins)
	for _, dn := range []string{"d1", "d2", "dr"} {
		e.ring[dn] = randRing(rng)
	}
	ttl := ttlChoices[rng.Intn(len(ttlChoices))]
	lim := limitChoices[rng.Intn(len(limitChoices))]
	iv := intervalChoices[rng.Intn(len(intervalChoices))]
	pol := []string{"default", "completeness"}[rng.Intn(2)]
	set := stringset.New()
	for i := 0; i < e.nhosts; i++ {
		set.Add(w.oaddr[i])
	}
	prov := provider{e}
	hl := hosts{set}
	sec := func(v int) time.Duration { return time.Duration(v) * time.Second }
	store := originstore.New(originstore.Config{LocationsTTL: sec(ttl[0]), LocationsErrorTTL: sec(ttl[1]),
		OriginContextTTL: sec(ttl[2]), OriginUnavailableTTL: sec(ttl[3])}, gclock{e.clk, e}, hl, prov)
	policy, err := peerhandoutpolicy.NewPriorityPolicy(tally.NoopScope, pol)
	if err != nil {
		panic(err)
	}
	cluster := blobclient.NewClusterClient(blobclient.NewClientResolver(prov, hl))
	srv := trackerserver.New(trackerserver.Config{PeerHandoutLimit: lim, AnnounceInterval: time.Duration(iv) * time.Millisecond},
		tally.NoopScope, policy, fstore{e}, store, cluster)
	c.W.Reset(t, map[string]any{"fam": fam, "probe": probe, "locTTL": eff(ttl[0], 10), "locErrTTL": eff(ttl[1], 1), "ctxTTL": eff(ttl[2], 10),
		"unavTTL": eff(ttl[3], 60), "limit": eff(lim, 50), "interval": eff(iv, 3000), "policy": pol, "nhosts": e.nhosts})
	return &sut{e: e, store: store, h: srv.Handler()}
}

func randRing(rng *rand.Rand) []int {
	n := 1 + rng.Intn(3)
	return append([]int(nil), rng.Perm(nOrigins)[:n]...)
}

// flip changes the scripted environment (not an event: the answers are logged when they are given).
func (s *sut) flip(rng *rand.Rand) {
	e := s.e
	e.mu.Lock()
	defer e.mu.Unlock()
	o := rng.Intn(nOrigins)
	switch k := rng.Intn(16); {
	case k < 3:
		e.locUp[o] = !e.locUp[o]
	case k < 7:
		e.ctxUp[o] = !e.ctxUp[o]
	case k < 8:
		e.rdy[o] = !e.rdy[o]
	case k < 11:
		e.mi[o] = []int{200, 200, 202, 404, 500, 503, 599, 400, 204, 0, 1}[rng.Intn(11)]
	case k < 12:
		e.ring[[]string{"d1", "d2", "dr"}[rng.Intn(3)]] = randRing(rng)
	case k < 13:
		e.psUpdFail = !e.psUpdFail
	case k < 14:
		e.psGetFail = !e.psGetFail
	default:
		e.population = nil
		for _, i := range rng.Perm(nPeers)[:rng.Intn(nPeers+1)] {
			p := e.w.peers[i]
			e.population = append(e.population, core.NewPeerInfo(p.PeerID, p.IP, p.Port, false, rng.Intn(3) == 0))
		}
	}
}

func (s *sut) tick(rng *rand.Rand) {
	d := []int{1, 1, 1, 2, 2, 3, 5, 10, 61}[rng.Intn(9)]
	e := s.e
	e.mu.Lock()
	e.clk.Add(time.Duration(d) * time.Second)
	e.c.W.Ev("Tick", "d", d)
	e.mu.Unlock()
}

func (s *sut) serve(method, target string, body []byte) (rec *httptest.ResponseRecorder, panicked bool) {
	rec = httptest.NewRecorder()
	req := httptest.NewRequest(method, target, bytes.NewReader(body))
	defer func() {
		if r := recover(); r != nil {
			panicked = true
		}
	}()
	s.h.ServeHTTP(rec, req)
	return rec, false
}

// ops: each logs its call record, runs the real code in the calling goroutine, logs the reply

func (s *sut) opOrigins(cn string, rng *rand.Rand) func() {
	di := rng.Intn(nDigests)
	return func() {
		w := s.e.w
		s.e.c.W.Ev("OCall", "c", cn, "d", fmt.Sprintf("d%d", di+1))
		infos, err := s.store.GetOrigins(w.digests[di])
		res := "ok"
		if err != nil {
			res = "locerr"
			if originstore.VerifIsAllUnavailable(err) {
				res = "allunavail"
			}
		}
		names := []string{}
		for _, p := range infos {
			names = append(names, w.infoName(p))
		}
		s.e.c.W.Ev("ORet", "c", cn, "res", res, "origins", names)
	}
}

// every namespace here either has no '%' or has a '/', which makes its escaped form differ from the
// default encoding of its decoded form (url.URL.RawPath is then set and chi routes on it); the
// remaining class - a '%' and nothing that forces RawPath - is finding X02-1 and lives in probe traces
var namespaces = []string{"ns", "library/alpine", "a b/c%2Fd", "repo:tag/x", "uber-usi/.*", "x/y/z/w", "100%/ns", "ü/ns", "a+b c"}

func (s *sut) opAnnounce(cn string, rng *rand.Rand) func() {
	w := s.e.w
	v := 1 + rng.Intn(2)
	hURL, hBody := rng.Intn(nHashes), rng.Intn(nHashes)
	if rng.Intn(3) > 0 {
		hBody = hURL
	}
	di, pi := rng.Intn(nDigests), rng.Intn(nPeers)
	cpl := rng.Intn(4) == 0
	p := w.peers[pi]
	d := w.digests[di]
	req := &announceclient.Request{Name: d.Hex(), Digest: &d, InfoHash: w.hashes[hBody],
		Peer: core.NewPeerInfo(p.PeerID, p.IP, p.Port, false, cpl)}
	switch rng.Intn(6) { // backwards compatible ways of naming the blob
	case 0:
		req.Digest = nil
	case 1:
		req.Name = ""
	case 2:
		req.Name = w.digests[1-di].Hex() // the digest field wins
	}
	body, err := json.Marshal(req)
	if err != nil {
		panic(err)
	}
	method, target, h := "POST", "/announce/"+w.hashes[hURL].String(), hURL
	if v == announceclient.V1 {
		method, target, h = "GET", "/announce", hBody
	}
	return func() {
		s.e.c.W.Ev("ACall", "c", cn, "v", v, "h", fmt.Sprintf("h%d", h+1), "d", fmt.Sprintf("d%d", di+1), "p", pname(pi), "cpl", cpl)
		rec, panicked := s.serve(method, target, body)
		status, interval := rec.Code, 0
		ids, ogs, cpls := []string{}, []bool{}, []bool{}
		if panicked {
			status = -1
		} else if status == http.StatusOK {
			var resp announceclient.Response
			if err := json.NewDecoder(rec.Body).Decode(&resp); err != nil {
				status = -2
			} else {
				interval = int(resp.Interval / time.Millisecond)
				if resp.Interval%time.Millisecond != 0 {
					interval = -1
				}
				for _, q := range resp.Peers {
					ids = append(ids, w.infoName(q))
					ogs = append(ogs, q != nil && q.Origin)
					cpls = append(cpls, q != nil && q.Complete)
				}
			}
		}
		s.e.c.W.Ev("ARet", "c", cn, "status", status, "ids", ids, "origins", ogs, "cpls", cpls, "interval", interval)
	}
}

func (s *sut) opMetainfo(cn string, rng *rand.Rand) func() {
	return s.opMetainfoNS(cn, rng, namespaces[rng.Intn(len(namespaces))])
}

func (s *sut) opMetainfoNS(cn string, rng *rand.Rand, ns string) func() {
	w := s.e.w
	di := rng.Intn(nDigests)
	target := fmt.Sprintf("/namespace/%s/blobs/%s/metainfo", url.PathEscape(ns), w.digests[di])
	return func() {
		s.e.mu.Lock()
		s.e.expectNS[cn] = ns
		s.e.mu.Unlock()
		s.e.c.W.Ev("MCall", "c", cn, "d", fmt.Sprintf("d%d", di+1))
		rec, panicked := s.serve("GET", target, nil)
		status, src := rec.Code, ""
		if panicked {
			status = -1
		} else if status == http.StatusOK {
			src = "x?"
			if mi, err := core.DeserializeMetaInfo(rec.Body.Bytes()); err == nil && mi.Digest() == w.digests[di] {
				for o := 0; o < nOrigins; o++ {
					if mi.PieceLength() == w.mis[o][di].PieceLength() && mi.InfoHash() == w.mis[o][di].InfoHash() {
						src = oname(o)
					}
				}
			}
		}
		s.e.c.W.Ev("MRet", "c", cn, "status", status, "src", src)
	}
}

func (s *sut) opReady(cn string) func() {
	return func() {
		s.e.c.W.Ev("RCall", "c", cn)
		rec, panicked := s.serve("GET", "/readiness", nil)
		status := rec.Code
		if panicked {
			status = -1
		}
		s.e.c.W.Ev("RRet", "c", cn, "status", status)
	}
}

func (s *sut) opHealth(cn string) func() {
	return func() {
		rec, panicked := s.serve("GET", "/health", nil)
		status := rec.Code
		if panicked || rec.Body.String() != "OK\n" {
			status = -1
		}
		s.e.c.W.Ev("Health", "c", cn, "status", status)
	}
}

// malformed requests: none may reach a dependency
func (s *sut) opBad(cn string, kind string, rng *rand.Rand) func() {
	w := s.e.w
	d := w.digests[rng.Intn(nDigests)]
	p := w.peers[rng.Intn(nPeers)]
	h := w.hashes[rng.Intn(nHashes)]
	good := func(r *announceclient.Request) []byte {
		b, err := json.Marshal(r)
		if err != nil {
			panic(err)
		}
		return b
	}
	method, target := "POST", "/announce/"+h.String()
	if rng.Intn(2) == 0 {
		method, target = "GET", "/announce"
	}
	var body []byte
	switch kind {
	case "json":
		body = [][]byte{[]byte("{"), []byte(""), []byte("[1,2]"), []byte(`{"peer": 5}`)}[rng.Intn(4)]
	case "digest":
		body = good(&announceclient.Request{Name: []string{"", "zz", d.Hex()[:10]}[rng.Intn(3)], InfoHash: h, Peer: p})
	case "infohash":
		method, target = "POST", "/announce/"+[]string{"zz", h.String()[:12], "%2F"}[rng.Intn(3)]
		body = good(&announceclient.Request{Name: d.Hex(), Digest: &d, InfoHash: h, Peer: p})
	case "midigest":
		method, target = "GET", "/namespace/ns/blobs/"+[]string{"nodigest", d.Hex(), "sha256:12", "md5:" + d.Hex()}[rng.Intn(4)]+"/metainfo"
	case "nopeer":
		body = good(&announceclient.Request{Name: d.Hex(), Digest: &d, InfoHash: h}) // "peer":null
		if rng.Intn(2) == 0 {
			body = bytes.Replace(body, []byte(`,"peer":null`), nil, 1) // no peer member at all
		}
	}
	return func() {
		rec, panicked := s.serve(method, target, body)
		status := rec.Code
		if panicked {
			status = -1
		}
		s.e.c.W.Ev("BadReq", "c", cn, "kind", kind, "status", status)
	}
}

func (s *sut) randomOp(cn string, rng *rand.Rand) func() {
	switch k := rng.Intn(20); {
	case k < 7:
		return s.opOrigins(cn, rng)
	case k < 14:
		return s.opAnnounce(cn, rng)
	case k < 17:
		return s.opMetainfo(cn, rng)
	case k < 18:
		return s.opReady(cn)
	case k < 19:
		return s.opHealth(cn)
	}
	return s.opBad(cn, []string{"json", "digest", "infohash", "midigest"}[rng.Intn(4)], rng)
}

// ---------------------------------------------------------------------------------------------

func seqTrace(c *eng.Ctx, w *world, t int, rng *rand.Rand) {
	s := newSut(c, w, t, rng, "seq", "none")
	s.e.callers[goid()] = "c1"
	steps := 30 + rng.Intn(40)
	for i := 0; i < steps; i++ {
		switch k := rng.Intn(10); {
		case k < 2:
			s.tick(rng)
		case k < 4:
			s.flip(rng)
		default:
			s.randomOp("c1", rng)()
		}
	}
}

// probeTrace: one request of an input class for which the unchanged tree is known to break a guarantee
// (known_findings.d/X02.json); the class is named in the reset record.
//   nopeer  announce without a peer member: the handler dereferences nil (X02-2)
//   nspct   metainfo for a namespace with a '%' whose escaped URL leaves RawPath empty: chi hands the
//           already decoded segment to httputil.ParseParam, which unescapes it a second time (X02-1):
//           "%41" reaches the origins as "A", "100%" is refused with 400
func probeTrace(c *eng.Ctx, w *world, t int, rng *rand.Rand, probe string) {
	s := newSut(c, w, t, rng, "probe", probe)
	s.e.callers[goid()] = "c1"
	switch probe {
	case "nopeer":
		s.opBad("c1", "nopeer", rng)()
	case "nspct":
		s.opMetainfoNS("c1", rng, []string{"%41", "x%2Fy", "%2541"}[rng.Intn(3)])()
	case "nspct400":
		s.opMetainfoNS("c1", rng, []string{"100%", "%zz", "a%"}[rng.Intn(3)])()
	}
}

const settleWait = 4 * time.Millisecond

func concTrace(c *eng.Ctx, w *world, t int, rng *rand.Rand) {
	s := newSut(c, w, t, rng, "conc", "none")
	e := s.e
	e.conc = true
	names := []string{"c1", "c2", "c3"}[:2+rng.Intn(2)]
	ops := map[string]chan func(){}
	state := map[string]byte{} // 'i' idle, 'r' running, 'p' parked, 'b' presumed blocked on another request
	var wg sync.WaitGroup
	for _, n := range names {
		n := n
		ops[n] = make(chan func())
		state[n] = 'i'
		e.release[n] = make(chan struct{})
		wg.Add(1)
		go func() {
			defer wg.Done()
			e.mu.Lock()
			e.callers[goid()] = n
			e.mu.Unlock()
			for op := range ops[n] {
				func() {
					defer func() {
						if r := recover(); r != nil {
							e.c.W.Ev("Panic", "c", n, "what", fmt.Sprint(r))
						}
					}()
					op()
				}()
				e.events <- wevent{n, 'd'}
			}
		}()
	}
	apply := func(ev wevent) {
		if ev.kind == 'p' {
			state[ev.name] = 'p'
		} else {
			state[ev.name] = 'i'
		}
	}
	// settle waits until no request is known to be running: each has parked at a gate, finished, or
	// (after a short quiet period) is presumed blocked inside the limiter waiting for another request.
	settle := func() {
		for {
			running := false
			for _, n := range names {
				if state[n] == 'r' {
					running = true
				}
			}
			if !running {
				for {
					select {
					case ev := <-e.events:
						apply(ev)
						continue
					default:
					}
					break
				}
				return
			}
			select {
			case ev := <-e.events:
				apply(ev)
			case <-time.After(settleWait):
				for _, n := range names {
					if state[n] == 'r' {
						state[n] = 'b'
					}
				}
			}
		}
	}
	pick := func(st byte) string {
		var c []string
		for _, n := range names {
			if state[n] == st {
				c = append(c, n)
			}
		}
		if len(c) == 0 {
			return ""
		}
		return c[rng.Intn(len(c))]
	}
	steps := 40 + rng.Intn(50)
	for i := 0; i < steps; i++ {
		switch k := rng.Intn(20); {
		case k < 6:
			if n := pick('i'); n != "" {
				var op func()
				if rng.Intn(3) > 0 {
					// mostly store users on one digest, so that requests meet in the limiters
					if rng.Intn(2) == 0 {
						op = s.opOrigins(n, rng)
					} else {
						op = s.opAnnounce(n, rng)
					}
				} else {
					op = s.randomOp(n, rng)
				}
				state[n] = 'r'
				ops[n] <- op
			}
		case k < 15:
			if n := pick('p'); n != "" {
				state[n] = 'r'
				e.release[n] <- struct{}{}
			}
		case k < 18:
			s.tick(rng)
		default:
			s.flip(rng)
		}
		settle()
	}
	// drain: release everything until every request has returned
	deadline := time.Now().Add(20 * time.Second)
	for {
		settle()
		busy := false
		for _, n := range names {
			if state[n] == 'p' {
				state[n] = 'r'
				e.release[n] <- struct{}{}
				busy = true
			} else if state[n] != 'i' {
				busy = true
			}
		}
		if !busy {
			break
		}
		if time.Now().After(deadline) {
			e.c.W.Ev("Stuck", "c", "c?")
			return // leaks the stuck goroutines; the trace is rejected
		}
		for _, n := range names {
			if state[n] == 'b' {
				state[n] = 'r'
			}
		}
	}
	for _, n := range names {
		close(ops[n])
	}
	wg.Wait()
}

func run(c *eng.Ctx) error {
	w := newWorld()
	n := c.N(120, 1600)
	c.Traces(n, func(t int, rng *rand.Rand) {
		switch {
		case t == 1:
			probeTrace(c, w, t, rng, "nopeer")
		case t == 2:
			probeTrace(c, w, t, rng, "nspct")
		case t == 5:
			probeTrace(c, w, t, rng, "nspct400")
		case t%4 == 3:
			concTrace(c, w, t, rng)
		default:
			seqTrace(c, w, t, rng)
		}
	})
	return nil
}
