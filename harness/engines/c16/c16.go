// Package c16 records histories of the real connstate.State (property C16) for validation
// against spec/p2p/ConnState.tla.
package c16

import (
	"errors"
	"fmt"
	"math/rand"
	"net"
	"sort"
	"time"

	"github.com/andres-erbsen/clock"
	"github.com/uber-go/tally"
	"go.uber.org/zap"

	"github.com/uber/kraken/core"
	"github.com/uber/kraken/lib/torrent/networkevent"
	"github.com/uber/kraken/lib/torrent/scheduler"
	"github.com/uber/kraken/lib/torrent/scheduler/conn"
	"github.com/uber/kraken/lib/torrent/scheduler/connstate"
	"github.com/uber/kraken/lib/torrent/storage"
	"github.com/uber/kraken/lib/torrent/storage/agentstorage"
	"github.com/uber/kraken/utils/log"

	"kvh/internal/eng"
)

func init() { eng.Register("c16", run) }

const (
	nh    = 2 // torrents h1..h2
	npeer = 4 // peers p1..p4
	nconn = 3 // conn objects per slot
)

type cobj struct {
	c    *conn.Conn
	h, p int
	n    int
	far  net.Conn
}

func (o *cobj) id() []any { return []any{hname(o.h), pname(o.p), o.n} }

func hname(h int) string { return fmt.Sprintf("h%d", h+1) }
func pname(p int) string { return fmt.Sprintf("p%d", p+1) }

type drv struct {
	c     *eng.Ctx
	st    *connstate.State
	clk   *clock.Mock
	hs    *conn.Handshaker
	infos []*storage.TorrentInfo
	peers []core.PeerID
	objs  []*cobj
	byPtr map[*conn.Conn]*cobj
	made  [nh][npeer]int
	dur   int
	// generator bookkeeping (inputs only): slots whose last AddPending was answered ok and that were not
	// deleted / activated since; used to aim MovePendingToActive at slots that are probably pending.
	pend [nh][npeer]bool
	// "sched" traces only: the State under test is the one owned by a real (unstarted) scheduler state,
	// and announceResultEvent / failedOutgoingHandshakeEvent are applied to it.
	sch      *scheduler.VerifC16Sched
	self     core.PeerID
	deadPort int
}

func (d *drv) hash(h int) core.InfoHash { return d.infos[h].InfoHash() }

// newConn creates the next conn object of slot (h,p), or nil if the slot used up its objects.
func (d *drv) newConn(h, p int) *cobj {
	if d.made[h][p] >= nconn {
		return nil
	}
	near, far := net.Pipe()
	c, err := conn.VerifC16NewConn(d.hs, near, d.peers[p], d.infos[h], false)
	if err != nil {
		panic(err)
	}
	d.made[h][p]++
	o := &cobj{c: c, h: h, p: p, n: d.made[h][p], far: far}
	d.objs = append(d.objs, o)
	d.byPtr[c] = o
	return o
}

func (d *drv) cleanup() {
	for _, o := range d.objs {
		o.c.Close()
		o.far.Close()
	}
}

// ev logs one call plus the observations taken after it.
func (d *drv) ev(ev string, kv ...any) {
	var active [][]any
	for _, c := range d.st.ActiveConns() {
		if o, ok := d.byPtr[c]; ok {
			active = append(active, o.id())
		} else {
			active = append(active, []any{"h?", "p?", 0})
		}
	}
	sort.Slice(active, func(a, b int) bool { return fmt.Sprint(active[a]) < fmt.Sprint(active[b]) })
	if active == nil {
		active = [][]any{}
	}
	blk := [][]any{}
	sat := []string{}
	for h := 0; h < nh; h++ {
		for p := 0; p < npeer; p++ {
			if d.st.Blacklisted(d.peers[p], d.hash(h)) {
				blk = append(blk, []any{hname(h), pname(p)})
			}
		}
		if d.st.Saturated(d.hash(h)) {
			sat = append(sat, hname(h))
		}
	}
	snap := [][]any{}
	for _, b := range d.st.BlacklistSnapshot() {
		hn, pn := "h?", "p?"
		for h := 0; h < nh; h++ {
			if d.hash(h) == b.InfoHash {
				hn = hname(h)
			}
		}
		for p := 0; p < npeer; p++ {
			if d.peers[p] == b.PeerID {
				pn = pname(p)
			}
		}
		rem := 0
		if b.Remaining > 0 {
			rem = int((b.Remaining + time.Second - 1) / time.Second)
		}
		snap = append(snap, []any{hn, pn, rem})
	}
	sort.Slice(snap, func(a, b int) bool { return fmt.Sprint(snap[a]) < fmt.Sprint(snap[b]) })
	kv = append(kv, "active", active, "blk", blk, "sat", sat, "snap", snap)
	d.c.W.Ev(ev, kv...)
}

func (d *drv) addPending(p, h int, neigh []int) string {
	ids := make([]core.PeerID, len(neigh))
	names := make([]string, len(neigh))
	for k, q := range neigh {
		ids[k] = d.peers[q]
		names[k] = pname(q)
	}
	err := d.st.AddPending(d.peers[p], d.hash(h), ids)
	res := "other"
	switch {
	case err == nil:
		res = "ok"
	case errors.Is(err, connstate.ErrTorrentAtCapacity):
		res = "capacity"
	case errors.Is(err, connstate.ErrConnAlreadyPending):
		res = "pending"
	case errors.Is(err, connstate.ErrConnAlreadyActive):
		res = "active"
	case errors.Is(err, connstate.ErrTooManyMutualConns):
		res = "mutual"
	}
	if res == "ok" {
		d.pend[h][p] = true
	}
	d.ev("AddPending", "p", pname(p), "h", hname(h), "neigh", names, "res", res)
	return res
}

// announce applies a real announceResultEvent for torrent h with the given peers (index npeer = the
// scheduler's own id) and then probes each named slot with AddPending, which tells whether it was dialled.
func (d *drv) announce(rng *rand.Rand, h int, list []int) {
	names := make([]string, len(list))
	infos := make([]*core.PeerInfo, len(list))
	for k, q := range list {
		if q == npeer {
			names[k] = "self"
			infos[k] = core.NewPeerInfo(d.self, "127.0.0.1", d.deadPort, false, false)
			continue
		}
		names[k] = pname(q)
		infos[k] = core.NewPeerInfo(d.peers[q], "127.0.0.1", d.deadPort, false, false)
		if d.st.Blacklisted(d.peers[q], d.hash(h)) {
			d.c.Inc("announced_while_blacklisted", 1) // statistics only
		}
	}
	d.sch.ApplyAnnounceResult(d.hash(h), infos)
	d.ev("Announce", "h", hname(h), "peers", names)
	seen := map[int]bool{}
	for _, q := range list {
		if q == npeer || seen[q] {
			continue
		}
		seen[q] = true
		if d.addPending(q, h, nil) == "ok" && rng.Intn(2) == 0 {
			d.deletePending(q, h)
		}
	}
}

func (d *drv) handshakeFailed(p, h int) {
	d.sch.ApplyFailedOutgoingHandshake(d.peers[p], d.hash(h))
	d.pend[h][p] = false
	d.ev("HandshakeFailed", "p", pname(p), "h", hname(h))
}

func (d *drv) probablyPending(rng *rand.Rand, h, p int) (int, int) {
	var cand [][2]int
	for hh := range d.pend {
		for pp, ok := range d.pend[hh] {
			if ok {
				cand = append(cand, [2]int{hh, pp})
			}
		}
	}
	if len(cand) > 0 {
		x := cand[rng.Intn(len(cand))]
		return x[0], x[1]
	}
	return h, p
}

func (d *drv) deletePending(p, h int) {
	d.st.DeletePending(d.peers[p], d.hash(h))
	d.pend[h][p] = false
	d.ev("DeletePending", "p", pname(p), "h", hname(h))
}

func (d *drv) moveToActive(o *cobj) {
	err := d.st.MovePendingToActive(o.c)
	res := "other"
	switch {
	case err == nil:
		res = "ok"
	case errors.Is(err, connstate.ErrConnClosed):
		res = "closed"
	case errors.Is(err, connstate.ErrInvalidActiveTransition):
		res = "invalid"
	}
	if res == "ok" {
		d.pend[o.h][o.p] = false
	}
	d.ev("MoveToActive", "c", o.id(), "res", res)
}

func (d *drv) deleteActive(o *cobj) {
	for _, c := range d.st.ActiveConns() { // statistics only: how often an older object of a re-used slot is deleted
		if a, ok := d.byPtr[c]; ok && a != o && a.h == o.h && a.p == o.p {
			d.c.Inc("delete_of_replaced_conn", 1)
		}
	}
	d.st.DeleteActive(o.c)
	d.ev("DeleteActive", "c", o.id())
}

func (d *drv) blacklist(p, h int) {
	res := "ok"
	if err := d.st.Blacklist(d.peers[p], d.hash(h)); err != nil {
		res = "err"
	}
	d.ev("Blacklist", "p", pname(p), "h", hname(h), "res", res)
}

func (d *drv) clearBlacklist(h int) {
	d.st.ClearBlacklist(d.hash(h))
	d.ev("ClearBlacklist", "h", hname(h))
}

func (d *drv) tick(n int) {
	d.clk.Add(time.Duration(n) * time.Second)
	d.ev("Tick", "d", n)
}

func (d *drv) closeConn(o *cobj) {
	o.c.Close()
	d.ev("CloseConn", "c", o.id(), "closed", o.c.IsClosed())
}

func (d *drv) randNeigh(rng *rand.Rand) []int {
	neigh := []int{}
	switch k := rng.Intn(10); {
	case k < 2:
	case k < 9:
		for q := 0; q < npeer; q++ {
			if k < 6 || rng.Intn(2) == 0 { // all peers, or a random subset
				neigh = append(neigh, q)
			}
		}
		rng.Shuffle(len(neigh), func(a, b int) { neigh[a], neigh[b] = neigh[b], neigh[a] })
	default: // a list that names one peer twice
		q := rng.Intn(npeer)
		neigh = append(neigh, q, rng.Intn(npeer), q)
	}
	return neigh
}

// pickConn returns an existing conn object (of slot (h,p) if there is one and sameSlot), else a new one.
func (d *drv) pickConn(rng *rand.Rand, h, p int, fresh bool) *cobj {
	if fresh {
		if o := d.newConn(h, p); o != nil {
			return o
		}
	}
	var slot []*cobj
	for _, o := range d.objs {
		if o.h == h && o.p == p {
			slot = append(slot, o)
		}
	}
	if len(slot) > 0 && rng.Intn(4) > 0 {
		return slot[rng.Intn(len(slot))]
	}
	if len(d.objs) > 0 && rng.Intn(2) == 0 {
		return d.objs[rng.Intn(len(d.objs))]
	}
	if o := d.newConn(h, p); o != nil {
		return o
	}
	return d.objs[rng.Intn(len(d.objs))]
}

func (d *drv) step(rng *rand.Rand) {
	h := rng.Intn(nh)
	if rng.Intn(3) > 0 {
		h = 0 // concentrate on one torrent so that capacity and mutual limits bind
	}
	p := rng.Intn(npeer)
	if d.sch != nil {
		switch k := rng.Intn(10); {
		case k == 0:
			var list []int
			for q := 0; q <= npeer; q++ {
				if rng.Intn(3) > 0 {
					list = append(list, q)
				}
			}
			rng.Shuffle(len(list), func(a, b int) { list[a], list[b] = list[b], list[a] })
			d.announce(rng, h, list)
			return
		case k == 1:
			if rng.Intn(10) < 8 {
				h, p = d.probablyPending(rng, h, p)
			}
			d.handshakeFailed(p, h)
			return
		}
	}
	switch k := rng.Intn(40); {
	case k < 10:
		d.addPending(p, h, d.randNeigh(rng))
	case k < 13:
		d.deletePending(p, h)
	case k < 21:
		if rng.Intn(10) < 7 { // aim at a slot that is probably pending
			h, p = d.probablyPending(rng, h, p)
		}
		d.moveToActive(d.pickConn(rng, h, p, rng.Intn(2) == 0))
	case k < 27:
		if rng.Intn(10) < 7 { // aim at a slot that has an active conn (creation order, not map order)
			var act []*cobj
			for _, c := range d.st.ActiveConns() {
				if o, ok := d.byPtr[c]; ok {
					act = append(act, o)
				}
			}
			sort.Slice(act, func(a, b int) bool { return fmt.Sprint(act[a].id()) < fmt.Sprint(act[b].id()) })
			if len(act) > 0 {
				o := act[rng.Intn(len(act))]
				h, p = o.h, o.p
			}
		}
		d.deleteActive(d.pickConn(rng, h, p, false))
	case k < 31:
		d.blacklist(p, h)
	case k < 32:
		d.clearBlacklist(h)
	case k < 37:
		d.tick(1 + rng.Intn(d.dur+1))
	default:
		d.closeConn(d.pickConn(rng, h, p, false))
	}
}

func run(c *eng.Ctx) error {
	n := c.N(150, 1000)
	infos := make([]*storage.TorrentInfo, nh)
	torrents := make([]storage.Torrent, nh)
	for i := range infos {
		t, cleanup := agentstorage.TorrentFixture(core.SizedBlobFixture(4, 1).MetaInfo)
		defer cleanup()
		torrents[i] = t
		infos[i] = t.Stat()
	}
	archive, cleanupArchive := agentstorage.TorrentArchiveFixture()
	defer cleanupArchive()
	// a local port nobody listens on: outgoing handshakes started by announce results are refused at once
	l, err := net.Listen("tcp", "127.0.0.1:0")
	if err != nil {
		return err
	}
	deadPort := l.Addr().(*net.TCPAddr).Port
	l.Close()
	peers := make([]core.PeerID, npeer)
	for i := range peers {
		peers[i] = core.PeerIDFixture()
	}
	hs := conn.HandshakerFixture(conn.Config{})
	c.Traces(n, func(t int, rng *rand.Rand) {
		cfg := connstate.Config{
			MaxOpenConnectionsPerTorrent: 1 + rng.Intn(4),
			MaxMutualConnections:         1 + rng.Intn(2),
			BlacklistDuration:            time.Duration(1+rng.Intn(3)) * time.Second,
			DisableBlacklist:             rng.Intn(10) == 0,
		}
		d := &drv{c: c, clk: clock.NewMock(), hs: hs, infos: infos, peers: peers, byPtr: map[*conn.Conn]*cobj{},
			dur: int(cfg.BlacklistDuration / time.Second)}
		kind := "plain"
		if t%3 == 0 {
			kind = "sched"
			pctx := core.PeerContextFixture()
			sch, err := scheduler.VerifC16NewSched(
				scheduler.Config{ConnState: cfg, DisablePreemption: true, Log: log.Config{Disable: true},
					TorrentLog: log.Config{Disable: true}},
				archive, tally.NoopScope, pctx, networkevent.NewTestProducer(), d.clk)
			if err != nil {
				panic(err)
			}
			for _, tor := range torrents {
				if err := sch.AddTorrent("ns", tor); err != nil {
					panic(err)
				}
			}
			defer sch.Close()
			d.sch, d.self, d.deadPort = sch, pctx.PeerID, deadPort
			d.st = sch.ConnState()
		} else {
			d.st = connstate.New(cfg, d.clk, core.PeerIDFixture(), networkevent.NewTestProducer(), zap.NewNop().Sugar())
		}
		defer d.cleanup()
		c.W.Reset(t, map[string]any{"kind": kind, "maxConns": cfg.MaxOpenConnectionsPerTorrent,
			"maxMutual": cfg.MaxMutualConnections, "dur": d.dur, "noBl": cfg.DisableBlacklist})
		steps := 30 + rng.Intn(40)
		for s := 0; s < steps; s++ {
			d.step(rng)
		}
		// drain: the pending set has no accessor; an AddPending per slot makes it observable through the replies
		for h := 0; h < nh; h++ {
			for p := 0; p < npeer; p++ {
				d.addPending(p, h, nil)
			}
		}
	})
	return nil
}
