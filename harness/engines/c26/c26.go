// Package c26 records histories of the real tracker announce handler (property C26) for
// validation against spec/tracker/Handout.tla.
//
// Real parts: trackerserver.Server's HTTP handler (chi router, both /announce endpoints, JSON
// request/response types of announceclient), peerstore.LocalStore on a mock clock,
// peerhandoutpolicy.PriorityPolicy ("default" and "completeness").  Fake: the origin store (a map
// digest -> origin peers that, like the real one, returns fresh PeerInfo objects and an error when
// there are none).
//
// Every history is validated against the property as stated, including "never hand the announcer to
// itself" (finding F26, repaired in /repo commit 483b8c2; cfg.strict=true and the selfin field remain in
// the records because the signature in known_findings.d/C26.json refers to them).
package c26

import (
	"bytes"
	"encoding/json"
	"errors"
	"fmt"
	"math/rand"
	"net/http"
	"net/http/httptest"
	"time"

	"github.com/uber-go/tally"

	"github.com/uber/kraken/core"
	"github.com/uber/kraken/tracker/announceclient"
	"github.com/uber/kraken/tracker/peerhandoutpolicy"
	"github.com/uber/kraken/tracker/peerstore"
	"github.com/uber/kraken/tracker/trackerserver"

	"kvh/engines/trk"
	"kvh/internal/eng"
)

func init() { eng.Register("c26", run) }

const (
	nh, np, na, no = 2, 6, 3, 3
)

var ttls = []int{2, 3, 5}
var limits = []int{1, 2, 3, 4, 5, 0} // 0 = not configured = 50

type origins map[core.Digest][]*core.PeerInfo

func (o origins) GetOrigins(d core.Digest) ([]*core.PeerInfo, error) {
	ps := o[d]
	if len(ps) == 0 {
		return nil, errors.New("all origins unavailable")
	}
	out := make([]*core.PeerInfo, len(ps))
	for i, p := range ps {
		out[i] = core.NewPeerInfo(p.PeerID, p.IP, p.Port, p.Origin, p.Complete)
	}
	return out, nil
}

func run(c *eng.Ctx) error {
	w := trk.NewWorld(nh, np, na, no)
	c.Traces(c.N(93, 1508), func(t int, rng *rand.Rand) {
		const strict = true
		ttl := ttls[rng.Intn(len(ttls))]
		lim := limits[rng.Intn(len(limits))]
		pol := []string{"default", "completeness"}[rng.Intn(2)]
		if rng.Intn(3) > 0 {
			pol = "completeness"
		}
		og := origins{}
		ogNames := map[string]any{}
		for i := 0; i < nh; i++ {
			names := []string{}
			perm := rng.Perm(no)
			for _, j := range perm[:rng.Intn(no)] { // 0..2 origins
				og[w.Digests[i]] = append(og[w.Digests[i]], w.Origins[j])
				names = append(names, fmt.Sprintf("o%d", j+1))
			}
			ogNames[fmt.Sprintf("h%d", i+1)] = names
		}
		clk := trk.NewGateClock(w.Base)
		store := peerstore.NewLocalStore(peerstore.LocalConfig{TTL: time.Duration(ttl) * time.Second}, clk)
		defer store.Close()
		policy, err := peerhandoutpolicy.NewPriorityPolicy(tally.NoopScope, pol)
		if err != nil {
			panic(err)
		}
		srv := trackerserver.New(trackerserver.Config{PeerHandoutLimit: lim}, tally.NoopScope, policy, store, og, nil)
		h := srv.Handler()
		eff := lim
		if eff == 0 {
			eff = 50
		}
		c.W.Reset(t, map[string]any{"ttl": ttl, "limit": eff, "policy": pol, "strict": strict, "orig": ogNames})
		obs := func() []any { return w.Obs(store, clk.Mock.Now()) }
		ev := func(name string, kv []any) { c.W.Ev(name, append(kv, obs()...)...) }

		hmax := 1 + rng.Intn(nh)
		pmax := 2 + rng.Intn(np-1)
		steps := 25 + rng.Intn(30)
		for i := 0; i < steps; i++ {
			switch k := rng.Intn(20); {
			case k < 15:
				hi, pi, ai := rng.Intn(hmax), rng.Intn(pmax), rng.Intn(na)
				complete := rng.Intn(5) < 2
				v := 1 + rng.Intn(2)
				res, peers := announce(h, w, v, hi, pi, ai, complete)
				ids, addrs, ogs, cs := w.Reply(peers)
				selfin := false
				for _, p := range peers {
					if p != nil && p.PeerID == w.Peers[pi] {
						selfin = true
					}
				}
				ev("Announce", []any{"v", v, "h", fmt.Sprintf("h%d", hi+1), "p", fmt.Sprintf("p%d", pi+1),
					"a", fmt.Sprintf("a%d", ai+1), "c", complete, "res", res,
					"ids", ids, "addrs", addrs, "origins", ogs, "cs", cs, "selfin", selfin})
			case k < 17:
				d := 1 + rng.Intn(3)
				clk.Add(time.Duration(d) * time.Second)
				ev("Tick", []any{"d", d})
			case k < 19:
				store.VerifCleanupEntries()
				ev("CleanEntries", nil)
			default:
				store.VerifCleanupGroups()
				ev("CleanGroups", nil)
			}
		}
	})
	return nil
}

// announce sends one real announce request (protocol version v) and decodes the reply.
func announce(h http.Handler, w *trk.World, v, hi, pi, ai int, complete bool) (string, []*core.PeerInfo) {
	d := w.Digests[hi]
	a := w.Addrs[ai]
	body, err := json.Marshal(&announceclient.Request{
		Name:     d.Hex(),
		Digest:   &d,
		InfoHash: w.Hashes[hi],
		Peer:     core.NewPeerInfo(w.Peers[pi], a.IP, a.Port, false, complete),
	})
	if err != nil {
		panic(err)
	}
	method, url := "POST", "/announce/"+w.Hashes[hi].String()
	if v == announceclient.V1 {
		method, url = "GET", "/announce"
	}
	req := httptest.NewRequest(method, url, bytes.NewReader(body))
	rec := httptest.NewRecorder()
	h.ServeHTTP(rec, req)
	if rec.Code != http.StatusOK {
		return fmt.Sprintf("http%d", rec.Code), nil
	}
	var resp announceclient.Response
	if err := json.NewDecoder(rec.Body).Decode(&resp); err != nil {
		return "undecodable", nil
	}
	for _, p := range resp.Peers {
		if p == nil {
			return "nullpeer", nil
		}
	}
	return "ok", resp.Peers
}
