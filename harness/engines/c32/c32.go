// Package c32 records histories of one real build-index node (property C32): the real tagserver HTTP
// handler over a real tagstore (store.SimpleStore in a temp dir), a real persistedretry manager with the
// real write-back executor and task table (sqlite), a scripted origin cluster client (dependency Stat)
// and a gated fake backend whose every call is answered by the harness. The harness only records; the
// verdict comes from spec/index/TagStoreTrace.tla.
package c32

import (
	"bytes"
	"context"
	"errors"
	"fmt"
	"io"
	stdlog "log"
	"math/rand"
	"net/http"
	"net/http/httptest"
	"net/url"
	"os"
	"path/filepath"
	"runtime"
	"sort"
	"strings"
	"sync"
	"sync/atomic"
	"time"

	"github.com/jmoiron/sqlx"
	"github.com/uber-go/tally"
	"go.opentelemetry.io/otel/trace/noop"

	"github.com/uber/kraken/build-index/tagclient"
	"github.com/uber/kraken/build-index/tagserver"
	"github.com/uber/kraken/build-index/tagstore"
	"github.com/uber/kraken/core"
	"github.com/uber/kraken/lib/backend"
	"github.com/uber/kraken/lib/backend/backenderrors"
	"github.com/uber/kraken/lib/persistedretry"
	"github.com/uber/kraken/lib/persistedretry/tagreplication"
	"github.com/uber/kraken/lib/persistedretry/writeback"
	"github.com/uber/kraken/lib/store"
	"github.com/uber/kraken/lib/store/metadata"
	"github.com/uber/kraken/localdb"
	"github.com/uber/kraken/origin/blobclient"
	"github.com/uber/kraken/utils/httputil"
	"github.com/uber/kraken/utils/stringset"

	"kvh/internal/eng"
)

func init() { eng.Register("c32", run) }

const (
	nTags    = 3
	nDigests = 3
	nBlobs   = 3
	maxAtt   = 3 // 1 + SyncRetryBackoff.MaxRetries
)

// ---------------------------------------------------------------------------------------------
// gated fake backend: every call blocks until the harness answers it.

type gateCall struct {
	op      string // stat | upload | download
	name    string
	worker  bool   // issued from a persistedretry manager worker goroutine (asynchronous write-back)
	content string // upload: bytes read from src
	reply   chan string
}

type fakeBackend struct {
	mu       sync.Mutex
	kv       map[string]string
	arrivals chan *gateCall
	auto     atomic.Bool // teardown: answer every call with an error, without involving the harness
}

var errBackendDown = errors.New("c32: backend unavailable")

func fromWorker() bool {
	pcs := make([]uintptr, 64)
	n := runtime.Callers(2, pcs)
	fr := runtime.CallersFrames(pcs[:n])
	for {
		f, more := fr.Next()
		if strings.Contains(f.Function, "persistedretry.(*manager).worker") {
			return true
		}
		if !more {
			return false
		}
	}
}

func (b *fakeBackend) ask(op, name, content string) string {
	if b.auto.Load() {
		return "err"
	}
	c := &gateCall{op: op, name: name, worker: fromWorker(), content: content, reply: make(chan string, 1)}
	b.arrivals <- c
	return <-c.reply
}

func (b *fakeBackend) get(name string) (string, bool) {
	b.mu.Lock()
	defer b.mu.Unlock()
	v, ok := b.kv[name]
	return v, ok
}

func (b *fakeBackend) Stat(namespace, name string) (*core.BlobInfo, error) {
	switch b.ask("stat", name, "") {
	case "truth":
		if v, ok := b.get(name); ok {
			return core.NewBlobInfo(int64(len(v))), nil
		}
		return nil, backenderrors.ErrBlobNotFound
	}
	return nil, errBackendDown
}

func (b *fakeBackend) Upload(namespace, name string, src io.Reader) error {
	data, err := io.ReadAll(src)
	if err != nil {
		return err
	}
	switch b.ask("upload", name, string(data)) {
	case "ok":
		b.mu.Lock()
		b.kv[name] = string(data)
		b.mu.Unlock()
		return nil
	case "lost": // stored, but the reply is lost
		b.mu.Lock()
		b.kv[name] = string(data)
		b.mu.Unlock()
		return errBackendDown
	}
	return errBackendDown
}

func (b *fakeBackend) Download(namespace, name string, dst io.Writer) error {
	switch b.ask("download", name, "") {
	case "truth":
		if v, ok := b.get(name); ok {
			_, err := io.WriteString(dst, v)
			return err
		}
		return backenderrors.ErrBlobNotFound
	}
	return errBackendDown
}

func (b *fakeBackend) List(prefix string, opts ...backend.ListOption) (*backend.ListResult, error) {
	return &backend.ListResult{}, nil
}
func (b *fakeBackend) Close() error { return nil }

// ---------------------------------------------------------------------------------------------
// scripted origin cluster: only Stat matters for the tag server.

type fakeOrigin struct {
	mu      sync.Mutex
	present map[core.Digest]bool
	ofail   int // the ofail-th Stat of the current request fails with a non-404 error (0 = none)
	nstat   int
}

func (o *fakeOrigin) begin(ofail int) {
	o.mu.Lock()
	o.ofail, o.nstat = ofail, 0
	o.mu.Unlock()
}
func (o *fakeOrigin) Stat(namespace string, d core.Digest) (*core.BlobInfo, error) {
	o.mu.Lock()
	defer o.mu.Unlock()
	o.nstat++
	if o.nstat == o.ofail {
		return nil, errors.New("c32: origin unavailable")
	}
	if o.present[d] {
		return core.NewBlobInfo(1), nil
	}
	return nil, blobclient.ErrBlobNotFound
}
func (o *fakeOrigin) CheckReadiness() error { return nil }
func (o *fakeOrigin) UploadBlob(ctx context.Context, namespace string, d core.Digest, blob io.ReadSeeker, size uint64) error {
	return errors.New("unused")
}
func (o *fakeOrigin) DownloadBlob(ctx context.Context, namespace string, d core.Digest, dst io.Writer) error {
	return errors.New("unused")
}
func (o *fakeOrigin) PrefetchBlob(namespace string, d core.Digest) error { return errors.New("unused") }
func (o *fakeOrigin) GetMetaInfo(namespace string, d core.Digest) (*core.MetaInfo, error) {
	return nil, errors.New("unused")
}
func (o *fakeOrigin) OverwriteMetaInfo(d core.Digest, pieceLength int64) error {
	return errors.New("unused")
}
func (o *fakeOrigin) Owners(d core.Digest) ([]core.PeerContext, error) { return nil, errors.New("unused") }
func (o *fakeOrigin) ReplicateToRemote(namespace string, d core.Digest, remoteDNS string) error {
	return errors.New("unused")
}

// dependency resolver: dependencies are a function of the manifest digest, fixed per history.
type fakeResolver struct{ deps map[core.Digest]core.DigestList }

func (r *fakeResolver) Resolve(tag string, d core.Digest) (core.DigestList, error) {
	return append(core.DigestList{}, r.deps[d]...), nil
}

type noHosts struct{}

func (noHosts) Resolve() stringset.Set { return stringset.New() }

type noProvider struct{}

func (noProvider) Provide(addr string) tagclient.Client { return nil }

type noManager struct{}

func (noManager) Add(persistedretry.Task) error      { return nil }
func (noManager) SyncExec(persistedretry.Task) error { return nil }
func (noManager) Close()                             {}
func (noManager) Find(query interface{}) ([]persistedretry.Task, error) {
	return nil, nil
}

// task table wrapper: the real sqlite store plus a completion signal per execution.
type finEvent struct{ kind, name string }
type sigStore struct {
	*writeback.Store
	fin chan finEvent
}

func (s *sigStore) MarkFailed(t persistedretry.Task) error {
	err := s.Store.MarkFailed(t)
	if wt, ok := t.(*writeback.Task); ok {
		s.signal(finEvent{"failed", wt.Name})
	}
	return err
}
func (s *sigStore) Remove(t persistedretry.Task) error {
	err := s.Store.Remove(t)
	if wt, ok := t.(*writeback.Task); ok {
		s.signal(finEvent{"done", wt.Name})
	}
	return err
}
func (s *sigStore) signal(e finEvent) {
	select {
	case s.fin <- e:
	default:
	}
}

// ---------------------------------------------------------------------------------------------

type node struct {
	c    *eng.Ctx
	rng  *rand.Rand
	wt   bool
	dir  string
	fs   *store.SimpleStore
	bk   *fakeBackend
	bks  *backend.Manager
	org  *fakeOrigin
	res  *fakeResolver
	st   *sigStore
	db   *sqlx.DB
	mgr  persistedretry.Manager
	srv  *httptest.Server
	hmu  sync.RWMutex
	h    http.Handler
	cl   *http.Client
	held []*gateCall // worker calls waiting at the gate

	tags    []string
	digests []core.Digest
	blobs   []core.Digest
	tagID   map[string]string
	digID   map[string]string
	bkBias  int // percentage of backend calls answered with a fault in the current phase
}

func (n *node) ServeHTTP(w http.ResponseWriter, r *http.Request) {
	n.hmu.RLock()
	h := n.h
	n.hmu.RUnlock()
	h.ServeHTTP(w, r)
}

func (n *node) mgrConfig() persistedretry.Config {
	return persistedretry.Config{
		NumIncomingWorkers:  1,
		NumRetryWorkers:     1,
		MaxTaskThroughput:   time.Millisecond,
		RetryInterval:       time.Millisecond,
		PollRetriesInterval: 4 * time.Millisecond,
		SyncRetryBackoff: httputil.ExponentialBackOffConfig{
			Enabled: true, InitialInterval: time.Millisecond, RandomizationFactor: 0.05, Multiplier: 1.5,
			MaxInterval: 5 * time.Millisecond, MaxRetries: maxAtt - 1,
		},
	}
}

// boot (re)creates manager, tag store and server handler over the same disk store, task table and backend.
func (n *node) boot() error {
	ex := writeback.NewExecutor(tally.NoopScope, n.fs, n.bks)
	mgr, err := persistedretry.NewManager(n.mgrConfig(), tally.NoopScope, n.st, ex)
	if err != nil {
		return err
	}
	n.mgr = mgr
	ts := tagstore.New(tagstore.Config{WriteThrough: n.wt}, n.fs, n.bks, mgr)
	srv := tagserver.New(tagserver.Config{}, tally.NoopScope, n.bks, "origin-dns", n.org, noHosts{}, ts,
		tagreplication.Remotes{}, noManager{}, noProvider{}, n.res, noop.NewTracerProvider().Tracer("c32"))
	n.hmu.Lock()
	n.h = srv.Handler()
	n.hmu.Unlock()
	return nil
}

func newNode(c *eng.Ctx, rng *rand.Rand, wt bool) (*node, error) {
	base := "" // sqlite fsyncs dominate the per-history cost on a busy disk: prefer a memory file system
	if os.Getenv("TMPDIR") == "" {
		if st, err := os.Stat("/dev/shm"); err == nil && st.IsDir() {
			base = "/dev/shm"
		}
	}
	dir, err := os.MkdirTemp(base, "c32-")
	if err != nil {
		return nil, err
	}
	n := &node{c: c, rng: rng, wt: wt, dir: dir, tagID: map[string]string{}, digID: map[string]string{}}
	fs, err := store.NewSimpleStore(store.SimpleStoreConfig{
		UploadDir: filepath.Join(dir, "upload"), CacheDir: filepath.Join(dir, "cache"),
		UploadCleanup: store.CleanupConfig{Disabled: true}, CacheCleanup: store.CleanupConfig{Disabled: true},
	}, tally.NoopScope)
	if err != nil {
		return nil, err
	}
	n.fs = fs
	db, err := localdb.New(localdb.Config{Source: filepath.Join(dir, "db", "tasks.db")})
	if err != nil {
		return nil, err
	}
	n.db = db
	n.st = &sigStore{Store: writeback.NewStore(db), fin: make(chan finEvent, 64)}
	n.bk = &fakeBackend{kv: map[string]string{}, arrivals: make(chan *gateCall, 64)}
	n.bks = backend.ManagerFixture()
	if err := n.bks.Register(".*", n.bk, false); err != nil {
		return nil, err
	}
	n.org = &fakeOrigin{present: map[core.Digest]bool{}}
	n.res = &fakeResolver{deps: map[core.Digest]core.DigestList{}}
	repos := []string{"library/alpine", "team-a/svc", "x"}
	for i := 0; i < nTags; i++ {
		t := fmt.Sprintf("%s:v%d", repos[i%len(repos)], rng.Intn(90)+1)
		n.tags = append(n.tags, t)
		n.tagID[t] = fmt.Sprintf("t%d", i+1)
	}
	for i := 0; i < nDigests; i++ {
		d := core.DigestFixture()
		n.digests = append(n.digests, d)
		n.digID[d.String()] = fmt.Sprintf("d%d", i+1)
	}
	for i := 0; i < nBlobs; i++ {
		n.blobs = append(n.blobs, core.DigestFixture())
	}
	for _, d := range n.digests { // 0..3 distinct dependencies in random order
		perm := rng.Perm(nBlobs)[:rng.Intn(nBlobs+1)]
		var l core.DigestList
		for _, j := range perm {
			l = append(l, n.blobs[j])
		}
		n.res.deps[d] = l
	}
	if err := n.boot(); err != nil {
		return nil, err
	}
	n.srv = httptest.NewServer(n)
	n.cl = &http.Client{Timeout: 60 * time.Second}
	return n, nil
}

func (n *node) close() {
	n.bk.auto.Store(true)
	for _, g := range n.held {
		g.reply <- "err"
	}
	n.held = nil
	done := make(chan struct{})
	go func() { n.mgr.Close(); close(done) }()
	for closed := false; !closed; {
		select {
		case g := <-n.bk.arrivals:
			g.reply <- "err"
		case <-done:
			closed = true
		}
	}
	n.srv.Close()
	n.db.Close()
	n.fs.Close()
	os.RemoveAll(n.dir)
}

// ---- observations

func (n *node) digName(s string) string {
	if id, ok := n.digID[s]; ok {
		return id
	}
	return "other"
}

func (n *node) obs() []any {
	disk, pers, bk := map[string]any{}, map[string]any{}, map[string]any{}
	for _, t := range n.tags {
		id := n.tagID[t]
		disk[id], pers[id], bk[id] = "none", false, "none"
		if r, err := n.fs.GetCacheFileReader(t); err == nil {
			b, _ := io.ReadAll(r)
			r.Close()
			disk[id] = n.digName(string(b))
		} else if !os.IsNotExist(err) {
			disk[id] = "err"
		}
		var p metadata.Persist
		if err := n.fs.GetCacheFileMetadata(t, &p); err == nil {
			pers[id] = p.Value
		}
		if v, ok := n.bk.get(t); ok {
			bk[id] = n.digName(v)
		}
	}
	set := map[string]bool{}
	var names []string // one statement: the retry poller moves tasks between "failed" and "pending" at any time
	if err := n.db.Select(&names, `SELECT name FROM writeback_task`); err != nil {
		set["err"] = true
	}
	for _, name := range names {
		if id, ok := n.tagID[name]; ok {
			set[id] = true
		} else {
			set["other"] = true
		}
	}
	tasks := []string{}
	for k := range set {
		tasks = append(tasks, k)
	}
	sort.Strings(tasks)
	return []any{"disk", disk, "pers", pers, "bk", bk, "tasks", tasks}
}

func (n *node) ev(name string, kv ...any) { n.c.W.Ev(name, append(kv, n.obs()...)...) }

// ---- environment decisions

func (n *node) fault() bool { return n.rng.Intn(100) < n.bkBias }

func (n *node) statAnswer(name string) (reply, logged string) {
	if n.fault() {
		return "err", "err"
	}
	if _, ok := n.bk.get(name); ok {
		return "truth", "found"
	}
	return "truth", "nf"
}
func (n *node) uploadAnswer() string {
	if n.fault() {
		if n.rng.Intn(3) == 0 {
			return "lost"
		}
		return "err"
	}
	return "ok"
}

// ---- HTTP calls. A request runs in its own goroutine; the harness answers the backend calls the
// request itself makes (write-through execution, download, stat) and parks calls of manager workers.

type httpRes struct {
	code int
	body string
	err  error
}

func (n *node) send(method, path string, body []byte) chan httpRes {
	ch := make(chan httpRes, 1)
	go func() {
		var rd io.Reader
		if body != nil {
			rd = bytes.NewReader(body)
		}
		req, err := http.NewRequest(method, n.srv.URL+path, rd)
		if err != nil {
			ch <- httpRes{err: err}
			return
		}
		resp, err := n.cl.Do(req)
		if err != nil {
			ch <- httpRes{err: err}
			return
		}
		b, _ := io.ReadAll(resp.Body)
		resp.Body.Close()
		ch <- httpRes{code: resp.StatusCode, body: string(b)}
	}()
	return ch
}

// pump waits for the request to finish, passing every backend call made by the request to onCall.
func (n *node) pump(ch chan httpRes, onCall func(g *gateCall)) httpRes {
	for {
		select {
		case r := <-ch:
			return r
		case g := <-n.bk.arrivals:
			if g.worker {
				n.held = append(n.held, g)
			} else {
				onCall(g)
			}
		}
	}
}

func class(r httpRes) string {
	switch {
	case r.err != nil:
		return "neterr"
	case r.code == 200:
		return "ok"
	case r.code == 404:
		return "notfound"
	case r.code == 500:
		return "err"
	}
	return fmt.Sprintf("http%d", r.code)
}

// attempts collects the executor's backend calls made inside one request: one attempt per Stat.
type attempts struct {
	n    *node
	list [][]string
}

func (a *attempts) on(g *gateCall) {
	switch g.op {
	case "stat":
		reply, logged := a.n.statAnswer(g.name)
		a.list = append(a.list, []string{logged, "na", "na"})
		g.reply <- reply
	case "upload":
		u := a.n.uploadAnswer()
		if len(a.list) == 0 {
			a.list = append(a.list, []string{"none", "na", "na"})
		}
		last := a.list[len(a.list)-1]
		last[1], last[2] = u, a.n.digName(g.content)
		g.reply <- u
	default:
		a.list = append(a.list, []string{"unexpected-" + g.op, "na", "na"})
		g.reply <- "err"
	}
}
func (a *attempts) json() []any {
	out := []any{}
	for _, x := range a.list {
		out = append(out, []any{x[0], x[1], x[2]})
	}
	return out
}

func (n *node) depIDs(d core.Digest) []any {
	out := []any{}
	for _, b := range n.res.deps[d] {
		for j, x := range n.blobs {
			if x == b {
				out = append(out, fmt.Sprintf("b%d", j+1))
			}
		}
	}
	return out
}

func (n *node) put(ti, di int) {
	t, d := n.tags[ti], n.digests[di]
	deps := n.res.deps[d]
	ofail := 0
	if len(deps) > 0 && n.rng.Intn(8) == 0 {
		ofail = 1 + n.rng.Intn(len(deps))
	}
	n.org.begin(ofail)
	att := &attempts{n: n}
	r := n.pump(n.send("PUT", fmt.Sprintf("/tags/%s/digest/%s", url.PathEscape(t), d.String()), nil), att.on)
	n.org.mu.Lock()
	nstat := n.org.nstat
	n.org.mu.Unlock()
	n.ev("Put", "tag", n.tagID[t], "d", n.digID[d.String()], "deps", n.depIDs(d), "ofail", ofail,
		"nstat", nstat, "att", att.json(), "res", class(r))
}

func (n *node) dupPut(ti, di int) {
	t, d := n.tags[ti], n.digests[di]
	delay := time.Duration(0)
	if n.rng.Intn(2) == 0 {
		delay = time.Duration(10+n.rng.Intn(30)) * time.Millisecond
	}
	body := []byte(fmt.Sprintf(`{"delay":%d}`, int64(delay)))
	att := &attempts{n: n}
	r := n.pump(n.send("PUT", fmt.Sprintf("/internal/duplicate/tags/%s/digest/%s", url.PathEscape(t), d.String()), body), att.on)
	n.ev("DupPut", "tag", n.tagID[t], "d", n.digID[d.String()], "delay", int(delay/time.Millisecond),
		"att", att.json(), "res", class(r))
}

func (n *node) get(ti int) {
	t := n.tags[ti]
	dl := "na"
	r := n.pump(n.send("GET", "/tags/"+url.PathEscape(t), nil), func(g *gateCall) {
		if g.op != "download" {
			dl = "unexpected-" + g.op
			g.reply <- "err"
			return
		}
		if n.fault() {
			dl = "err"
			g.reply <- "err"
			return
		}
		if _, ok := n.bk.get(g.name); ok {
			dl = "ok"
		} else {
			dl = "nf"
		}
		g.reply <- "truth"
	})
	res := class(r)
	if res == "ok" {
		res = n.digName(r.body)
	}
	n.ev("Get", "tag", n.tagID[t], "dl", dl, "res", res)
}

func (n *node) has(ti int) {
	t := n.tags[ti]
	st := "none"
	r := n.pump(n.send("HEAD", "/tags/"+url.PathEscape(t), nil), func(g *gateCall) {
		if g.op != "stat" {
			st = "unexpected-" + g.op
			g.reply <- "err"
			return
		}
		var reply string
		reply, st = n.statAnswer(g.name)
		g.reply <- reply
	})
	n.ev("Has", "tag", n.tagID[t], "st", st, "res", class(r))
}

func (n *node) origin(bi int, on bool) {
	n.org.mu.Lock()
	n.org.present[n.blobs[bi]] = on
	n.org.mu.Unlock()
	n.ev("Origin", "b", fmt.Sprintf("b%d", bi+1), "on", on)
}

// ---- asynchronous write-back: one whole execution of a task by a manager worker per step.

// workerStat waits until a worker is blocked in the Stat that starts an execution and returns it.
func (n *node) workerStat(timeout time.Duration, settle bool) *gateCall {
	deadline := time.After(timeout)
	for len(n.held) == 0 {
		select {
		case g := <-n.bk.arrivals:
			n.held = append(n.held, g)
		case <-deadline:
			return nil
		}
	}
	if settle { // let the other worker reach the gate too, so that the choice below is reproducible
		t := time.After(3 * time.Millisecond)
		for wait := true; wait; {
			select {
			case g := <-n.bk.arrivals:
				n.held = append(n.held, g)
			case <-t:
				wait = false
			}
		}
	}
	sort.Slice(n.held, func(i, j int) bool { return n.held[i].name < n.held[j].name })
	i := n.rng.Intn(len(n.held))
	g := n.held[i]
	n.held = append(n.held[:i], n.held[i+1:]...)
	return g
}

func (n *node) drainFin() {
	for {
		select {
		case <-n.st.fin:
		default:
			return
		}
	}
}

// execStep lets one blocked worker execution run to completion and logs it. Returns false if no worker arrived.
func (n *node) execStep(timeout time.Duration, during func()) bool {
	g := n.workerStat(timeout, true)
	if g == nil {
		return false
	}
	n.runExec(g, during)
	return true
}

func (n *node) runExec(g *gateCall, during func()) {
	a := []any{"na", "na", "na"}
	name := g.name
	if g.op != "stat" {
		a[0] = "unexpected-" + g.op
		g.reply <- "err"
	} else {
		n.drainFin()
		reply, logged := n.statAnswer(name)
		a[0] = logged
		g.reply <- reply
	}
	res := "stuck"
	deadline := time.After(20 * time.Second)
loop:
	for {
		select {
		case f := <-n.st.fin:
			if f.name == name {
				res = f.kind
				break loop
			}
		case c := <-n.bk.arrivals:
			if c.worker && c.name == name && c.op == "upload" && a[1] == "na" {
				if during != nil {
					during() // a client call while the execution is between its Stat and its Upload
				}
				u := n.uploadAnswer()
				a[1], a[2] = u, n.digName(c.content)
				c.reply <- u
			} else {
				n.held = append(n.held, c)
			}
		case <-deadline:
			break loop
		}
	}
	tid, ok := n.tagID[name]
	if !ok {
		tid = "other"
	}
	n.ev("WbExec", "tag", tid, "a", a, "res", res)
}

// restart closes the manager (executions in flight are completed and logged) and boots a new one on the
// same disk store and task table.
func (n *node) restart() error {
	done := make(chan struct{})
	go func() { n.mgr.Close(); close(done) }()
	for closed := false; !closed; {
		if len(n.held) > 0 {
			g := n.held[0]
			n.held = n.held[1:]
			n.runExec(g, nil)
			continue
		}
		select {
		case g := <-n.bk.arrivals:
			n.held = append(n.held, g)
		case <-done:
			closed = true
		}
	}
	if err := n.boot(); err != nil {
		return err
	}
	n.drainFin()
	n.ev("Restart")
	return nil
}

func (n *node) taskCount() int {
	var c int
	if err := n.db.Get(&c, `SELECT COUNT(*) FROM writeback_task`); err != nil {
		return 0
	}
	return c
}

func run(c *eng.Ctx) error {
	ntr := c.N(120, 2000)
	stdlog.SetOutput(io.Discard) // goose (sqlite migrations) logs through the standard logger
	defer stdlog.SetOutput(os.Stderr)
	var ferr error
	c.Traces(ntr, func(t int, rng *rand.Rand) {
		if ferr != nil {
			return
		}
		wt := t%5 < 2 // 40 % write-through, 60 % write-back
		n, err := newNode(c, rng, wt)
		if err != nil {
			ferr = err
			return
		}
		defer n.close()
		c.W.Reset(t, map[string]any{"wt": wt, "maxatt": maxAtt})
		// most dependencies present from the start, so that puts get through
		for b := 0; b < nBlobs; b++ {
			if rng.Intn(4) != 0 {
				n.origin(b, true)
			}
		}
		steps := 12 + rng.Intn(16)
		n.bkBias = []int{0, 30, 60, 100}[rng.Intn(4)]
		for s := 0; s < steps && ferr == nil; s++ {
			if rng.Intn(6) == 0 { // a new backend weather phase
				n.bkBias = []int{0, 30, 60, 100}[rng.Intn(4)]
			}
			ti, di := rng.Intn(nTags), rng.Intn(nDigests)
			if rng.Intn(3) != 0 { // concentrate on few tags so that re-puts with another digest happen
				ti = rng.Intn(2)
			}
			switch k := rng.Intn(100); {
			case k < 30:
				n.put(ti, di)
			case k < 38:
				n.dupPut(ti, di)
			case k < 55:
				n.get(ti)
			case k < 62:
				n.has(ti)
			case k < 70:
				n.origin(rng.Intn(nBlobs), rng.Intn(3) != 0)
			case k < 76:
				ferr = n.restart()
			default:
				if !wt && n.taskCount() > 0 {
					var during func()
					if rng.Intn(4) == 0 {
						during = func() {
							if rng.Intn(2) == 0 {
								n.put(ti, di)
							} else {
								n.get(ti)
							}
						}
					}
					n.execStep(5*time.Second, during)
				} else {
					n.get(ti)
				}
			}
		}
		if ferr != nil {
			return
		}
		// the backend becomes healthy; give the node the chance to finish every write-back
		n.bkBias = 0
		for i := 0; i < 4*nTags+4 && n.taskCount() > 0; i++ {
			if !n.execStep(20*time.Second, nil) {
				break
			}
		}
		for ti := 0; ti < nTags; ti++ {
			n.get(ti)
		}
		n.ev("Drain")
	})
	return ferr
}
