// Package trk holds what the tracker engines (c26, c27, c28) share: the fixed small alphabets
// (torrents h1.., peers p1.., addresses a1.., origins o1..) with their real kraken values, the
// projection of a real LocalStore into log fields, and a clock whose Now() is a gate.
package trk

import (
	"crypto/sha256"
	"encoding/hex"
	"fmt"
	"runtime"
	"sort"
	"strings"
	"sync"
	"time"

	"github.com/andres-erbsen/clock"

	"github.com/uber/kraken/core"
	"github.com/uber/kraken/tracker/peerstore"
)

// Addr is an (ip, port) pair.
type Addr struct {
	IP   string
	Port int
}

// World maps the model alphabets to real values (deterministic: the same in every run).
type World struct {
	Hashes  []core.InfoHash
	Digests []core.Digest
	Peers   []core.PeerID
	Addrs   []Addr
	Origins []*core.PeerInfo
	hname   map[core.InfoHash]string
	pname   map[core.PeerID]string
	Base    time.Time
}

// NewWorld builds nh torrents, np peers, na addresses, no origins.
func NewWorld(nh, np, na, no int) *World {
	w := &World{hname: map[core.InfoHash]string{}, pname: map[core.PeerID]string{},
		Base: time.Unix(1700000000-1700000000%3600, 0)}
	for i := 1; i <= nh; i++ {
		sum := sha256.Sum256([]byte(fmt.Sprintf("verif-blob-%d", i)))
		d, err := core.NewSHA256DigestFromHex(hex.EncodeToString(sum[:]))
		if err != nil {
			panic(err)
		}
		h := core.NewInfoHashFromBytes([]byte(fmt.Sprintf("verif-torrent-%d", i)))
		w.Hashes = append(w.Hashes, h)
		w.Digests = append(w.Digests, d)
		w.hname[h] = fmt.Sprintf("h%d", i)
	}
	for i := 1; i <= np; i++ {
		p, err := core.HashedPeerID(fmt.Sprintf("verif-peer-%d", i))
		if err != nil {
			panic(err)
		}
		w.Peers = append(w.Peers, p)
		w.pname[p] = fmt.Sprintf("p%d", i)
	}
	for i := 1; i <= na; i++ {
		w.Addrs = append(w.Addrs, Addr{fmt.Sprintf("10.0.%d.%d", i, 10+i), 7000 + i})
	}
	for i := 1; i <= no; i++ {
		p, err := core.HashedPeerID(fmt.Sprintf("verif-origin-%d", i))
		if err != nil {
			panic(err)
		}
		w.pname[p] = fmt.Sprintf("o%d", i)
		w.Origins = append(w.Origins, core.NewPeerInfo(p, fmt.Sprintf("10.9.%d.1", i), 9000+i, true, true))
	}
	return w
}

// HName names a torrent ("h?" when it is not one of the world's).
func (w *World) HName(h core.InfoHash) string {
	if s, ok := w.hname[h]; ok {
		return s
	}
	return "h?"
}

// PName names a peer or origin id.
func (w *World) PName(p core.PeerID) string {
	if s, ok := w.pname[p]; ok {
		return s
	}
	return "p?"
}

// AName names an (ip,port) pair: a<i> for the i-th address, o<i> for the i-th origin's address.
func (w *World) AName(ip string, port int) string {
	for i, a := range w.Addrs {
		if a.IP == ip && a.Port == port {
			return fmt.Sprintf("a%d", i+1)
		}
	}
	for i, o := range w.Origins {
		if o.IP == ip && o.Port == port {
			return fmt.Sprintf("o%d", i+1)
		}
	}
	return "a?"
}

// Rel is t in whole clock units (seconds) since Base; -1 if t is not a whole number of seconds.
func (w *World) Rel(t time.Time) int {
	d := t.Sub(w.Base)
	if d%time.Second != 0 {
		return -1
	}
	return int(d / time.Second)
}

// Obs projects the real store: parallel arrays over live entries (sorted by torrent, peer),
// group deadlines per torrent name (0 = no group), the clock, and index consistency.
func (w *World) Obs(s *peerstore.LocalStore, now time.Time) []any {
	type ent struct {
		h, p, a string
		c       bool
		e       int
	}
	var ents []ent
	gl := map[string]int{}
	for _, h := range w.Hashes {
		gl[w.HName(h)] = 0
	}
	idx := true
	for _, g := range s.VerifSnapshot() {
		hn := w.HName(g.Hash)
		gl[hn] = w.Rel(g.LastExpiresAt)
		if !g.IndexOK || g.Deleted {
			idx = false
		}
		seen := map[core.PeerID]bool{}
		for _, e := range g.List {
			if seen[e.ID] {
				idx = false
			}
			seen[e.ID] = true
			ents = append(ents, ent{hn, w.PName(e.ID), w.AName(e.IP, e.Port), e.Complete, w.Rel(e.ExpiresAt)})
		}
	}
	sort.SliceStable(ents, func(i, j int) bool {
		if ents[i].h != ents[j].h {
			return ents[i].h < ents[j].h
		}
		return ents[i].p < ents[j].p
	})
	sh, sp, sa := []string{}, []string{}, []string{}
	sc, se := []bool{}, []int{}
	for _, e := range ents {
		sh, sp, sa, sc, se = append(sh, e.h), append(sp, e.p), append(sa, e.a), append(sc, e.c), append(se, e.e)
	}
	return []any{"sh", sh, "sp", sp, "sa", sa, "sc", sc, "se", se, "gl", gl, "idx", idx, "now", w.Rel(now)}
}

// Reply renders a reply as parallel arrays (ids, addrs, origin flags, complete flags).
func (w *World) Reply(ps []*core.PeerInfo) (ids, addrs []string, origins, cs []bool) {
	ids, addrs, origins, cs = []string{}, []string{}, []bool{}, []bool{}
	for _, p := range ps {
		ids = append(ids, w.PName(p.PeerID))
		addrs = append(addrs, w.AName(p.IP, p.Port))
		origins = append(origins, p.Origin)
		cs = append(cs, p.Complete)
	}
	return
}

// ---------------------------------------------------------------------------------------------

// Caller kinds seen by the gate clock.
const (
	KEntries = 'e' // Now() called from cleanupExpiredPeerEntries
	KGroups  = 'g' // ... from cleanupExpiredPeerGroups
	KUpdate  = 'u' // ... from UpdatePeer / getOrInitLockedPeerGroup
	KOther   = 'o'
)

// GateClock is a clock.Mock whose Now() can (a) delay callers that are inside a cleanup pass, to
// widen the windows in which the pass holds or has just released a group lock, and (b) park the
// first such caller until the harness releases it.  It only delays; the time it returns is the mock's.
type GateClock struct {
	*clock.Mock
	mu      sync.Mutex
	inspect bool
	spin    time.Duration
	armed   byte
	stale   bool // the parked caller gets the time it asked for when it arrived, not the time of its release
	reached chan struct{}
	hold    chan struct{}
	Seq     []byte // caller kinds since the last Arm/ResetSeq (only while inspecting)
}

// NewGateClock returns a gate clock set to t.
func NewGateClock(t time.Time) *GateClock {
	m := clock.NewMock()
	m.Set(t)
	return &GateClock{Mock: m}
}

// SlowCleanup makes every Now() issued from inside a cleanup pass take d (0 = off).
func (g *GateClock) SlowCleanup(d time.Duration) {
	g.mu.Lock()
	g.spin, g.inspect = d, d > 0 || g.armed != 0
	g.mu.Unlock()
}

// Arm parks the next Now() issued from a cleanup pass of the given kind. The returned channels:
// reached is closed when the caller is parked; closing hold releases it.
func (g *GateClock) Arm(kind byte) (reached <-chan struct{}, hold chan<- struct{}) {
	g.mu.Lock()
	defer g.mu.Unlock()
	g.armed, g.inspect = kind, true
	g.reached, g.hold = make(chan struct{}), make(chan struct{})
	g.Seq = g.Seq[:0]
	return g.reached, g.hold
}

// ArmStale is Arm, except that the parked caller is answered with the time at which it arrived: the harness may
// move the clock while it is parked (a caller that is slow between reading the clock and using the value).
func (g *GateClock) ArmStale(kind byte) (reached <-chan struct{}, hold chan<- struct{}) {
	r, h := g.Arm(kind)
	g.mu.Lock()
	g.stale = true
	g.mu.Unlock()
	return r, h
}

// Disarm stops inspecting callers.
func (g *GateClock) Disarm() {
	g.mu.Lock()
	g.stale = false
	g.armed, g.inspect, g.spin = 0, false, 0
	g.mu.Unlock()
}

// Mark records a harness-side event (e.g. 'r': the cleanup pass returned) in Seq.
func (g *GateClock) Mark(k byte) {
	g.mu.Lock()
	if g.inspect {
		g.Seq = append(g.Seq, k)
	}
	g.mu.Unlock()
}

// Between reports whether the kinds recorded since Arm contain a, then b, then c in this order
// (e.g. 'e','u','r': an UpdatePeer read the clock after the entries pass started scanning and before
// the pass returned).
func (g *GateClock) Between(a, b, c byte) bool {
	g.mu.Lock()
	defer g.mu.Unlock()
	st := 0
	for _, k := range g.Seq {
		switch {
		case st == 0 && k == a:
			st = 1
		case st == 1 && k == b:
			st = 2
		case st == 2 && k == c:
			return true
		}
	}
	return false
}

func callerKind() byte {
	var pcs [12]uintptr
	n := runtime.Callers(3, pcs[:])
	fr := runtime.CallersFrames(pcs[:n])
	for {
		f, more := fr.Next()
		switch {
		case strings.HasSuffix(f.Function, ".cleanupExpiredPeerEntries"):
			return KEntries
		case strings.HasSuffix(f.Function, ".cleanupExpiredPeerGroups"):
			return KGroups
		case strings.HasSuffix(f.Function, ".UpdatePeer"), strings.HasSuffix(f.Function, ".getOrInitLockedPeerGroup"):
			return KUpdate
		}
		if !more {
			return KOther
		}
	}
}

// Now implements clock.Clock.
func (g *GateClock) Now() time.Time {
	g.mu.Lock()
	if !g.inspect {
		g.mu.Unlock()
		return g.Mock.Now()
	}
	k := callerKind()
	g.Seq = append(g.Seq, k)
	var reached, hold chan struct{}
	if g.armed != 0 && k == g.armed {
		reached, hold = g.reached, g.hold
		g.armed = 0
	}
	spin, stale := g.spin, g.stale
	g.mu.Unlock()
	if reached != nil {
		t := g.Mock.Now()
		close(reached)
		<-hold
		if stale {
			return t
		}
	} else if spin > 0 && (k == KEntries || k == KGroups) {
		for t0 := time.Now(); time.Since(t0) < spin; {
			runtime.Gosched()
		}
	}
	return g.Mock.Now()
}
