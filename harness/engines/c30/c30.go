// Package c30 drives a real persistedretry.Manager on the real sqlite task stores (writeback.Store and
// tagreplication.Store on localdb) through forced schedules and records its history (property C30).
//
// The store is wrapped by a recording decorator (that is where store events are emitted, while the decorator's lock is
// held, so log order = database order); the Executor is a gate that blocks until the driver releases it with a chosen
// outcome; the retry poller is held at its GetFailed call until the driver lets one poll through.  A crash is a copy of
// the sqlite file taken at a store-call boundary: from that instant nothing of the old process is recorded any more
// (its store and executor only return errors) and a new manager is started on the copy.
package c30

import (
	"errors"
	"fmt"
	"io"
	"math/rand"
	"os"
	"path/filepath"
	"sort"
	"sync"
	"sync/atomic"
	"time"

	"github.com/jmoiron/sqlx"
	"github.com/uber-go/tally"

	"github.com/uber/kraken/core"
	"github.com/uber/kraken/lib/persistedretry"
	"github.com/uber/kraken/lib/persistedretry/tagreplication"
	"github.com/uber/kraken/lib/persistedretry/writeback"
	"github.com/uber/kraken/localdb"
	"github.com/uber/kraken/utils/httputil"

	"kvh/internal/eng"
)

func init() { eng.Register("c30", run) }

const (
	longWait   = 10 * time.Second
	notReadyIn = 300 * time.Millisecond // Delay of tasks added as "not ready"
)

var errDead = errors.New("c30: process is gone")

// ---------------------------------------------------------------------------------------------------------------

type arrival struct {
	t   string
	rel chan bool
}

// world is one process incarnation: a manager, its store decorator and its executor.
type world struct {
	h      *harness
	path   string
	db     *sqlx.DB
	real   persistedretry.Store
	mgr    persistedretry.Manager
	dead   atomic.Bool
	deadCh chan struct{}
	poll   chan struct{} // one token = one GetFailed may pass
	atPoll atomic.Int32  // poller is waiting at the gate
	emu    sync.Mutex
	execs  []*arrival
	infl   map[string]int
}

type harness struct {
	c       *eng.Ctx
	kind    string
	dir     string
	mu      sync.Mutex // serialises store calls with their records and with snapshots
	w       *world
	gen     int
	calls   int
	crashAt int
	snap    string // path of the copy taken at the crash boundary
	aborted bool
	bg      sync.WaitGroup
	keys    map[string]string // real task key -> t1..t3
	findQ   []string          // alphabet names of the tasks the next Find query selects
	recs    atomic.Int64
}

func (h *harness) ev(name string, kv ...any) {
	h.recs.Add(1)
	h.c.W.Ev(name, kv...)
}

// evAlive records a driver-side event unless world w has crashed in the meantime; reports whether it was recorded.
func (h *harness) evAlive(w *world, name string, kv ...any) bool {
	h.mu.Lock()
	defer h.mu.Unlock()
	if w.dead.Load() {
		return false
	}
	h.ev(name, kv...)
	return true
}

func (h *harness) abort(why string) {
	if !h.aborted {
		h.aborted = true
		h.c.W.Ev("abort", "why", why)
		h.c.Inc("skipped", 1)
	}
}

func (h *harness) name(t persistedretry.Task) string {
	var k string
	switch x := t.(type) {
	case *writeback.Task:
		k = x.Namespace + "|" + x.Name
	case *tagreplication.Task:
		k = x.Tag + "|" + x.Destination
	}
	if n, ok := h.keys[k]; ok {
		return n
	}
	return "unknown"
}

func (h *harness) names(ts []persistedretry.Task) []string {
	out := []string{}
	for _, t := range ts {
		out = append(out, h.name(t))
	}
	sort.Strings(out)
	return out
}

func cls(err error) string {
	switch {
	case err == nil:
		return "ok"
	case errors.Is(err, persistedretry.ErrTaskExists):
		return "exists"
	case errors.Is(err, persistedretry.ErrTaskNotFound):
		return "notfound"
	case errors.Is(err, persistedretry.ErrManagerClosed):
		return "closed"
	}
	return "err"
}

// boundary is called with h.mu held after a store call was performed and recorded.
func (h *harness) boundary(w *world) {
	h.calls++
	if h.crashAt != 0 && h.calls >= h.crashAt {
		h.crashLocked(w)
	}
}

// crashLocked takes the snapshot of the sqlite file and cuts the old process off (h.mu held).
func (h *harness) crashLocked(w *world) {
	h.crashAt = 0
	h.gen++
	h.snap = filepath.Join(h.dir, fmt.Sprintf("snap%d.db", h.gen))
	if err := copyFile(w.path, h.snap); err != nil {
		h.abort("snapshot failed")
	}
	w.dead.Store(true)
	close(w.deadCh)
	h.ev("Crash")
}

func copyFile(src, dst string) error {
	in, err := os.Open(src)
	if err != nil {
		return err
	}
	defer in.Close()
	out, err := os.Create(dst)
	if err != nil {
		return err
	}
	if _, err := io.Copy(out, in); err != nil {
		out.Close()
		return err
	}
	return out.Close()
}

// ---------------------------------------------------------------------------------------------------------------
// recording decorator (persistedretry.Store)

type recStore struct{ w *world }

func (s recStore) call(name string, t persistedretry.Task, f func() error) error {
	w, h := s.w, s.w.h
	if w.dead.Load() {
		return errDead
	}
	h.mu.Lock()
	defer h.mu.Unlock()
	if w.dead.Load() {
		return errDead
	}
	err := f()
	h.ev(name, "task", h.name(t), "res", cls(err))
	h.boundary(w)
	return err
}

func (s recStore) list(name string, f func() ([]persistedretry.Task, error)) ([]persistedretry.Task, error) {
	w, h := s.w, s.w.h
	if w.dead.Load() {
		return nil, errDead
	}
	h.mu.Lock()
	defer h.mu.Unlock()
	if w.dead.Load() {
		return nil, errDead
	}
	ts, err := f()
	h.ev(name, "ts", h.names(ts), "res", cls(err))
	h.boundary(w)
	return ts, err
}

func (s recStore) AddPending(t persistedretry.Task) error {
	return s.call("AddPending", t, func() error { return s.w.real.AddPending(t) })
}
func (s recStore) AddFailed(t persistedretry.Task) error {
	return s.call("AddFailed", t, func() error { return s.w.real.AddFailed(t) })
}
func (s recStore) MarkPending(t persistedretry.Task) error {
	return s.call("MarkPending", t, func() error { return s.w.real.MarkPending(t) })
}
func (s recStore) MarkFailed(t persistedretry.Task) error {
	return s.call("MarkFailed", t, func() error { return s.w.real.MarkFailed(t) })
}
func (s recStore) Remove(t persistedretry.Task) error {
	return s.call("Remove", t, func() error { return s.w.real.Remove(t) })
}
func (s recStore) GetPending() ([]persistedretry.Task, error) {
	return s.list("GetPending", s.w.real.GetPending)
}
func (s recStore) GetFailed() ([]persistedretry.Task, error) {
	w := s.w
	w.atPoll.Store(1) // the poller is held here until the driver lets one poll through
	select {
	case <-w.poll:
	case <-w.deadCh:
	}
	w.atPoll.Store(0)
	return s.list("GetFailed", w.real.GetFailed)
}
func (s recStore) Find(q interface{}) ([]persistedretry.Task, error) {
	w, h := s.w, s.w.h
	if w.dead.Load() {
		return nil, errDead
	}
	h.mu.Lock()
	defer h.mu.Unlock()
	if w.dead.Load() {
		return nil, errDead
	}
	ts, err := w.real.Find(q)
	h.ev("Find", "q", h.findQ, "ts", h.names(ts), "res", cls(err))
	return ts, err
}

// ---------------------------------------------------------------------------------------------------------------
// gated executor (persistedretry.Executor)

type gatedExec struct{ w *world }

func (e gatedExec) Name() string { return "c30" }

func (e gatedExec) Exec(t persistedretry.Task) error {
	w, h := e.w, e.w.h
	n := h.name(t)
	a := &arrival{t: n, rel: make(chan bool, 1)}
	h.mu.Lock()
	if w.dead.Load() {
		h.mu.Unlock()
		return errDead
	}
	w.emu.Lock()
	w.infl[n]++
	infl := w.infl[n]
	w.execs = append(w.execs, a)
	w.emu.Unlock()
	h.ev("ExecStart", "task", n, "infl", infl)
	h.mu.Unlock()

	var ok bool
	select {
	case ok = <-a.rel:
	case <-w.deadCh:
		return errDead
	case <-time.After(3 * longWait):
		return errDead
	}
	h.mu.Lock()
	defer h.mu.Unlock()
	if w.dead.Load() {
		return errDead
	}
	w.emu.Lock()
	w.infl[n]--
	w.emu.Unlock()
	h.ev("ExecEnd", "task", n, "ok", ok)
	if ok {
		return nil
	}
	return errors.New("c30: scripted failure")
}

func (w *world) takeExec(i int) *arrival {
	w.emu.Lock()
	defer w.emu.Unlock()
	if i < 0 || i >= len(w.execs) {
		return nil
	}
	a := w.execs[i]
	w.execs = append(w.execs[:i], w.execs[i+1:]...)
	return a
}

func (w *world) nExecs() int {
	w.emu.Lock()
	defer w.emu.Unlock()
	return len(w.execs)
}

// ---------------------------------------------------------------------------------------------------------------

type validAll struct{}

func (validAll) Valid(tag, addr string) bool { return true }

type traceCfg struct {
	niw, nrw, ib, rb int
}

func (h *harness) managerConfig(tc traceCfg) persistedretry.Config {
	return persistedretry.Config{
		IncomingBuffer: tc.ib, RetryBuffer: tc.rb, NumIncomingWorkers: tc.niw, NumRetryWorkers: tc.nrw,
		MaxTaskThroughput: time.Nanosecond, RetryInterval: time.Nanosecond, PollRetriesInterval: time.Millisecond,
		SyncRetryBackoff: httputil.ExponentialBackOffConfig{Enabled: true, InitialInterval: time.Millisecond,
			MaxInterval: 2 * time.Millisecond, MaxRetries: 1},
		Testing: true,
	}
}

// start opens path (or reuses db) and starts a manager on it; records GetPending / MarkFailed / Started.
func (h *harness) start(path string, db *sqlx.DB, tc traceCfg) bool {
	var err error
	if db == nil {
		db, err = localdb.New(localdb.Config{Source: path})
		if err != nil {
			h.abort("localdb.New: " + err.Error())
			return false
		}
	}
	w := &world{h: h, path: path, db: db, deadCh: make(chan struct{}), poll: make(chan struct{}, 1), infl: map[string]int{}}
	if h.kind == "writeback" {
		w.real = writeback.NewStore(db)
	} else {
		s, err := tagreplication.NewStore(db, validAll{})
		if err != nil {
			h.abort("tagreplication.NewStore: " + err.Error())
			return false
		}
		w.real = s
	}
	h.mu.Lock()
	h.w = w
	h.mu.Unlock()
	mgr, err := persistedretry.NewManager(h.managerConfig(tc), tally.NoopScope, recStore{w}, gatedExec{w})
	if err != nil {
		if w.dead.Load() { // crashed inside NewManager: the caller restarts again
			return true
		}
		h.abort("NewManager: " + err.Error())
		return false
	}
	w.mgr = mgr
	h.mu.Lock()
	if !w.dead.Load() {
		h.ev("Started")
	}
	h.mu.Unlock()
	return true
}

// bury lets the goroutines of a dead world run out in the background.
func (h *harness) bury(w *world, closeDB bool) {
	h.bg.Add(1)
	go func() {
		defer h.bg.Done()
		if w.mgr != nil {
			w.mgr.Close()
		}
		if closeDB {
			w.db.Close()
		}
	}()
}

// recover restarts after a crash until a manager is up (a crash boundary may lie inside NewManager).
func (h *harness) recover(tc traceCfg) {
	for i := 0; i < 6 && !h.aborted; i++ {
		w := h.w
		if !w.dead.Load() {
			return
		}
		h.bury(w, true)
		if !h.start(h.snap, nil, tc) {
			return
		}
	}
}

// quiet waits until no record has been written for a short while (bounded).
func (h *harness) quiet(max time.Duration) {
	t0 := time.Now()
	last, since := h.recs.Load(), time.Now()
	for time.Since(t0) < max {
		time.Sleep(200 * time.Microsecond)
		if n := h.recs.Load(); n != last {
			last, since = n, time.Now()
		} else if time.Since(since) > 3*time.Millisecond {
			return
		}
	}
}

func (h *harness) pollOnce() {
	w := h.w
	t0 := time.Now()
	for w.atPoll.Load() == 0 && time.Since(t0) < 200*time.Millisecond && !w.dead.Load() {
		time.Sleep(100 * time.Microsecond)
	}
	select {
	case w.poll <- struct{}{}:
	default:
	}
}

func (h *harness) table() (pending, failed []string, err error) {
	h.mu.Lock()
	defer h.mu.Unlock()
	p, err := h.w.real.GetPending()
	if err != nil {
		return nil, nil, err
	}
	f, err := h.w.real.GetFailed()
	if err != nil {
		return nil, nil, err
	}
	return h.names(p), h.names(f), nil
}

// ---------------------------------------------------------------------------------------------------------------

func trace(c *eng.Ctx, t int, rng *rand.Rand) {
	kind := []string{"writeback", "tagreplication"}[t%2]
	tc := traceCfg{niw: 1 + rng.Intn(2), nrw: 1 + rng.Intn(2), ib: 1 + rng.Intn(2), rb: 1 + rng.Intn(2)}
	if rng.Intn(3) == 0 {
		tc = traceCfg{niw: 1, nrw: 1, ib: 1, rb: 1}
	}
	iw, rw := []string{"w1", "w2"}[:tc.niw], []string{"r1", "r2"}[:tc.nrw]
	c.W.Reset(t, map[string]any{"kind": kind, "iw": iw, "rw": rw, "ib": tc.ib, "rb": tc.rb, "tries": 2})
	dir, err := os.MkdirTemp("", "c30-")
	if err != nil {
		c.W.Ev("abort", "why", "tmpdir")
		c.Inc("skipped", 1)
		return
	}
	h := &harness{c: c, kind: kind, dir: dir, keys: map[string]string{}}
	defer func() {
		done := make(chan struct{})
		go func() { h.bg.Wait(); close(done) }()
		select {
		case <-done:
		case <-time.After(longWait):
		}
		os.RemoveAll(dir)
	}()

	// three task keys; t1 and t2 differ only in one of the two key columns
	digest := core.DigestFixture()
	deps := core.DigestList(core.DigestListFixture(2))
	mk := make([]func(delay time.Duration) persistedretry.Task, 3)
	if kind == "writeback" {
		ks := [][2]string{{"ns-one", digest.Hex()}, {"ns-two", digest.Hex()}, {"ns-one", core.DigestFixture().Hex()}}
		for i, k := range ks {
			k := k
			h.keys[k[0]+"|"+k[1]] = fmt.Sprintf("t%d", i+1)
			mk[i] = func(d time.Duration) persistedretry.Task { return writeback.NewTask(k[0], k[1], d) }
		}
	} else {
		ks := [][2]string{{"repo/a:v1", "index-one"}, {"repo/a:v1", "index-two"}, {"repo/b:v1", "index-one"}}
		for i, k := range ks {
			k := k
			h.keys[k[0]+"|"+k[1]] = fmt.Sprintf("t%d", i+1)
			mk[i] = func(d time.Duration) persistedretry.Task { return tagreplication.NewTask(k[0], digest, deps, k[1], d) }
		}
	}
	if !h.start(filepath.Join(dir, "tasks.db"), nil, tc) {
		return
	}

	var syncDone chan struct{}
	hadNotReady := false
	steps := 14 + rng.Intn(16)
	for s := 0; s < steps && !h.aborted; s++ {
		if h.w.dead.Load() {
			h.recover(tc)
			h.quiet(20 * time.Millisecond)
			continue
		}
		w := h.w
		switch x := rng.Intn(20); {
		case x < 6: // Add
			i := rng.Intn(3)
			ready := rng.Intn(5) != 0
			d := time.Duration(0)
			if !ready {
				d, hadNotReady = notReadyIn, true
			}
			task := mk[i](d)
			if !h.evAlive(w, "Add", "a", "a1", "task", fmt.Sprintf("t%d", i+1), "ready", ready) {
				continue
			}
			err := w.mgr.Add(task)
			h.evAlive(w, "AddRet", "a", "a1", "task", fmt.Sprintf("t%d", i+1), "res", cls(err))
		case x < 12: // release one execution with a chosen outcome
			if n := w.nExecs(); n > 0 {
				if a := w.takeExec(rng.Intn(n)); a != nil {
					a.rel <- rng.Intn(5) < 2
				}
			}
		case x < 15: // let the retry poller run once
			h.pollOnce()
		case x < 17: // crash: now, or at one of the next store-call boundaries
			h.mu.Lock()
			if k := rng.Intn(4); k == 0 {
				if !w.dead.Load() {
					h.crashLocked(w)
				}
			} else {
				h.crashAt = h.calls + k
			}
			h.mu.Unlock()
		case x < 18: // graceful Close and restart on the same file
			h.closeAndRestart(w, tc, rng, mk, syncDone)
		case x < 19 && rng.Intn(2) == 0: // Find (read-only observation of the table)
			q := [][]string{{"t1", "t2"}, {"t3"}}[rng.Intn(2)]
			name := ""
			if kind == "writeback" {
				name = mk[map[string]int{"t1": 0, "t3": 2}[q[0]]](0).(*writeback.Task).Name
			}
			h.mu.Lock()
			h.findQ = q
			h.mu.Unlock()
			w.mgr.Find(writeback.NewNameQuery(name))
			continue
		case x < 19 && syncDone == nil: // SyncExec
			i := rng.Intn(3)
			task := mk[i](0)
			if !h.evAlive(w, "SyncExec", "s", "s1", "task", fmt.Sprintf("t%d", i+1)) {
				continue
			}
			syncDone = make(chan struct{})
			go func(w *world, done chan struct{}) {
				defer close(done)
				res := "ok"
				if err := w.mgr.SyncExec(task); err != nil {
					res = "err"
				}
				h.evAlive(w, "SyncExecRet", "s", "s1", "res", res)
			}(w, syncDone)
		}
		if syncDone != nil {
			select {
			case <-syncDone:
				syncDone = nil
			default:
			}
		}
		h.quiet(20 * time.Millisecond)
	}

	// end of the history: no more faults, every execution succeeds, the poller runs; the table must drain
	if !h.aborted {
		h.mu.Lock()
		h.crashAt = 0
		h.mu.Unlock()
		if h.w.dead.Load() {
			h.recover(tc)
		}
		deadline := time.Now().Add(longWait)
		if hadNotReady {
			deadline = deadline.Add(notReadyIn)
		}
		var p, f []string
		for {
			w := h.w
			for w.nExecs() > 0 {
				if a := w.takeExec(0); a != nil {
					a.rel <- true
				}
			}
			h.pollOnce()
			h.quiet(10 * time.Millisecond)
			var err error
			p, f, err = h.table()
			if err != nil {
				h.abort("table read: " + err.Error())
				break
			}
			if (len(p) == 0 && len(f) == 0 && w.nExecs() == 0) || time.Now().After(deadline) {
				break
			}
		}
		if syncDone != nil {
			select {
			case <-syncDone:
			case <-time.After(longWait):
			}
		}
		h.quiet(10 * time.Millisecond)
		w := h.w
		h.mu.Lock()
		if !h.aborted {
			// the table as it is now, read while nothing else can touch it
			pp, _ := w.real.GetPending()
			ff, _ := w.real.GetFailed()
			h.ev("Final", "pending", h.names(pp), "failed", h.names(ff))
			h.ev("Drained")
		}
		w.dead.Store(true)
		close(w.deadCh)
		h.mu.Unlock()
		h.bury(w, true)
		return
	}
	w := h.w
	h.mu.Lock()
	if !w.dead.Load() {
		w.dead.Store(true)
		close(w.deadCh)
	}
	h.mu.Unlock()
	h.bury(w, true)
}

// closeAndRestart calls Close on the running manager; while Close waits, executions that arrive are released and the
// poller is let through (all of it recorded); afterwards Add must report ErrManagerClosed and a new manager is started
// on the same database.
func (h *harness) closeAndRestart(w *world, tc traceCfg, rng *rand.Rand, mk []func(time.Duration) persistedretry.Task,
	syncDone chan struct{}) {
	if !h.evAlive(w, "Close") {
		return
	}
	done := make(chan struct{})
	go func() { w.mgr.Close(); close(done) }()
	t0 := time.Now()
loop:
	for {
		select {
		case <-done:
			break loop
		default:
		}
		if w.dead.Load() {
			return // crashed while closing
		}
		if time.Since(t0) > longWait {
			h.abort("Close did not return")
			return
		}
		if n := w.nExecs(); n > 0 {
			if a := w.takeExec(rng.Intn(n)); a != nil {
				a.rel <- rng.Intn(3) != 0
			}
		}
		select {
		case w.poll <- struct{}{}:
		default:
		}
		time.Sleep(200 * time.Microsecond)
	}
	h.mu.Lock()
	if w.dead.Load() {
		h.mu.Unlock()
		return
	}
	h.ev("Closed")
	h.mu.Unlock()
	if rng.Intn(2) == 0 {
		i := rng.Intn(3)
		if h.evAlive(w, "Add", "a", "a1", "task", fmt.Sprintf("t%d", i+1), "ready", true) {
			err := w.mgr.Add(mk[i](0))
			h.evAlive(w, "AddRet", "a", "a1", "task", fmt.Sprintf("t%d", i+1), "res", cls(err))
		}
	}
	// a SyncExec still running on the closed manager is not affected by Close: let it finish before the old world is cut off
	for t1 := time.Now(); syncDone != nil; {
		select {
		case <-syncDone:
			syncDone = nil
			continue
		default:
		}
		if w.dead.Load() {
			return
		}
		if time.Since(t1) > longWait {
			h.abort("SyncExec did not return")
			return
		}
		if a := w.takeExec(0); a != nil {
			a.rel <- true
		}
		time.Sleep(200 * time.Microsecond)
	}
	// the old world must not record anything any more; its database handle is reused
	h.mu.Lock()
	w.dead.Store(true)
	close(w.deadCh)
	h.mu.Unlock()
	h.start(w.path, w.db, tc)
}

func run(c *eng.Ctx) error {
	n := c.N(60, 700)
	c.Traces(n, func(t int, rng *rand.Rand) { trace(c, t, rng) })
	skipped, _ := c.Stats["skipped"].(int)
	c.Stats["traces"] = n
	fmt.Printf("ENGINE-NOTE c30: %d traces, %d skipped (schedule could not be forced)\n", n, skipped)
	if c.Only < 0 && skipped*5 > n {
		return fmt.Errorf("dead driver: %d of %d schedules could not be forced", skipped, n)
	}
	return nil
}
