// Package x04 records histories of the storage-backend plumbing of kraken (extension module X04):
// backend.Manager (NewManager, Register, GetClient, AdjustBandwidth, CheckReadiness, Close), backend.NoopClient,
// backend.ThrottledClient and shadowbackend.Client, all real, over recording in-memory inner clients that can fail on
// demand.  Verdicts come from spec/backend/BackendManager.tla and spec/backend/ShadowBackend.tla; this driver only
// records.
//
// Families (reset cfg.family):
//
//	mseq      one caller, random Manager / noop / throttled-client calls with injected failures (huge bandwidth)
//	mgate     three callers; every inner call is a gate released by a seeded scheduler (deterministic interleavings)
//	timed     one throttled backend with a small bucket, real sleeps; sequential or free-running concurrent transfers
//	oversize  timed, with a blob larger than the bucket (known finding X04-1)
//	sseq      shadow client, one caller, injected failures of either backend and of the rewind
//	sgate     shadow client, three gated callers (uploads of one name never overlap)
//	offset    shadow upload of a source handed over at a non-zero offset (known finding X04-2)
//	race      two gated uploads of one name crossing between the backends (known finding X04-3)
package x04

import (
	"bytes"
	"errors"
	"fmt"
	"io"
	"math/rand"
	"regexp"
	"sort"
	"strings"
	"sync"
	"time"

	"github.com/uber-go/tally"
	"go.uber.org/zap"

	"github.com/uber/kraken/core"
	"github.com/uber/kraken/lib/backend"
	"github.com/uber/kraken/lib/backend/backenderrors"
	"github.com/uber/kraken/lib/backend/shadowbackend"
	"github.com/uber/kraken/utils/bandwidth"

	"kvh/internal/eng"
)

func init() {
	eng.Register("x04", run)
	backend.Register("x04", &factory{})
	backend.Register("x04err", &factory{fail: true})
}

// ---------------------------------------------------------------------------------------------------------------
// event buffer: one per trace, flushed in trace order (timed traces run in parallel)

type rec struct {
	ev string
	kv []any
}

type buf struct {
	mu   sync.Mutex
	cfg  map[string]any
	recs []rec
}

func (b *buf) Ev(ev string, kv ...any) {
	b.mu.Lock()
	b.recs = append(b.recs, rec{ev, kv})
	b.mu.Unlock()
}

func (b *buf) flush(c *eng.Ctx, t int) {
	c.W.Reset(t, b.cfg)
	for _, r := range b.recs {
		c.W.Ev(r.ev, r.kv...)
	}
}

// ---------------------------------------------------------------------------------------------------------------
// the world of one trace

var (
	errInj  = errors.New("x04: injected failure")        // manager family: every inner client
	errInjA = errors.New("x04: injected failure (active)") // shadow family
	errInjS = errors.New("x04: injected failure (shadow)")
	errSeek = errors.New("x04: injected seek failure")
)

type world struct {
	b      *buf
	t0     time.Time
	mu     sync.Mutex // one inner call at a time: the event order is the order of effects
	blobs  map[string][]byte
	ids    []string
	tsBits uint64
	burst  map[string][2]int64 // client -> egress / ingress bucket in tokens
	frng   *rand.Rand
	faultP int
	forced map[string]int // "cl/op" -> number of forced failures left
	g      *gate
	hmu    sync.Mutex
	handle map[any]string // source / destination objects of pending public calls -> caller
	mocks  map[string]*mock
}

func newWorld(rng *rand.Rand, family string) *world {
	w := &world{b: &buf{cfg: map[string]any{"family": family}}, t0: time.Now(), blobs: map[string][]byte{}, tsBits: 8,
		burst: map[string][2]int64{}, frng: rand.New(rand.NewSource(rng.Int63())), forced: map[string]int{},
		handle: map[any]string{}, mocks: map[string]*mock{}}
	return w
}

func (w *world) ms() int { return int(time.Since(w.t0) / time.Millisecond) }

// blob makes content id with n random bytes (all contents of a trace have distinct lengths, differing by more than
// any offset in use, so a size identifies [d, from]).
func (w *world) blob(rng *rand.Rand, id string, n int) {
	b := make([]byte, n)
	rng.Read(b)
	w.blobs[id] = b
	w.ids = append(w.ids, id)
}

func (w *world) tok(size int) int {
	t := int(uint64(size) * 8 / w.tsBits)
	if t == 0 {
		t = 1
	}
	return t
}

// identify names the bytes x: content id and offset it starts at.
func (w *world) identify(x []byte) (string, int) {
	for _, id := range w.ids {
		b := w.blobs[id]
		if len(x) > 0 && len(x) <= len(b) && bytes.Equal(b[len(b)-len(x):], x) {
			return id, len(b) - len(x)
		}
	}
	return "unknown", 0
}

func (w *world) identifySize(n int64) (string, int) {
	for _, id := range w.ids {
		b := w.blobs[id]
		if d := int64(len(b)) - n; d >= 0 && d < 8 {
			return id, int(d)
		}
	}
	return "unknown", 0
}

func (w *world) fault(cl, op string) bool {
	k := cl + "/" + op
	if w.forced[k] > 0 {
		w.forced[k]--
		return true
	}
	return w.faultP > 0 && w.frng.Intn(100) < w.faultP
}

func (w *world) who(h any) string {
	w.hmu.Lock()
	defer w.hmu.Unlock()
	return w.handle[h]
}

func (w *world) hand(h any, p string) {
	w.hmu.Lock()
	w.handle[h] = p
	w.hmu.Unlock()
}

func (w *world) unhand(h any) {
	w.hmu.Lock()
	delete(w.handle, h)
	w.hmu.Unlock()
}

// ---------------------------------------------------------------------------------------------------------------
// recording inner client

type mock struct {
	w   *world
	id  string // "c1".. (manager family) or "a" / "s" (shadow family)
	inj error
	kv  map[string][]byte
}

func (w *world) mock(id string, inj error) *mock {
	m := &mock{w: w, id: id, inj: inj, kv: map[string][]byte{}}
	w.mocks[id] = m
	return m
}

func label(ns, name string) (string, string) {
	if ns == backend.ReadinessCheckNamespace {
		ns = "readyns"
	}
	if name == backend.ReadinessCheckName {
		name = "readyname"
	}
	return ns, name
}

type innerEv struct {
	p                 string // the caller, when the source / destination object tells (else "")
	op, ns, n, d, res string
	tok, from         int
	same, big         bool
	pg                bool
	max               int
	ctok              string
}

func (m *mock) log(e innerEv, at0 int) {
	ns, n := label(e.ns, e.n)
	m.w.b.Ev("Inner", "p", e.p, "cl", m.id, "be", m.id, "op", e.op, "ns", ns, "n", n, "d", e.d, "tok", e.tok, "from", e.from,
		"res", e.res, "at0", at0, "at1", m.w.ms()+1, "same", e.same, "big", e.big, "pg", e.pg, "max", e.max, "ctok", e.ctok)
}

func (m *mock) enter(op string, h any) int {
	if m.w.g != nil {
		p := ""
		if h != nil {
			p = m.w.who(h)
		}
		m.w.g.park(p, m.id+"/"+op)
	}
	m.w.mu.Lock()
	return m.w.ms()
}

func (m *mock) Stat(namespace, name string) (*core.BlobInfo, error) {
	at0 := m.enter("Stat", nil)
	defer m.w.mu.Unlock()
	e := innerEv{op: "Stat", ns: namespace, n: name, d: "none"}
	if m.w.fault(m.id, "Stat") {
		e.res = "err"
		m.log(e, at0)
		return nil, m.inj
	}
	b, ok := m.kv[name]
	if !ok {
		e.res = "notfound"
		m.log(e, at0)
		return nil, backenderrors.ErrBlobNotFound
	}
	e.res = "ok"
	e.d, e.from = m.w.identify(b)
	e.tok = m.w.tok(len(b))
	m.log(e, at0)
	return core.NewBlobInfo(int64(len(b))), nil
}

func (m *mock) Upload(namespace, name string, src io.Reader) error {
	at0 := m.enter("Upload", src)
	defer m.w.mu.Unlock()
	e := innerEv{p: m.w.who(src), op: "Upload", ns: namespace, n: name, d: "none", same: m.w.who(src) != ""}
	if m.w.fault(m.id, "Upload") {
		io.CopyN(io.Discard, src, 3) // a failing backend may have consumed part of the source
		e.res = "err"
		m.log(e, at0)
		return m.inj
	}
	b, err := io.ReadAll(src)
	if err != nil {
		e.res = "err"
		m.log(e, at0)
		return err
	}
	m.kv[name] = b
	e.res = "ok"
	e.d, e.from = m.w.identify(b)
	e.tok = m.w.tok(len(b))
	e.big = int64(e.tok) > m.w.burst[m.id][0] && m.w.burst[m.id][0] > 0
	m.log(e, at0)
	return nil
}

func (m *mock) Download(namespace, name string, dst io.Writer) error {
	at0 := m.enter("Download", dst)
	defer m.w.mu.Unlock()
	e := innerEv{p: m.w.who(dst), op: "Download", ns: namespace, n: name, d: "none", same: m.w.who(dst) != ""}
	if m.w.fault(m.id, "Download") {
		e.res = "err"
		m.log(e, at0)
		return m.inj
	}
	b, ok := m.kv[name]
	if !ok {
		e.res = "notfound"
		m.log(e, at0)
		return backenderrors.ErrBlobNotFound
	}
	dst.Write(b)
	e.res = "ok"
	e.d, e.from = m.w.identify(b)
	e.tok = m.w.tok(len(b))
	e.big = int64(e.tok) > m.w.burst[m.id][1] && m.w.burst[m.id][1] > 0
	m.log(e, at0)
	return nil
}

func (m *mock) List(prefix string, opts ...backend.ListOption) (*backend.ListResult, error) {
	at0 := m.enter("List", nil)
	defer m.w.mu.Unlock()
	o := backend.DefaultListOptions()
	for _, f := range opts {
		f(o)
	}
	e := innerEv{op: "List", ns: prefix, d: "none", pg: o.Paginated, max: o.MaxKeys, ctok: o.ContinuationToken}
	if m.w.fault(m.id, "List") {
		e.res = "err"
		m.log(e, at0)
		return nil, m.inj
	}
	var names []string
	for n := range m.kv {
		if strings.HasPrefix(n, prefix) {
			names = append(names, n)
		}
	}
	sort.Strings(names)
	e.res = "ok"
	m.log(e, at0)
	return &backend.ListResult{Names: names}, nil
}

func (m *mock) Close() error {
	at0 := m.enter("Close", nil)
	defer m.w.mu.Unlock()
	e := innerEv{op: "Close", d: "none"}
	if m.w.fault(m.id, "Close") {
		e.res = "err"
		m.log(e, at0)
		return m.inj
	}
	e.res = "ok"
	m.log(e, at0)
	return nil
}

// env: another writer of the same storage.
func (m *mock) envPut(name, d string) {
	m.w.mu.Lock()
	defer m.w.mu.Unlock()
	if d == "none" {
		if _, ok := m.kv[name]; !ok {
			return
		}
		delete(m.kv, name)
		m.w.b.Ev("Env", "cl", m.id, "be", m.id, "n", name, "d", "none", "tok", 0, "from", 0)
		return
	}
	m.kv[name] = m.w.blobs[d]
	m.w.b.Ev("Env", "cl", m.id, "be", m.id, "n", name, "d", d, "tok", m.w.tok(len(m.w.blobs[d])), "from", 0)
}

// factory hands the recording clients to NewManager: the configuration of a backend is the key of its mock.
var registry sync.Map

type factory struct{ fail bool }

func (f *factory) Create(config interface{}, _ backend.AuthConfig, _ tally.Scope, _ *zap.SugaredLogger) (backend.Client, error) {
	if f.fail {
		return nil, errors.New("x04: factory failure")
	}
	m, ok := registry.Load(fmt.Sprint(config))
	if !ok {
		return nil, fmt.Errorf("x04: no mock %v", config)
	}
	return m.(*mock), nil
}

// ---------------------------------------------------------------------------------------------------------------
// gates: every inner call of a gated trace parks until the scheduler releases it; one goroutine runs at a time

type gev struct {
	kind string // "park" | "done"
	p    string
	rel  chan struct{}
}

type gate struct{ evc chan gev }

func (g *gate) park(p, what string) {
	rel := make(chan struct{})
	g.evc <- gev{"park", p, rel}
	<-rel
}

type sched struct {
	w       *world
	g       *gate
	parked  map[string]gev
	busy    map[string]bool
	blocked map[string]bool // callers that neither parked nor returned in time (a lock of a repaired client)
}

func newSched(w *world) *sched {
	w.g = &gate{evc: make(chan gev, 16)}
	return &sched{w: w, g: w.g, parked: map[string]gev{}, busy: map[string]bool{}, blocked: map[string]bool{}}
}

func (s *sched) start(p string, fn func()) {
	s.busy[p] = true
	go func() {
		defer func() {
			if r := recover(); r != nil {
				s.w.b.Ev("Panic", "what", fmt.Sprint(r))
			}
			s.g.evc <- gev{kind: "done", p: p}
		}()
		fn()
	}()
	s.settle(p)
}

func (s *sched) release(p string) {
	ev := s.parked[p]
	delete(s.parked, p)
	close(ev.rel)
	s.settle(p)
}

// settle waits until the caller that was started / released parks again or returns.
func (s *sched) settle(expect string) {
	pending := map[string]bool{expect: true}
	wait := 3 * time.Second
	for len(pending) > 0 {
		select {
		case ev := <-s.g.evc:
			p := ev.p
			if p == "" {
				p = expect
				if !pending[p] {
					for q := range pending {
						p = q
					}
				}
			}
			delete(pending, p)
			delete(s.blocked, p)
			if ev.kind == "park" {
				s.parked[p] = ev
			} else {
				s.busy[p] = false
				for q := range s.blocked { // a return may have released what they wait for
					pending[q] = true
					wait = 700 * time.Millisecond
				}
			}
		case <-time.After(wait):
			for q := range pending {
				s.blocked[q] = true
			}
			return
		}
	}
}

func (s *sched) parkedList() []string {
	var l []string
	for p := range s.parked {
		l = append(l, p)
	}
	sort.Strings(l)
	return l
}

func (s *sched) drain() {
	for len(s.parked) > 0 {
		s.release(s.parkedList()[0])
	}
	for i := 0; i < 3 && len(s.blocked) > 0; i++ { // nothing else can run: they must surface now
		for q := range s.blocked {
			s.settle(q)
			break
		}
		for len(s.parked) > 0 {
			s.release(s.parkedList()[0])
		}
	}
}

// ---------------------------------------------------------------------------------------------------------------
// public calls of the manager family

type plainReader struct{ r io.Reader } // no Size method: never throttled

func (p *plainReader) Read(b []byte) (int, error) { return p.r.Read(b) }

func class(err error) string {
	switch {
	case err == nil:
		return "ok"
	case err == errInj:
		return "err"
	case err == backenderrors.ErrBlobNotFound:
		return "notfound"
	}
	return "other"
}

type mcall struct {
	op, cl, ns, n, d string
	sized            bool
	pg               bool
	max              int
	ctok             string
}

func (w *world) logCall(p string, c mcall) {
	tok := 0
	if c.d != "none" {
		tok = w.tok(len(w.blobs[c.d]))
	}
	w.b.Ev("Call", "p", p, "op", c.op, "cl", c.cl, "ns", c.ns, "n", c.n, "d", c.d, "tok", tok, "sized", c.sized,
		"pg", c.pg, "max", c.max, "ctok", c.ctok, "at", w.ms())
}

func (w *world) logRet(p, res, d string, tok int, names []string) {
	if names == nil {
		names = []string{}
	}
	w.b.Ev("Ret", "p", p, "res", res, "d", d, "tok", tok, "from", 0, "names", names)
}

// clientOp runs one call of a (throttled) client and logs its return.
func (w *world) clientOp(p string, cl backend.Client, c mcall) {
	switch c.op {
	case "Upload":
		var src io.Reader = bytes.NewReader(w.blobs[c.d]) // *bytes.Reader has Size()
		if !c.sized {
			src = &plainReader{src}
		}
		w.hand(src, p)
		err := cl.Upload(c.ns, c.n, src)
		w.unhand(src)
		w.logRet(p, class(err), "none", 0, nil)
	case "Download":
		dst := &bytes.Buffer{}
		w.hand(dst, p)
		err := cl.Download(c.ns, c.n, dst)
		w.unhand(dst)
		d, tok := "none", 0
		if err == nil {
			var from int
			d, from = w.identify(dst.Bytes())
			if from != 0 {
				d = "unknown"
			}
			tok = w.tok(dst.Len())
		} else if dst.Len() > 0 {
			d = "unknown"
		}
		w.logRet(p, class(err), d, tok, nil)
	case "Stat":
		info, err := cl.Stat(c.ns, c.n)
		d, tok := "none", 0
		if err == nil && info != nil {
			var from int
			d, from = w.identifySize(info.Size)
			if from != 0 {
				d = "unknown"
			}
			tok = w.tok(int(info.Size))
		} else if err == nil {
			d = "nilinfo"
		}
		w.logRet(p, class(err), d, tok, nil)
	case "List":
		var opts []backend.ListOption
		if c.pg {
			opts = append(opts, backend.ListWithPagination())
		}
		if c.max != backend.DefaultListMaxKeys {
			opts = append(opts, backend.ListWithMaxKeys(c.max))
		}
		if c.ctok != "" {
			opts = append(opts, backend.ListWithContinuationToken(c.ctok))
		}
		res, err := cl.List(c.ns, opts...)
		var names []string
		if err == nil && res != nil {
			names = res.Names
		}
		r := class(err)
		if err == nil && res == nil {
			r = "nilres"
		}
		w.logRet(p, r, "none", 0, names)
	case "Close":
		w.logRet(p, class(cl.Close()), "none", 0, nil)
	}
}

func (w *world) ready(p string, m *backend.Manager) {
	res := "ok"
	if err := m.CheckReadiness(); err != nil {
		res = "notready"
	}
	w.logRet(p, res, "none", 0, nil)
}

func (w *world) mclose(p string, m *backend.Manager) {
	res := "ok"
	if err := m.Close(); err != nil {
		res = "err"
	}
	w.logRet(p, res, "none", 0, nil)
}

// ---------------------------------------------------------------------------------------------------------------
// manager family: alphabet, configurations

var patPool = []string{"static", "foo/.*", "foo/bar/.*", ".*", "^ns-[0-9]+$", "", "bar", "^foo", "x|static", "__noop__", "(", "[a-", "a{2,1}", "*x"}
var nsPool = []string{"static", "foo/x", "foo/bar/baz", "xstaticx", "ns-12", "ns-1x", "", "__noop__", "bar/foo/x", "zzz", "foo", "x"}

type cfgEntry struct {
	pat, cl, bw, kind string
	must              bool
	e, i              int
}

type mgrTrace struct {
	w    *world
	rng  *rand.Rand
	t    int
	pats []string
	nss  []string
	m    *backend.Manager
	regs []cfgEntry                          // what the driver believes is registered (generator only)
	thr  map[string]*backend.ThrottledClient // reachable throttled clients by inner id
}

func newMgrTrace(t int, rng *rand.Rand, family string, need ...string) *mgrTrace {
	w := newWorld(rng, family)
	x := &mgrTrace{w: w, rng: rng, t: t, thr: map[string]*backend.ThrottledClient{}}
	// 5-7 patterns (at least one that does not compile), all namespaces
	perm := rng.Perm(len(patPool))
	for _, k := range perm[:5+rng.Intn(3)] {
		x.pats = append(x.pats, patPool[k])
	}
	if rng.Intn(3) > 0 {
		x.pats = append(x.pats, "(")
	}
	x.pats = uniq(append(x.pats, need...))
	x.nss = nsPool
	match := map[string]any{}
	bad := []string{}
	for _, p := range x.pats {
		re, err := regexp.Compile(p) // the oracle: Go's regexp package itself, not the Manager
		if err != nil {
			bad = append(bad, p)
			match[p] = []string{}
			continue
		}
		ms := []string{}
		for _, ns := range x.nss {
			if re.MatchString(ns) {
				ms = append(ms, ns)
			}
		}
		match[p] = ms
	}
	w.b.cfg["match"] = match
	w.b.cfg["bad"] = bad
	for i := 1; i <= 4; i++ {
		id := fmt.Sprintf("c%d", i)
		registry.Store(fmt.Sprintf("t%d/%s", t, id), w.mock(id, errInj))
	}
	for i, n := range []int{40, 90, 170, 260} {
		w.blob(rng, fmt.Sprintf("d%d", i+1), n+rng.Intn(30))
	}
	return x
}

func (x *mgrTrace) cleanup() {
	for i := 1; i <= 4; i++ {
		registry.Delete(fmt.Sprintf("t%d/c%d", x.t, i))
	}
}

func uniq(s []string) []string {
	seen := map[string]bool{}
	var o []string
	for _, v := range s {
		if !seen[v] {
			seen[v] = true
			o = append(o, v)
		}
	}
	return o
}

func (x *mgrTrace) goodPats() []string {
	var o []string
	for _, p := range x.pats {
		if _, err := regexp.Compile(p); err == nil {
			o = append(o, p)
		}
	}
	return o
}

// newManager calls the real NewManager with the entries and logs the outcome.
func (x *mgrTrace) newManager(entries []cfgEntry) bool {
	var cfgs []backend.Config
	logged := []any{}
	for _, e := range entries {
		c := backend.Config{Namespace: e.pat, MustReady: e.must}
		key := fmt.Sprintf("t%d/%s", x.t, e.cl)
		switch e.kind {
		case "ok":
			c.Backend = map[string]interface{}{"x04": key}
		case "nobackend":
			c.Backend = map[string]interface{}{}
		case "twobackends":
			c.Backend = map[string]interface{}{"x04": key, "x04err": key}
		case "unknown":
			c.Backend = map[string]interface{}{"x04-nope": key}
		case "factoryerr":
			c.Backend = map[string]interface{}{"x04err": key}
		}
		switch e.bw {
		case "on":
			c.Bandwidth = bandwidth.Config{EgressBitsPerSec: uint64(e.e) * x.w.tsBits, IngressBitsPerSec: uint64(e.i) * x.w.tsBits,
				TokenSize: x.w.tsBits, Enable: true}
		case "zero":
			c.Bandwidth = bandwidth.Config{EgressBitsPerSec: 0, IngressBitsPerSec: uint64(e.i) * x.w.tsBits, TokenSize: x.w.tsBits, Enable: true}
		case "off": // rates given but not enabled: not throttled
			c.Bandwidth = bandwidth.Config{EgressBitsPerSec: uint64(e.e) * x.w.tsBits, IngressBitsPerSec: uint64(e.i) * x.w.tsBits, TokenSize: x.w.tsBits}
		}
		cfgs = append(cfgs, c)
		logged = append(logged, map[string]any{"pat": e.pat, "cl": e.cl, "must": e.must, "bw": e.bw, "kind": e.kind, "e": e.e, "i": e.i})
	}
	m, err := backend.NewManager(backend.ManagerConfig{}, cfgs, backend.AuthConfig{}, tally.NoopScope)
	res := "ok"
	if err != nil {
		res = "err"
	} else if m == nil {
		res = "nilmgr"
	}
	x.w.b.Ev("New", "cfgs", logged, "res", res)
	if err != nil {
		return false
	}
	x.m = m
	x.regs = append([]cfgEntry{}, entries...)
	for _, e := range entries {
		if e.bw == "on" {
			x.w.burst[e.cl] = [2]int64{int64(e.e), int64(e.i)}
		}
	}
	return true
}

// get calls GetClient and logs which client came back.
func (x *mgrTrace) get(ns string) backend.Client {
	c, err := x.m.GetClient(ns)
	res, cl, thr := "other", "", false
	switch {
	case err == backend.ErrNamespaceNotFound && c == nil:
		res = "notfound"
	case err != nil:
	default:
		switch v := c.(type) {
		case backend.NoopClient:
			res = "noop"
		case *mock:
			res, cl = "ok", v.id
		case *backend.ThrottledClient:
			if in, ok := v.Client.(*mock); ok {
				res, cl, thr = "ok", in.id, true
				x.thr[in.id] = v
			}
		}
	}
	x.w.b.Ev("Get", "ns", ns, "res", res, "cl", cl, "thr", thr)
	return c
}

func (x *mgrTrace) register() {
	pat := x.pats[x.rng.Intn(len(x.pats))]
	cl := fmt.Sprintf("c%d", 1+x.rng.Intn(4))
	must := x.rng.Intn(2) == 0
	err := x.m.Register(pat, x.w.mocks[cl], must)
	res := "ok"
	if err != nil {
		res = "err"
	} else {
		x.regs = append(x.regs, cfgEntry{pat: pat, cl: cl, must: must, bw: "off", kind: "ok"})
	}
	x.w.b.Ev("Register", "pat", pat, "cl", cl, "must", must, "res", res)
}

func (x *mgrTrace) adjust(d int) {
	at0 := x.w.ms()
	err := x.m.AdjustBandwidth(d)
	at1 := x.w.ms() + 1
	res := "ok"
	if err != nil {
		res = "err"
	}
	lims := []any{}
	for _, e := range x.regs {
		if e.bw != "on" {
			continue
		}
		// the limits are read from the throttled client the Manager hands out (if it is reachable) ...
		tc := x.thr[e.cl]
		if tc == nil {
			continue
		}
		lims = append(lims, map[string]any{"cl": e.cl, "e": int(tc.EgressLimit()), "i": int(tc.IngressLimit())})
	}
	x.w.b.Ev("Adjust", "d", d, "res", res, "lims", lims, "at0", at0, "at1", at1)
}

func (x *mgrTrace) noop() {
	c, err := x.m.GetClient(backend.NoopNamespace)
	if err != nil {
		x.w.b.Ev("Noop", "op", "Get", "res", "other", "wrote", 0)
		return
	}
	op := []string{"Stat", "Download", "Upload", "List", "Close"}[x.rng.Intn(5)]
	res, wrote := "other", 0
	switch op {
	case "Stat":
		info, err := c.Stat("any", "n1")
		if info == nil {
			res = class(err)
		}
	case "Download":
		dst := &bytes.Buffer{}
		res = class(c.Download("any", "n1", dst))
		wrote = dst.Len()
	case "Upload":
		src := bytes.NewReader(x.w.blobs["d1"])
		res = class(c.Upload("any", "n1", src))
	case "List":
		r, err := c.List("")
		if r == nil && err == nil {
			res = "nil"
		}
	case "Close":
		res = class(c.Close())
	}
	x.w.b.Ev("Noop", "op", op, "res", res, "wrote", wrote)
}

// discover asks for every namespace once: routing is fully observed and the throttled clients become reachable.
func (x *mgrTrace) discover() {
	for _, ns := range x.nss {
		x.get(ns)
	}
}

func (x *mgrTrace) randomEntries(n int, allowThr bool, e, i int) []cfgEntry {
	good := x.goodPats()
	var out []cfgEntry
	perm := x.rng.Perm(4)
	for k := 0; k < n; k++ {
		ent := cfgEntry{pat: good[x.rng.Intn(len(good))], cl: fmt.Sprintf("c%d", perm[k]+1), must: x.rng.Intn(2) == 0, bw: "off", kind: "ok", e: e, i: i}
		if allowThr && x.rng.Intn(2) == 0 {
			ent.bw = "on"
		}
		out = append(out, ent)
	}
	return out
}

func (x *mgrTrace) randomCall(ops []string) (mcall, bool) {
	op := ops[x.rng.Intn(len(ops))]
	if op == "Ready" || op == "MClose" {
		return mcall{op: op, d: "none", max: backend.DefaultListMaxKeys}, true
	}
	var ids []string
	for id := range x.thr {
		ids = append(ids, id)
	}
	if len(ids) == 0 {
		return mcall{}, false
	}
	sort.Strings(ids)
	c := mcall{op: op, cl: ids[x.rng.Intn(len(ids))], ns: x.nss[x.rng.Intn(len(x.nss))], n: fmt.Sprintf("n%d", 1+x.rng.Intn(3)),
		d: "none", max: backend.DefaultListMaxKeys}
	switch op {
	case "Upload":
		c.d = x.w.ids[x.rng.Intn(len(x.w.ids))]
		c.sized = x.rng.Intn(4) > 0
	case "List":
		c.n = ""
		c.ns = []string{"", "n"}[x.rng.Intn(2)] // every name starts with "n": the listing is the whole store
		c.pg = x.rng.Intn(2) == 0
		if x.rng.Intn(2) == 0 {
			c.max = 1 + x.rng.Intn(5)
		}
		if x.rng.Intn(3) == 0 {
			c.ctok = "tok7"
		}
	case "Close":
		c.ns, c.n = "", ""
	}
	return c, true
}

func (x *mgrTrace) exec(p string, c mcall) {
	switch c.op {
	case "Ready":
		x.w.ready(p, x.m)
	case "MClose":
		x.w.mclose(p, x.m)
	default:
		x.w.clientOp(p, x.thr[c.cl], c)
	}
}

func (x *mgrTrace) env() {
	cl := fmt.Sprintf("c%d", 1+x.rng.Intn(4))
	n := fmt.Sprintf("n%d", 1+x.rng.Intn(3))
	d := "none"
	if x.rng.Intn(3) > 0 {
		d = x.w.ids[x.rng.Intn(len(x.w.ids))]
	}
	x.w.mocks[cl].envPut(n, d)
}

const bigRate = 50000

func mseq(t int, rng *rand.Rand) *buf {
	x := newMgrTrace(t, rng, "mseq")
	defer x.cleanup()
	w := x.w
	if rng.Intn(3) == 0 { // a configuration NewManager must refuse
		ent := x.randomEntries(1+rng.Intn(2), true, bigRate, bigRate)
		k := rng.Intn(len(ent))
		switch rng.Intn(6) {
		case 0:
			ent[k].kind = "nobackend"
		case 1:
			ent[k].kind = "twobackends"
		case 2:
			ent[k].kind = "unknown"
		case 3:
			ent[k].kind = "factoryerr"
		case 4:
			ent[k].bw = "zero"
		default:
			ent[k].pat = []string{"(", "[a-", "a{2,1}", "*x"}[rng.Intn(4)]
			if !contains(x.pats, ent[k].pat) {
				ent[k].pat = x.pats[len(x.pats)-1]
			}
		}
		x.newManager(ent)
	}
	if x.m == nil {
		x.newManager(x.randomEntries(rng.Intn(4), true, bigRate, bigRate))
	}
	if x.m == nil { // the "refused" list happened to be acceptable and the second one not: cannot happen, but never panic
		return w.b
	}
	x.discover()
	w.faultP = []int{0, 15, 30}[rng.Intn(3)]
	steps := 25 + rng.Intn(20)
	ops := []string{"Ready", "Ready", "MClose", "Upload", "Upload", "Download", "Download", "Stat", "List", "Close"}
	for s := 0; s < steps; s++ {
		switch k := rng.Intn(20); {
		case k < 3:
			x.register()
			if rng.Intn(2) == 0 {
				x.get(x.nss[rng.Intn(len(x.nss))])
			}
		case k < 6:
			x.get(x.nss[rng.Intn(len(x.nss))])
		case k < 7:
			x.adjust([]int{-1, 0, 1, 2, 3, 5, 7, 100000}[rng.Intn(8)])
		case k < 8:
			x.noop()
		case k < 10:
			x.env()
		default:
			if c, ok := x.randomCall(ops); ok {
				w.logCall("p1", c)
				x.exec("p1", c)
			} else {
				x.get(x.nss[rng.Intn(len(x.nss))])
			}
		}
	}
	w.faultP = 0
	x.discover()
	w.logCall("p1", mcall{op: "Ready", d: "none", max: backend.DefaultListMaxKeys})
	w.ready("p1", x.m)
	return w.b
}

func contains(s []string, v string) bool {
	for _, x := range s {
		if x == v {
			return true
		}
	}
	return false
}

// mgate: three callers, every inner call is a gate.
func mgate(t int, rng *rand.Rand) *buf {
	x := newMgrTrace(t, rng, "mgate", ".*")
	defer x.cleanup()
	w := x.w
	ent := x.randomEntries(2+rng.Intn(2), true, bigRate, bigRate)
	ent[0].bw, ent[0].must, ent[0].pat = "on", true, ".*"
	ent[1].must = true
	if !x.newManager(ent) {
		return w.b
	}
	x.discover()
	if len(x.thr) == 0 {
		return w.b
	}
	for k := 0; k < 3; k++ {
		x.env()
	}
	w.faultP = []int{0, 20}[rng.Intn(2)]
	s := newSched(w)
	procs := []string{"p1", "p2", "p3"}
	left := map[string]int{"p1": 2 + rng.Intn(3), "p2": 2 + rng.Intn(3), "p3": 1 + rng.Intn(3)}
	ops := []string{"Ready", "Ready", "MClose", "Upload", "Upload", "Download", "Download", "Download", "Stat", "List", "Close"}
	for guard := 0; guard < 400; guard++ {
		var idle []string
		for _, p := range procs {
			if !s.busy[p] && left[p] > 0 {
				idle = append(idle, p)
			}
		}
		parked := s.parkedList()
		if len(idle) == 0 && len(parked) == 0 {
			break
		}
		k := rng.Intn(10)
		switch {
		case k < 1:
			x.env()
		case k < 2:
			x.get(x.nss[rng.Intn(len(x.nss))])
		case k < 3: // (AdjustBandwidth only takes the limiters' locks)
			x.adjust([]int{1, 2, 3}[rng.Intn(3)])
		case len(idle) > 0 && (len(parked) == 0 || k < 6):
			p := idle[rng.Intn(len(idle))]
			c, ok := x.randomCall(ops)
			if !ok {
				continue
			}
			left[p]--
			w.logCall(p, c)
			s.start(p, func() { x.exec(p, c) })
		case len(parked) > 0:
			s.release(parked[rng.Intn(len(parked))])
		}
	}
	s.drain()
	w.g = nil
	return w.b
}

// timed: one throttled backend with a small bucket; the transfers together exceed the bucket, so the client must sleep.
func timed(t int, rng *rand.Rand, oversize bool) *buf {
	fam := "timed"
	if oversize {
		fam = "oversize"
	}
	x := newMgrTrace(t, rng, fam, ".*")
	defer x.cleanup()
	w := x.w
	w.ids, w.blobs = nil, map[string][]byte{}
	be := 1500 + rng.Intn(2500) // egress bucket = tokens per second (1 token = 1 byte)
	bi := 1500 + rng.Intn(2500)
	ent := []cfgEntry{{pat: ".*", cl: "c1", must: false, bw: "on", kind: "ok", e: be, i: bi}}
	if !x.newManager(ent) {
		return w.b
	}
	x.get("static")
	tc := x.thr["c1"]
	if tc == nil {
		return w.b
	}
	den := 1
	if rng.Intn(3) == 0 {
		den = 2 + rng.Intn(2)
		x.adjust(den)
	}
	dirUp := rng.Intn(2) == 0
	bucket := bi
	if dirUp {
		bucket = be
	}
	// transfers: 3-5 blobs of 25-45 % of the bucket each: 1.1-1.6 buckets in total (less after AdjustBandwidth, refill is slower)
	n := 3 + rng.Intn(3)
	total := 0
	var plan []string
	for k := 0; k < n; k++ {
		sz := bucket*(25+rng.Intn(20))/100 + k // distinct sizes
		if total+sz > bucket*(100+60/den)/100 {
			break
		}
		total += sz
		id := fmt.Sprintf("d%d", k+1)
		w.blob(rng, id, sz)
		plan = append(plan, id)
	}
	if oversize {
		id := "d9"
		w.blob(rng, id, bucket*3/2)
		plan = []string{plan[0], id}
	}
	for k, id := range plan {
		if !dirUp {
			w.mocks["c1"].envPut(fmt.Sprintf("n%d", k%3+1), id)
			if k%3 == 2 || k == len(plan)-1 { // downloads read what is stored: transfer the stored names now
				x.transfer(tc, plan[k-k%3:k+1], dirUp, rng.Intn(3) == 0 && !oversize)
			}
		}
	}
	if dirUp {
		x.transfer(tc, plan, dirUp, rng.Intn(3) == 0 && !oversize)
	}
	return w.b
}

func (x *mgrTrace) transfer(tc *backend.ThrottledClient, ids []string, up, conc bool) {
	w := x.w
	var wg sync.WaitGroup
	for k, id := range ids {
		c := mcall{op: "Download", cl: "c1", ns: "static", n: fmt.Sprintf("n%d", k%3+1), d: "none", max: backend.DefaultListMaxKeys}
		if up {
			c = mcall{op: "Upload", cl: "c1", ns: "static", n: fmt.Sprintf("n%d", k%3+1), d: id, sized: true, max: backend.DefaultListMaxKeys}
		}
		p := "p1"
		if conc {
			p = fmt.Sprintf("p%d", k%3+1)
		}
		if conc && k < 3 {
			wg.Add(1)
			w.logCall(p, c)
			go func() { defer wg.Done(); w.clientOp(p, tc, c) }()
			continue
		}
		wg.Wait()
		w.logCall(p, c)
		w.clientOp(p, tc, c)
	}
	wg.Wait()
}

// ---------------------------------------------------------------------------------------------------------------
// shadow family

type seekSrc struct {
	w    *world
	p    string
	r    *bytes.Reader
	fail *int // failures of the next repositionings
}

func (s *seekSrc) Read(b []byte) (int, error) { return s.r.Read(b) }
func (s *seekSrc) Seek(off int64, whence int) (int64, error) {
	if whence == io.SeekCurrent && off == 0 { // a question, not a repositioning
		return s.r.Seek(0, io.SeekCurrent)
	}
	if s.w.g != nil {
		s.w.g.park(s.p, "seek")
	}
	s.w.mu.Lock()
	defer s.w.mu.Unlock()
	if *s.fail > 0 {
		*s.fail--
		s.w.b.Ev("Seek", "p", s.p, "res", "err", "to", int(off), "whence", whence)
		return 0, errSeek
	}
	s.w.b.Ev("Seek", "p", s.p, "res", "ok", "to", int(off), "whence", whence)
	return s.r.Seek(off, whence)
}

func sclass(err error) string {
	switch {
	case err == nil:
		return "ok"
	case err == errInjA:
		return "erra"
	case err == errInjS:
		return "errs"
	case err == errSeek:
		return "errseek"
	case err == backenderrors.ErrBlobNotFound:
		return "notfound"
	}
	return "other"
}

type scall struct {
	op, n, d, kind string
	off            int
	failSeek       int
}

func (w *world) slogCall(p string, c scall) {
	w.b.Ev("Call", "p", p, "op", c.op, "n", c.n, "d", c.d, "kind", c.kind, "off", c.off)
}

func (w *world) sret(p, res, d string, from int, names []string) {
	if names == nil {
		names = []string{}
	}
	w.b.Ev("Ret", "p", p, "res", res, "d", d, "from", from, "tok", 0, "names", names)
}

func (w *world) shadowOp(p string, cl *shadowbackend.Client, c scall) {
	switch c.op {
	case "Upload":
		r := bytes.NewReader(w.blobs[c.d])
		r.Seek(int64(c.off), io.SeekStart)
		var src io.Reader
		if c.kind == "seek" {
			fs := c.failSeek
			src = &seekSrc{w: w, p: p, r: r, fail: &fs}
		} else {
			src = &plainReader{r}
		}
		w.hand(src, p)
		err := cl.Upload("ns", c.n, src)
		w.unhand(src)
		w.sret(p, sclass(err), "none", 0, nil)
	case "Download":
		dst := &bytes.Buffer{}
		w.hand(dst, p)
		err := cl.Download("ns", c.n, dst)
		w.unhand(dst)
		d, from := "none", 0
		if err == nil {
			d, from = w.identify(dst.Bytes())
		} else if dst.Len() > 0 {
			d = "unknown"
		}
		w.sret(p, sclass(err), d, from, nil)
	case "Stat":
		info, err := cl.Stat("ns", c.n)
		d, from := "none", 0
		if err == nil && info != nil {
			d, from = w.identifySize(info.Size)
		} else if err == nil {
			d = "nilinfo"
		}
		w.sret(p, sclass(err), d, from, nil)
	case "List":
		res, err := cl.List("")
		var names []string
		if err == nil && res != nil {
			names = res.Names
		}
		w.sret(p, sclass(err), "none", 0, names)
	case "Close":
		r := "ok"
		if cl.Close() != nil {
			r = "err"
		}
		w.sret(p, r, "none", 0, nil)
	}
}

type shTrace struct {
	w   *world
	rng *rand.Rand
	cl  *shadowbackend.Client
}

func newShTrace(rng *rand.Rand, family string) *shTrace {
	w := newWorld(rng, family)
	w.b.cfg["tracespec"] = "shadow"
	for i, n := range []int{40, 90, 170} {
		w.blob(rng, fmt.Sprintf("d%d", i+1), n+rng.Intn(30))
	}
	a, s := w.mock("a", errInjA), w.mock("s", errInjS)
	return &shTrace{w: w, rng: rng, cl: shadowbackend.VerifX04NewClient(a, s)}
}

func (x *shTrace) randomCall(noUpload map[string]bool) scall {
	n := fmt.Sprintf("n%d", 1+x.rng.Intn(3))
	switch k := x.rng.Intn(12); {
	case k < 5:
		if noUpload[n] {
			return scall{op: "Stat", n: n, d: "none"}
		}
		c := scall{op: "Upload", n: n, d: x.w.ids[x.rng.Intn(len(x.w.ids))], kind: "seek"}
		if x.rng.Intn(7) == 0 {
			c.kind = "plain"
		}
		if x.rng.Intn(8) == 0 {
			c.failSeek = 1
		}
		return c
	case k < 7:
		return scall{op: "Download", n: n, d: "none"}
	case k < 10:
		return scall{op: "Stat", n: n, d: "none"}
	case k < 11:
		return scall{op: "List", n: "", d: "none"}
	}
	return scall{op: "Close", n: "", d: "none"}
}

func (x *shTrace) env() {
	be := []string{"a", "s"}[x.rng.Intn(2)]
	n := fmt.Sprintf("n%d", 1+x.rng.Intn(3))
	d := "none"
	if x.rng.Intn(3) > 0 {
		d = x.w.ids[x.rng.Intn(len(x.w.ids))]
	}
	x.w.mocks[be].envPut(n, d)
}

func sseq(t int, rng *rand.Rand) *buf {
	x := newShTrace(rng, "sseq")
	w := x.w
	w.faultP = []int{0, 15, 30}[rng.Intn(3)]
	steps := 20 + rng.Intn(20)
	for s := 0; s < steps; s++ {
		if rng.Intn(8) == 0 {
			x.env()
			continue
		}
		c := x.randomCall(nil)
		w.slogCall("p1", c)
		w.shadowOp("p1", x.cl, c)
	}
	w.faultP = 0
	for _, n := range []string{"n1", "n2", "n3"} { // final sweep
		for _, op := range []string{"Stat", "Download"} {
			c := scall{op: op, n: n, d: "none"}
			w.slogCall("p1", c)
			w.shadowOp("p1", x.cl, c)
		}
	}
	return w.b
}

func sgate(t int, rng *rand.Rand) *buf {
	x := newShTrace(rng, "sgate")
	w := x.w
	w.faultP = []int{0, 20}[rng.Intn(2)]
	s := newSched(w)
	procs := []string{"p1", "p2", "p3"}
	left := map[string]int{"p1": 2 + rng.Intn(4), "p2": 2 + rng.Intn(4), "p3": 1 + rng.Intn(3)}
	uploading := map[string]string{} // name -> caller: uploads of one name are never issued concurrently (see race)
	for guard := 0; guard < 500; guard++ {
		for n, p := range uploading {
			if !s.busy[p] {
				delete(uploading, n)
			}
		}
		var idle []string
		for _, p := range procs {
			if !s.busy[p] && left[p] > 0 {
				idle = append(idle, p)
			}
		}
		parked := s.parkedList()
		if len(idle) == 0 && len(parked) == 0 {
			break
		}
		k := rng.Intn(10)
		switch {
		case k < 1:
			x.env()
		case len(idle) > 0 && (len(parked) == 0 || k < 5):
			p := idle[rng.Intn(len(idle))]
			no := map[string]bool{}
			for n := range uploading {
				no[n] = true
			}
			c := x.randomCall(no)
			if c.op == "Upload" && c.kind == "seek" {
				uploading[c.n] = p
			}
			left[p]--
			w.slogCall(p, c)
			s.start(p, func() { w.shadowOp(p, x.cl, c) })
		case len(parked) > 0:
			s.release(parked[rng.Intn(len(parked))])
		}
	}
	s.drain()
	w.g = nil
	return w.b
}

// offset: the source is handed over after its first bytes were consumed (known finding X04-2).
func offset(t int, rng *rand.Rand) *buf {
	x := newShTrace(rng, "offset")
	w := x.w
	c := scall{op: "Upload", n: "n1", d: w.ids[rng.Intn(len(w.ids))], kind: "seek", off: 1 + rng.Intn(5)}
	w.slogCall("p1", c)
	w.shadowOp("p1", x.cl, c)
	for _, op := range []string{"Stat", "Download"} {
		c := scall{op: op, n: "n1", d: "none"}
		w.slogCall("p1", c)
		w.shadowOp("p1", x.cl, c)
	}
	return w.b
}

// race: two uploads of one name, forced in the order  A1 A2 (rewinds) S2 S1  found by TLC (known finding X04-3).
func race(t int, rng *rand.Rand) *buf {
	x := newShTrace(rng, "race")
	w := x.w
	s := newSched(w)
	c1 := scall{op: "Upload", n: "n1", d: "d1", kind: "seek"}
	c2 := scall{op: "Upload", n: "n1", d: "d2", kind: "seek"}
	w.slogCall("p1", c1)
	s.start("p1", func() { w.shadowOp("p1", x.cl, c1) }) // parks before the active upload
	w.slogCall("p2", c2)
	s.start("p2", func() { w.shadowOp("p2", x.cl, c2) })
	step := func(p string) {
		if _, ok := s.parked[p]; ok {
			s.release(p)
		}
	}
	step("p1") // A1, parks at the rewind
	step("p2") // A2
	step("p1") // rewind 1, parks before the shadow upload
	step("p2") // rewind 2
	step("p2") // S2, returns
	step("p1") // S1, returns
	s.drain()
	w.g = nil
	for _, op := range []string{"Stat", "Download"} {
		c := scall{op: op, n: "n1", d: "none"}
		w.slogCall("p1", c)
		w.shadowOp("p1", x.cl, c)
	}
	return w.b
}

// ---------------------------------------------------------------------------------------------------------------

func family(t int, quick bool) string {
	switch {
	case t == 0:
		return "oversize"
	case t == 1:
		return "offset"
	case t == 2:
		return "race"
	}
	switch t % 10 {
	case 0, 1, 2:
		return "mseq"
	case 3, 4:
		return "mgate"
	case 5:
		return "timed"
	case 6, 7:
		return "sseq"
	default:
		return "sgate"
	}
}

func record(fam string, t int, rng *rand.Rand) (b *buf) {
	defer func() {
		if r := recover(); r != nil {
			b = &buf{cfg: map[string]any{"family": fam, "match": map[string]any{"x": []string{}}, "bad": []string{}}}
			if strings.HasPrefix(fam, "s") || fam == "offset" || fam == "race" {
				b.cfg["tracespec"] = "shadow"
			}
			b.Ev("Panic", "what", fmt.Sprint(r))
		}
	}()
	switch fam {
	case "mseq":
		return mseq(t, rng)
	case "mgate":
		return mgate(t, rng)
	case "timed":
		return timed(t, rng, false)
	case "oversize":
		return timed(t, rng, true)
	case "sseq":
		return sseq(t, rng)
	case "sgate":
		return sgate(t, rng)
	case "offset":
		return offset(t, rng)
	}
	return race(t, rng)
}

func run(c *eng.Ctx) error {
	n := c.N(100, 600)
	// first pass: the timed traces sleep for real, so they are recorded concurrently (each from its own rng)
	timedBufs := map[int]chan *buf{}
	sem := make(chan struct{}, 24)
	c.Traces(n, func(t int, rng *rand.Rand) {
		fam := family(t, c.Quick())
		if fam != "timed" && fam != "oversize" {
			return
		}
		ch := make(chan *buf, 1)
		timedBufs[t] = ch
		sub := rand.New(rand.NewSource(rng.Int63()))
		go func() {
			sem <- struct{}{}
			defer func() { <-sem }()
			ch <- record(fam, t, sub)
		}()
	})
	counts := map[string]int{}
	c.Traces(n, func(t int, rng *rand.Rand) {
		fam := family(t, c.Quick())
		counts[fam]++
		if ch, ok := timedBufs[t]; ok {
			(<-ch).flush(c, t)
			return
		}
		record(fam, t, rng).flush(c, t)
	})
	for k, v := range counts {
		c.Stats["traces_"+k] = v
	}
	return nil
}
