// Package c36 records abstract cases of the real lib/backend/namepath pathers (property C36) for validation
// against spec/backend/NamePath.tla.
//
// One trace = one pather configuration class: a root (absolute/relative, depth 0..3, with/without trailing
// slash, "/" and "") and a scheme.  For every name class of the scheme (token sequences, including components
// that look like layout keywords) the case is concretised K times with random valid strings; the real
// New/BasePath/BlobPath/NameFromBlobPath are called (NameFromBlobPath always on the path BlobPath returned),
// the real strings are mapped back to tokens and one record per distinct abstract outcome is logged with a
// count.  The driver asserts nothing.
//
// The identity scheme over roots that end in a slash (or are "/" or "") is known to fail (finding F36); those
// configurations are confined to three dedicated traces (cfg.f36 = true) so that all other traces are
// validated to the end.
package c36

import (
	"fmt"
	"math/rand"
	"sort"
	"strings"

	"github.com/uber/kraken/lib/backend/namepath"

	"kvh/internal/eng"
)

func init() { eng.Register("c36", run) }

type root struct {
	abs   bool
	depth int
	slash bool
}

func (r root) cls() string {
	switch {
	case r.depth == 0 && r.abs:
		return "fsroot"
	case r.depth == 0:
		return "empty"
	case r.slash:
		return "slash"
	}
	return "plain"
}

var rootToks = []string{"ra", "rb", "rc"}

func (r root) segs() []string { return append([]string{}, rootToks[:r.depth]...) }
func (r root) json() map[string]any {
	return map[string]any{"abs": r.abs, "segs": r.segs(), "slash": r.slash}
}

type name struct {
	kind string
	a    []string
	b    string
}

func (n name) json() map[string]any {
	a := n.a
	if a == nil {
		a = []string{}
	}
	return map[string]any{"kind": n.kind, "a": a, "b": n.b}
}

var badName = name{kind: "bad", b: "!err"}

// layout keywords that may appear literally in a path
var keywords = map[string]bool{"docker": true, "registry": true, "v2": true, "repositories": true, "blobs": true,
	"_manifests": true, "tags": true, "current": true, "link": true, "sha256": true, "data": true}

// tokens that stand for themselves (look-alikes of keywords used as repo components / tags / id components)
func literal(tok string) bool { return keywords[tok] }

const (
	lower = "abcdefghijklmnopqrstuvwxyz0123456789"
	alnum = "ABCDEFGHIJKLMNOPQRSTUVWXYZabcdefghijklmnopqrstuvwxyz0123456789"
)

func pick(rng *rand.Rand, set string, n int) string {
	b := make([]byte, n)
	for i := range b {
		b[i] = set[rng.Intn(len(set))]
	}
	return string(b)
}

// concretisation of one case: token -> concrete string (injective, never a keyword)
type conc struct {
	rng  *rand.Rand
	fwd  map[string]string
	back map[string]string
}

func newConc(rng *rand.Rand) *conc {
	return &conc{rng: rng, fwd: map[string]string{}, back: map[string]string{}}
}

func (c *conc) get(tok, class string) string {
	if literal(tok) {
		c.back[tok] = tok
		return tok
	}
	if s, ok := c.fwd[tok]; ok {
		return s
	}
	for {
		var s string
		switch class {
		case "root": // directory names as seen in bucket prefixes; '.' is the only regexp metacharacter allowed
			s = pick(c.rng, lower, 3+c.rng.Intn(8))
			if c.rng.Intn(3) == 0 {
				s += []string{".", "-", "_"}[c.rng.Intn(3)] + pick(c.rng, lower, 1+c.rng.Intn(4))
			}
		case "repo": // [a-z0-9]+(?:[._-][a-z0-9]+)*
			s = pick(c.rng, lower, 3+c.rng.Intn(8))
			for c.rng.Intn(3) == 0 {
				s += []string{".", "-", "_", "__"}[c.rng.Intn(4)] + pick(c.rng, lower, 1+c.rng.Intn(5))
			}
		case "tag": // [\w][\w.-]{0,127}
			s = pick(c.rng, alnum+"_", 1) + pick(c.rng, alnum+"_.-", 2+c.rng.Intn(20))
		case "hex":
			s = pick(c.rng, "0123456789abcdef", 64)
		default: // identity component
			s = pick(c.rng, alnum, 3) + pick(c.rng, alnum+"._-", c.rng.Intn(12))
		}
		if keywords[s] || c.back[s] != "" || s == "." || s == ".." {
			continue
		}
		if class == "hex" && (c.back[s[:2]] != "" || keywords[s[:2]]) {
			continue
		}
		c.fwd[tok] = s
		c.back[s] = tok
		if class == "hex" {
			c.back[s[:2]] = "sh-" + tok
		}
		return s
	}
}

func (c *conc) rootString(r root) string {
	var parts []string
	for _, t := range r.segs() {
		parts = append(parts, c.get(t, "root"))
	}
	s := strings.Join(parts, "/")
	if r.abs {
		s = "/" + s
	}
	if r.slash && r.depth > 0 {
		s += "/"
	}
	return s
}

// absPath maps a real path string back to {abs, segs}.
func (c *conc) absPath(p string) map[string]any {
	abs := strings.HasPrefix(p, "/")
	if abs {
		p = p[1:]
	}
	segs := []string{}
	if p != "" {
		for _, s := range strings.Split(p, "/") {
			segs = append(segs, c.tok(s))
		}
	}
	return map[string]any{"abs": abs, "segs": segs}
}

func (c *conc) tok(s string) string {
	if t, ok := c.back[s]; ok {
		return t
	}
	if keywords[s] {
		return s
	}
	if len(s) > 24 {
		s = s[:24]
	}
	return "?" + s
}

func (c *conc) toks(s string) []string {
	out := []string{}
	for _, x := range strings.Split(s, "/") {
		out = append(out, c.tok(x))
	}
	return out
}

// absName maps a real name string back to a name record according to the scheme.
func (c *conc) absName(scheme, s string) name {
	switch scheme {
	case namepath.DockerTag:
		parts := strings.Split(s, ":")
		if len(parts) != 2 {
			return name{kind: "tag", a: []string{"?" + s}, b: "?"}
		}
		return name{kind: "tag", a: c.toks(parts[0]), b: c.tok(parts[1])}
	case namepath.ShardedDockerBlob:
		return name{kind: "hex", a: []string{c.tok(s)}}
	default:
		return name{kind: "id", a: c.toks(s)}
	}
}

// concName renders a name case as the real string.
func (c *conc) concName(scheme string, n name) string {
	if n.kind == "bad" {
		switch n.b {
		case "nocolon":
			return c.get("x", "repo")
		case "twocolons":
			return c.get("x", "repo") + ":" + c.get("t", "tag") + ":" + c.get("u", "tag")
		case "emptyrepo":
			return ":" + c.get("t", "tag")
		case "emptytag":
			return c.get("x", "repo") + ":"
		default: // short
			return pick(c.rng, "0123456789abcdef", c.rng.Intn(3))
		}
	}
	switch n.kind {
	case "tag":
		var parts []string
		for _, t := range n.a {
			parts = append(parts, c.get(t, "repo"))
		}
		return strings.Join(parts, "/") + ":" + c.get(n.b, "tag")
	case "hex":
		return c.get(n.a[0], "hex")
	default:
		var parts []string
		for _, t := range n.a {
			parts = append(parts, c.get(t, "id"))
		}
		return strings.Join(parts, "/")
	}
}

func seqs(toks []string, maxLen int) [][]string {
	var out [][]string
	var rec func(cur []string)
	rec = func(cur []string) {
		if len(cur) > 0 {
			out = append(out, append([]string{}, cur...))
		}
		if len(cur) == maxLen {
			return
		}
		for _, t := range toks {
			rec(append(cur, t))
		}
	}
	rec(nil)
	sort.Slice(out, func(i, j int) bool {
		if len(out[i]) != len(out[j]) {
			return len(out[i]) < len(out[j])
		}
		return strings.Join(out[i], "/") < strings.Join(out[j], "/")
	})
	return out
}

func namesFor(scheme string, quick bool) []name {
	var out []name
	switch scheme {
	case namepath.DockerTag:
		comps, tags, depth := []string{"x", "y", "tags", "current"}, []string{"t", "_manifests", "current", "link"}, 2
		if !quick {
			comps, tags, depth = []string{"x", "y", "tags", "current", "link", "repositories"}, []string{"t", "u", "_manifests", "current", "link", "tags"}, 3
		}
		for _, r := range seqs(comps, depth) {
			for _, t := range tags {
				out = append(out, name{kind: "tag", a: r, b: t})
			}
		}
		for _, b := range []string{"nocolon", "twocolons", "emptyrepo", "emptytag"} {
			out = append(out, name{kind: "bad", b: b})
		}
	case namepath.ShardedDockerBlob:
		out = append(out, name{kind: "hex", a: []string{"d1"}}, name{kind: "hex", a: []string{"d2"}}, name{kind: "bad", b: "short"})
	default:
		comps, depth := []string{"i1", "i2", "docker", "data"}, 2
		if !quick {
			depth = 3
		}
		for _, s := range seqs(comps, depth) {
			out = append(out, name{kind: "id", a: s})
		}
	}
	return out
}

type outcome struct {
	rec map[string]any
	cnt int
}

// runPather exercises one (root, scheme) class and logs the de-duplicated outcomes.
func runPather(c *eng.Ctx, rng *rand.Rand, r root, scheme string, k int) {
	names := namesFor(scheme, c.Quick())
	logNew := func() {
		cc := newConc(rng)
		_, err := namepath.New(cc.rootString(r), scheme)
		res := "ok"
		if err != nil {
			res = "err"
		}
		c.W.Ev("New", "id", scheme, "root", r.json(), "rootcls", r.cls(), "res", res)
	}
	logNew()
	{
		cc := newConc(rng)
		p, err := namepath.New(cc.rootString(r), scheme)
		if err == nil {
			// the identity pather returns the root exactly as configured, i.e. possibly with its trailing slash
			bp := p.BasePath()
			if len(bp) > 1 {
				bp = strings.TrimSuffix(bp, "/")
			}
			c.W.Ev("BasePath", "res", cc.absPath(bp))
		}
	}
	for i, n := range names {
		if i > 0 && i%60 == 0 {
			logNew() // a fresh pather of the same class keeps the specification's stored set small
		}
		blob := map[string]*outcome{}
		back := map[string]*outcome{}
		var bkeys, nkeys []string
		for j := 0; j < k; j++ {
			cc := newConc(rng)
			p, err := namepath.New(cc.rootString(r), scheme)
			if err != nil {
				continue
			}
			real := cc.concName(scheme, n)
			bp, err := p.BlobPath(real)
			var pj map[string]any
			if err != nil {
				pj = map[string]any{"abs": false, "segs": []string{"!err"}}
			} else {
				pj = cc.absPath(bp)
			}
			key := fmt.Sprint(pj)
			if o := blob[key]; o != nil {
				o.cnt++
			} else {
				blob[key] = &outcome{rec: pj, cnt: 1}
				bkeys = append(bkeys, key)
			}
			if err != nil {
				continue
			}
			got, err := p.NameFromBlobPath(bp)
			res := badName
			if err == nil {
				res = cc.absName(scheme, got)
			}
			key2 := key + fmt.Sprint(res)
			if o := back[key2]; o != nil {
				o.cnt++
			} else {
				back[key2] = &outcome{rec: map[string]any{"path": pj, "res": res.json()}, cnt: 1}
				nkeys = append(nkeys, key2)
			}
			c.Inc("roundtrips", 1)
		}
		for _, key := range bkeys {
			o := blob[key]
			c.W.Ev("BlobPath", "scheme", scheme, "rootcls", r.cls(), "name", n.json(), "res", o.rec, "cnt", o.cnt)
		}
		for _, key := range nkeys {
			o := back[key]
			c.W.Ev("NameFromBlobPath", "scheme", scheme, "rootcls", r.cls(), "path", o.rec["path"], "res", o.rec["res"], "cnt", o.cnt)
		}
	}
}

type plan struct {
	f36     bool
	roots   []root
	schemes []string
}

func run(c *eng.Ctx) error {
	var roots []root
	roots = append(roots, root{abs: true, depth: 0, slash: true}, root{abs: false, depth: 0, slash: false})
	for _, abs := range []bool{true, false} {
		for d := 1; d <= 3; d++ {
			for _, sl := range []bool{false, true} {
				roots = append(roots, root{abs: abs, depth: d, slash: sl})
			}
		}
	}
	schemes := []string{namepath.DockerTag, namepath.ShardedDockerBlob, namepath.Identity}
	var plans []plan
	// trace 0: constructor cases
	plans = append(plans, plan{})
	var slashRoots []root
	for _, r := range roots {
		for _, s := range schemes {
			if s == namepath.Identity && r.cls() != "plain" {
				if r.cls() == "slash" {
					slashRoots = append(slashRoots, r)
				}
				continue
			}
			plans = append(plans, plan{roots: []root{r}, schemes: []string{s}})
		}
	}
	// dedicated traces for the identity scheme over roots that end in a slash / are empty (finding F36)
	plans = append(plans,
		plan{f36: true, roots: []root{{abs: true, depth: 0, slash: true}}, schemes: []string{namepath.Identity}},
		plan{f36: true, roots: []root{{abs: false, depth: 0, slash: false}}, schemes: []string{namepath.Identity}},
		plan{f36: true, roots: slashRoots, schemes: []string{namepath.Identity}})
	k := c.N(20, 100)
	c.Traces(len(plans), func(t int, rng *rand.Rand) {
		p := plans[t]
		if len(p.roots) == 0 {
			c.W.Reset(t, map[string]any{"f36": false, "kind": "new"})
			for _, id := range []string{"", "bogus", "Identity", namepath.DockerTag, namepath.ShardedDockerBlob, namepath.Identity} {
				_, err := namepath.New("/", id)
				res := "ok"
				if err != nil {
					res = "err"
				}
				c.W.Ev("New", "id", id, "root", root{abs: true, depth: 0, slash: true}.json(), "rootcls", "fsroot", "res", res)
			}
			return
		}
		c.W.Reset(t, map[string]any{"f36": p.f36, "kind": "pather", "scheme": p.schemes[0], "rootcls": p.roots[0].cls()})
		for _, r := range p.roots {
			for _, s := range p.schemes {
				runPather(c, rng, r, s, k)
			}
		}
	})
	c.Stats["exhaustive"] = true
	return nil
}
