// Package c10 records histories of the real file store / cleanup code (property C10):
//
//	kind "fmap"  base.FileOp on base.NewLRUFileStore(cap): create / stat / read / persist flag / delete / clock
//	kind "clean" the same plus the cleanup passes of lib/store/cleanup.go (ttlBasedCleanup, customPolicyBasedCleanup,
//	             shouldAggro with a fake disk-usage probe; cleanupManager.cleanup itself with the real probe)
//	kind "force" origin/blobserver POST /forcecleanup on a real Server + CAStore with a scripted write-back manager
//
// After every call the on-disk state is read WITHOUT FileOp (os.Stat / os.ReadFile + the metadata codecs) and the
// in-memory map order through an export-only shim.  The driver records; spec/store/CleanupTrace.tla decides.
package c10

import (
	"bytes"
	"crypto/sha256"
	"encoding/hex"
	"encoding/json"
	"fmt"
	"math/rand"
	"net/http"
	"net/http/httptest"
	"os"
	"path/filepath"
	"reflect"
	"time"

	"github.com/andres-erbsen/clock"
	"github.com/uber-go/tally"

	"github.com/uber/kraken/core"
	"github.com/uber/kraken/lib/backend"
	"github.com/uber/kraken/lib/blobrefresh"
	"github.com/uber/kraken/lib/hashring"
	"github.com/uber/kraken/lib/healthcheck"
	"github.com/uber/kraken/lib/hostlist"
	"github.com/uber/kraken/lib/metainfogen"
	"github.com/uber/kraken/lib/persistedretry"
	"github.com/uber/kraken/lib/persistedretry/writeback"
	"github.com/uber/kraken/lib/store"
	"github.com/uber/kraken/lib/store/base"
	"github.com/uber/kraken/lib/store/metadata"
	"github.com/uber/kraken/origin/blobclient"
	"github.com/uber/kraken/origin/blobserver"
	"github.com/uber/kraken/utils/diskspaceutil"

	"kvh/internal/eng"
)

func init() { eng.Register("c10", run) }

var fnames = []string{"f1", "f2", "f3", "f4", "f5"}

const now0 = 200000 // the mock clock starts at t0 + now0 seconds so that every logged time is >= 0

var t0 = time.Unix(1_700_000_000, 0)

func at(sec int) time.Time { return t0.Add(time.Duration(sec) * time.Second) }
func rel(t time.Time) int  { return int(t.Unix() - t0.Unix()) }

func run(c *eng.Ctx) error {
	nF := c.N(60, 400)
	nC := c.N(150, 1200)
	nO := c.N(50, 300)
	c.Traces(nF+nC+nO, func(t int, rng *rand.Rand) {
		switch {
		case t < nF:
			baseTrace(c, t, rng, false)
		case t < nF+nC:
			baseTrace(c, t, rng, true)
		default:
			forceTrace(c, t, rng)
		}
	})
	return nil
}

// world is one store under test plus what is needed to observe it from outside.
type world struct {
	c     *eng.Ctx
	clk   *clock.Mock
	now   int
	fs    base.FileStore
	op    func() base.FileOp
	path  func(name string) string // data file path of a (real) name
	names []string                 // real name of f1..f5
	idx   map[string]string        // real name -> f<i>
}

func (w *world) obs() []any {
	disk, per, lat, mt, sz := map[string]any{}, map[string]any{}, map[string]any{}, map[string]any{}, map[string]any{}
	for i, f := range fnames {
		p := w.path(w.names[i])
		disk[f], per[f], lat[f], mt[f], sz[f] = false, "none", -1, 0, 0
		if st, err := os.Stat(p); err == nil {
			disk[f], mt[f], sz[f] = true, rel(st.ModTime()), int(st.Size())
		}
		dir := filepath.Dir(p)
		if b, err := os.ReadFile(filepath.Join(dir, (&metadata.Persist{}).GetSuffix())); err == nil {
			var pm metadata.Persist
			if pm.Deserialize(b) == nil {
				per[f] = fmt.Sprint(pm.Value)
			} else {
				per[f] = "garbled"
			}
		}
		if b, err := os.ReadFile(filepath.Join(dir, (&metadata.LastAccessTime{}).GetSuffix())); err == nil {
			var l metadata.LastAccessTime
			if l.Deserialize(b) == nil {
				lat[f] = rel(l.Time)
			} else {
				lat[f] = -2
			}
		}
	}
	order := []string{}
	for _, n := range base.VerifMapOrder(w.fs) {
		k, ok := w.idx[n]
		if !ok {
			k = "unknown"
		}
		order = append(order, k)
	}
	return []any{"disk", disk, "per", per, "lat", lat, "mt", mt, "sz", sz, "map", order}
}

func (w *world) ev(name string, kv ...any) { w.c.W.Ev(name, append(kv, w.obs()...)...) }

func (w *world) list() []string {
	ns, err := w.op().ListNames()
	if err != nil {
		panic(err)
	}
	out := []string{}
	for _, n := range ns {
		k, ok := w.idx[n]
		if !ok {
			k = "unknown"
		}
		out = append(out, k)
	}
	return out
}

func found(err error) string {
	switch {
	case err == nil:
		return "ok"
	case os.IsNotExist(err):
		return "notfound"
	}
	return "other"
}

func (w *world) tick(d int) {
	w.clk.Add(time.Duration(d) * time.Second)
	w.now += d
	w.c.W.Ev("Tick", "d", d)
}

func (w *world) setMtime(i, sec int) {
	// a failure (file already gone again) is not the driver's business: the observation after the call shows it
	_ = os.Chtimes(w.path(w.names[i]), at(sec), at(sec))
}

func (w *world) stat(i int) {
	info, err := w.op().GetFileStat(w.names[i])
	size, mt := 0, 0
	if err == nil {
		size, mt = int(info.Size()), rel(info.ModTime())
	}
	w.ev("Stat", "f", fnames[i], "res", found(err), "size", size, "mtime", mt)
}

func (w *world) getLat(i int) {
	var l metadata.LastAccessTime
	err := w.op().GetFileMetadata(w.names[i], &l)
	res, val := "ok", -1
	switch {
	case err == nil:
		val = rel(l.Time)
	case err == os.ErrNotExist: // the file itself is unknown (sentinel returned by FileOp)
		res = "notfound"
	case os.IsNotExist(err): // the file exists, the metadata file does not
		res = "nomd"
	default:
		res = "other"
	}
	w.ev("GetLat", "f", fnames[i], "res", res, "val", val)
}

func (w *world) getPersist(i int) {
	var pm metadata.Persist
	err := w.op().GetFileMetadata(w.names[i], &pm)
	res := "other"
	switch {
	case err == nil:
		res = fmt.Sprint(pm.Value)
	case err == os.ErrNotExist:
		res = "notfound"
	case os.IsNotExist(err):
		res = "none"
	}
	w.ev("GetPersist", "f", fnames[i], "res", res)
}

func (w *world) read(i int) {
	r, err := w.op().GetFileReader(w.names[i], 0)
	if err == nil {
		r.Close()
	}
	w.ev("Read", "f", fnames[i], "res", found(err))
}

func (w *world) setPersist(i int, v string) {
	var err error
	if v == "none" {
		err = w.op().DeleteFileMetadata(w.names[i], &metadata.Persist{})
	} else {
		_, err = w.op().SetFileMetadata(w.names[i], metadata.NewPersist(v == "true"))
	}
	w.ev("SetPersist", "f", fnames[i], "v", v, "res", found(err))
}

func (w *world) setLat(i, val int) {
	var err error
	if val < 0 {
		val = -1
		err = w.op().DeleteFileMetadata(w.names[i], &metadata.LastAccessTime{})
	} else {
		_, err = w.op().SetFileMetadata(w.names[i], metadata.NewLastAccessTime(at(val)))
	}
	w.ev("SetLat", "f", fnames[i], "val", val, "res", found(err))
}

func (w *world) del(i int) {
	err := w.op().DeleteFile(w.names[i])
	res := found(err)
	if err == base.ErrFilePersisted {
		res = "persisted"
	}
	w.ev("Delete", "f", fnames[i], "res", res)
}

// offsets used for ages: boundaries of the policy classes (1s, 45min), of TTI/TTL choices and values in between
var offs = []int{0, 1, 2, 60, 2700, 2701, 3600, 3601, 21600, 21601, 86400, 86401, 100000}

func usage(util int, used, total int) store.VerifUsageFn {
	return func() (diskspaceutil.UsageInfo, error) {
		return diskspaceutil.UsageInfo{Util: util, TotalBytes: uint64(total), UsedBytes: uint64(used), FreeBytes: uint64(total - used)}, nil
	}
}

func baseTrace(c *eng.Ctx, t int, rng *rand.Rand, passes bool) {
	dir, err := os.MkdirTemp("", "c10-")
	if err != nil {
		panic(err)
	}
	defer os.RemoveAll(dir)
	cap := 1 + rng.Intn(3)
	kind := "fmap"
	if passes {
		kind = "clean"
		if rng.Intn(3) != 0 {
			cap = 0
		} else {
			cap = 2 + rng.Intn(3)
		}
	}
	clk := clock.NewMock()
	clk.Set(at(now0))
	var fs base.FileStore
	if cap == 0 {
		fs = base.NewLocalFileStore(clk)
	} else {
		fs = base.NewLRUFileStore(cap, clk)
	}
	state := base.NewFileState(dir)
	w := &world{c: c, clk: clk, now: now0, fs: fs, names: fnames, idx: map[string]string{},
		op:   func() base.FileOp { return fs.NewFileOp().AcceptState(state) },
		path: func(n string) string { return filepath.Join(dir, n, base.DefaultDataFileName) }}
	for _, f := range fnames {
		w.idx[f] = f
	}
	c.W.Reset(t, map[string]any{"kind": kind, "cap": cap, "now0": now0})
	cleaner := store.VerifNewCleaner(clk)
	defer cleaner.Stop()

	create := func(i int) {
		size := 1 + rng.Intn(9)
		mt := w.now - offs[rng.Intn(len(offs))]
		err := w.op().CreateFile(w.names[i], state, int64(size))
		res := "other"
		switch {
		case err == nil:
			res = "ok"
			w.setMtime(i, mt)
		case os.IsExist(err):
			res, size, mt = "exists", 0, 0
		}
		w.ev("Create", "f", fnames[i], "size", size, "mtime", mt, "res", res)
	}
	onDisk := func() []int {
		var out []int
		for i := range fnames {
			if _, err := os.Stat(w.path(w.names[i])); err == nil {
				out = append(out, i)
			}
		}
		return out
	}
	// age a file: mtime and last access time at chosen distances from now (and from each other)
	age := func(i int) {
		mt := w.now - offs[rng.Intn(len(offs))]
		if _, err := os.Stat(w.path(w.names[i])); err == nil {
			w.setMtime(i, mt)
			w.ev("SetMtime", "f", fnames[i], "val", mt)
		}
		la := w.now - offs[rng.Intn(len(offs))]
		if rng.Intn(2) == 0 { // relative to mtime: exercises the policy classes
			la = mt + []int{0, 1, 2, 2700, 2701, -1, -2, -2701, 5000}[rng.Intn(9)]
			if la > w.now {
				la = w.now
			}
		}
		if la < 0 {
			la = 0
		}
		w.setLat(i, la)
	}
	pass := func() {
		ord := w.list()
		tti := []int{3600, 21600}[rng.Intn(2)]
		ttl := []int{0, 21600, 86400}[rng.Intn(3)]
		total := 100 + rng.Intn(900)
		switch p := rng.Intn(10); {
		case p < 4: // normal pass
			ret, err := cleaner.TTLCleanup(w.op(), time.Duration(tti)*time.Second, time.Duration(ttl)*time.Second, 0, usage(50, total/2, total))
			if err != nil {
				panic(err)
			}
			w.ev("TTLPass", "ord", ord, "tti", tti, "ttl", ttl, "lower", 0, "used", total/2, "totalb", total, "ret", int(ret))
		case p < 6: // aggressive ttl pass with a lower threshold
			lower := []int{1, 10, 30, 60}[rng.Intn(4)]
			sum := 0
			for _, i := range onDisk() {
				if st, err := os.Stat(w.path(w.names[i])); err == nil {
					sum += int(st.Size())
				}
			}
			total = 20 + rng.Intn(60)
			if total < sum {
				total = sum
			}
			used := sum + rng.Intn(total-sum+1) // the files live on that disk: used >= their total size
			ret, err := cleaner.TTLCleanup(w.op(), time.Duration(tti)*time.Second, time.Duration(ttl)*time.Second, lower, usage(used*100/total, used, total))
			if err != nil {
				panic(err)
			}
			w.ev("TTLPass", "ord", ord, "tti", tti, "ttl", ttl, "lower", lower, "used", used, "totalb", total, "ret", int(ret))
		case p < 8: // usage-driven policy pass
			lower := []int{50, 80, 90, 95}[rng.Intn(4)]
			total = 20 + rng.Intn(100)
			ret, err := cleaner.PolicyCleanup(w.op(), store.CleanupConfig{AggressiveLowerThreshold: lower}, usage(99, total, total))
			if err != nil {
				panic(err)
			}
			w.ev("PolicyPass", "ord", ord, "lower", lower, "totalb", total, "ret", int(ret))
		case p < 9: // the dispatcher itself, with the real disk usage probe
			u, err := diskspaceutil.Usage()
			if err != nil || u.Util < 5 || u.Util > 95 {
				return
			}
			cc := store.CleanupConfig{TTI: time.Duration(tti) * time.Second, TTL: time.Duration(ttl) * time.Second}
			switch rng.Intn(4) {
			case 0: // aggressive mode off
			case 1: // threshold not reached
				cc.AggressiveThreshold, cc.AggressiveTTL = 100, 60*time.Second
			case 2: // aggressive, ttl based (no lower threshold)
				cc.AggressiveThreshold, cc.AggressiveTTL = 1, time.Duration([]int{60, 3600}[rng.Intn(2)])*time.Second
			case 3: // aggressive with lower threshold: policy based if a policy is given
				cc.AggressiveThreshold, cc.AggressiveTTL, cc.AggressiveLowerThreshold = 1, 3600*time.Second, 1
			}
			policy := rng.Intn(2) == 0
			if cc.AggressiveLowerThreshold != 0 && !policy {
				return // ttl pass with a threshold in real disk bytes: not representable, skipped
			}
			cc = store.VerifApplyCleanupDefaults(cc)
			ret, err := cleaner.Cleanup(w.op(), cc, policy)
			if err != nil {
				panic(err)
			}
			// real byte counts do not fit the model's integers; they only matter through "enough bytes to delete
			// everything" (policy pass with lower threshold 1%), so a large stand-in is logged
			w.ev("Cleanup", "ord", ord, "policy", policy, "util", u.Util, "used", 500000000, "totalb", 1000000000, "ret", int(ret),
				"c", map[string]any{"tti": int(cc.TTI / time.Second), "ttl": int(cc.TTL / time.Second), "athr": cc.AggressiveThreshold,
					"attl": int(cc.AggressiveTTL / time.Second), "alow": cc.AggressiveLowerThreshold})
		default:
			util := rng.Intn(101)
			athr := []int{0, 50, 80, util}[rng.Intn(4)]
			cc := store.CleanupConfig{AggressiveThreshold: athr}
			res := cleaner.ShouldAggro(w.op(), cc, usage(util, util, 100))
			c.W.Ev("Aggro", "util", util, "res", res, "c", map[string]any{"tti": 0, "ttl": 0, "athr": athr, "attl": 0, "alow": 0})
		}
	}

	// most calls target a file that exists (resp. for create: one that does not)
	pick := func(existing bool) int {
		d := onDisk()
		if rng.Intn(5) == 0 {
			return rng.Intn(len(fnames))
		}
		if existing {
			if len(d) == 0 {
				return rng.Intn(len(fnames))
			}
			return d[rng.Intn(len(d))]
		}
		on := map[int]bool{}
		for _, i := range d {
			on[i] = true
		}
		var free []int
		for i := range fnames {
			if !on[i] {
				free = append(free, i)
			}
		}
		if len(free) == 0 {
			return rng.Intn(len(fnames))
		}
		return free[rng.Intn(len(free))]
	}
	steps := 25 + rng.Intn(30)
	for s := 0; s < steps; s++ {
		i := pick(true)
		p := rng.Intn(100)
		if passes {
			switch {
			case p < 22:
				create(pick(false))
			case p < 42:
				age(i)
			case p < 56:
				w.setPersist(i, []string{"true", "true", "true", "false", "none"}[rng.Intn(5)])
			case p < 63:
				w.tick(offs[1+rng.Intn(len(offs)-1)])
			case p < 68:
				w.read(i)
			case p < 72:
				w.del(i)
			case p < 75:
				w.setLat(i, -1)
			case p < 79:
				w.stat(i)
			case p < 81:
				c.W.Ev("List", "names", w.list())
			default:
				pass()
			}
			continue
		}
		switch {
		case p < 30:
			create(pick(false))
		case p < 42:
			w.stat(i)
		case p < 54:
			w.read(i)
		case p < 68:
			w.setPersist(i, []string{"true", "true", "false", "none"}[rng.Intn(4)])
		case p < 78:
			w.del(i)
		case p < 84:
			w.tick([]int{1, 299, 300, 301, 4000}[rng.Intn(5)])
		case p < 89:
			w.getLat(i)
		case p < 93:
			w.getPersist(i)
		case p < 96:
			w.setLat(i, []int{-1, w.now - 1000, w.now}[rng.Intn(3)])
		default:
			c.W.Ev("List", "names", w.list())
		}
	}
	if passes {
		pass()
	}
	for i := range fnames { // final probe of every file through the API
		w.stat(i)
	}
}

// ---------------------------------------------------------------- origin forced cleanup

// fakeWB is a scripted persistedretry.Manager: per blob name an ordered list of pending write-back tasks
// (one per namespace), each with the outcome its SyncExec will have.  Tasks stay pending (idempotent re-execution).
type fakeWB struct {
	tasks map[string][]string // name -> outcomes ("ok" | "fail"), task j lives in namespace "ns<j>"
	done  map[string]int      // name -> successful SyncExec calls since the counters were last cleared
}

func (m *fakeWB) Add(persistedretry.Task) error { return nil }
func (m *fakeWB) Close()                        {}
func (m *fakeWB) Find(q interface{}) ([]persistedretry.Task, error) {
	if _, ok := q.(*writeback.NameQuery); !ok {
		return nil, fmt.Errorf("unexpected query %T", q)
	}
	name := reflect.ValueOf(q).Elem().Field(0).String()
	var out []persistedretry.Task
	for j := range m.tasks[name] {
		out = append(out, writeback.NewTask(fmt.Sprintf("ns%d", j), name, 0))
	}
	return out, nil
}
func (m *fakeWB) SyncExec(t persistedretry.Task) error {
	wt := t.(*writeback.Task)
	var j int
	if _, err := fmt.Sscanf(wt.Namespace, "ns%d", &j); err != nil || j >= len(m.tasks[wt.Name]) {
		return fmt.Errorf("unknown task %s/%s", wt.Namespace, wt.Name)
	}
	if m.tasks[wt.Name][j] == "fail" {
		return fmt.Errorf("backend unavailable")
	}
	m.done[wt.Name]++
	return nil
}

type noClients struct{}

func (noClients) Provide(string) blobclient.Client { panic("no remote origins in this scenario") }

type noClusters struct{}

func (noClusters) Provide(string) (blobclient.ClusterClient, error) {
	return nil, fmt.Errorf("no remote clusters in this scenario")
}

func forceTrace(c *eng.Ctx, t int, rng *rand.Rand) {
	up, err1 := os.MkdirTemp("", "c10-up")
	ca, err2 := os.MkdirTemp("", "c10-ca")
	if err1 != nil || err2 != nil {
		panic(fmt.Sprint(err1, err2))
	}
	defer os.RemoveAll(up)
	defer os.RemoveAll(ca)
	clk := clock.NewMock()
	clk.Set(at(now0))
	cas, cleanup := store.CAStoreFixtureWithClock(store.CAStoreConfig{UploadDir: up, CacheDir: ca,
		UploadCleanup: store.CleanupConfig{Disabled: true}, CacheCleanup: store.CleanupConfig{Disabled: true}}, clk)
	defer cleanup()
	const self = "origin1:80"
	ring := hashring.New(hashring.Config{MaxReplica: 1}, hostlist.Fixture(self, "origin2:80", "origin3:80"),
		healthcheck.IdentityFilter{}, tally.NoopScope)
	wbm := &fakeWB{tasks: map[string][]string{}, done: map[string]int{}}
	bm := backend.ManagerFixture()
	mg := metainfogen.Fixture(cas, 4)
	br := blobrefresh.New(blobrefresh.Config{}, tally.NoopScope, cas, bm, mg)
	srv, err := blobserver.New(blobserver.Config{}, tally.NoopScope, clk, self, ring, cas, noClients{}, noClusters{},
		core.PeerContextFixture(), bm, br, mg, wbm)
	if err != nil {
		panic(err)
	}
	h := srv.Handler()

	// five blobs; ownership is whatever the ring says for their digests
	contents := make([][]byte, len(fnames))
	names := make([]string, len(fnames))
	w := &world{c: c, clk: clk, now: now0, idx: map[string]string{}}
	for i := range fnames {
		b := make([]byte, 1+rng.Intn(12))
		rng.Read(b)
		sum := sha256.Sum256(b)
		contents[i], names[i] = b, hex.EncodeToString(sum[:])
		w.idx[names[i]] = fnames[i]
	}
	w.names = names
	w.fs = cas.VerifCacheBackend()
	w.op = cas.VerifCacheFileOp
	w.path = func(n string) string {
		return filepath.Join(ca, base.NewCASFileEntryFactory().GetRelativePath(n))
	}
	c.W.Reset(t, map[string]any{"kind": "force", "cap": 1 << 20, "now0": now0})
	for i := range fnames {
		d, err := core.NewSHA256DigestFromHex(names[i])
		if err != nil {
			panic(err)
		}
		owns := false
		for _, l := range ring.Locations(d) {
			owns = owns || l == self
		}
		c.W.Ev("SetOwn", "f", fnames[i], "b", owns)
	}
	ttlHr := []int{1, 6, 12}[rng.Intn(3)]
	ages := []int{0, 1, ttlHr*3600 - 1, ttlHr * 3600, ttlHr*3600 + 1, 100000}
	create := func(i int) {
		_, serr := os.Stat(w.path(names[i])) // CreateCacheFile tolerates an existing file: look from outside
		err := cas.CreateCacheFile(names[i], bytes.NewReader(contents[i]))
		size, mt, res := len(contents[i]), w.now-ages[rng.Intn(len(ages))], "other"
		if err == nil && serr != nil {
			res = "ok"
			w.setMtime(i, mt)
		} else if err == nil {
			res, size, mt = "exists", 0, 0
		}
		w.ev("Create", "f", fnames[i], "size", size, "mtime", mt, "res", res)
	}
	steps := 12 + rng.Intn(12)
	for s := 0; s < steps; s++ {
		i := rng.Intn(len(fnames))
		if rng.Intn(4) != 0 { // prefer blobs that exist
			var d []int
			for j := range fnames {
				if _, err := os.Stat(w.path(names[j])); err == nil {
					d = append(d, j)
				}
			}
			if len(d) > 0 {
				i = d[rng.Intn(len(d))]
			}
		}
		switch p := rng.Intn(100); {
		case p < 25:
			create(rng.Intn(len(fnames)))
		case p < 48:
			v := []string{"true", "true", "true", "true", "false", "none"}[rng.Intn(6)]
			var err error
			if v == "none" {
				err = cas.DeleteCacheFileMetadata(names[i], &metadata.Persist{})
			} else {
				_, err = cas.SetCacheFileMetadata(names[i], metadata.NewPersist(v == "true"))
			}
			w.ev("SetPersist", "f", fnames[i], "v", v, "res", found(err))
		case p < 68:
			// 0..3 pending tasks, every ok/fail pattern
			ts := []string{}
			for n := []int{0, 1, 1, 2, 2, 2, 3, 3}[rng.Intn(8)]; n > 0; n-- {
				ts = append(ts, []string{"ok", "ok", "fail"}[rng.Intn(3)])
			}
			wbm.tasks[names[i]] = ts
			delete(wbm.done, names[i])
			c.W.Ev("SetTask", "f", fnames[i], "ts", ts)
		case p < 74:
			w.tick([]int{1, 3599, 3600, 3601, 50000}[rng.Intn(5)])
		case p < 78:
			w.stat(i)
		default:
			ord := w.list()
			wbm.done = map[string]int{}
			req := httptest.NewRequest(http.MethodPost, fmt.Sprintf("/forcecleanup?ttl_hr=%d", ttlHr), nil)
			rec := httptest.NewRecorder()
			h.ServeHTTP(rec, req)
			if rec.Code != http.StatusOK {
				panic(fmt.Sprintf("forcecleanup: status %d: %s", rec.Code, rec.Body.String()))
			}
			var resp struct {
				Deleted []string `json:"deleted"`
				Errors  []string `json:"errors"`
			}
			if err := json.Unmarshal(rec.Body.Bytes(), &resp); err != nil {
				panic(err)
			}
			del := []string{}
			for _, n := range resp.Deleted {
				del = append(del, w.idx[n])
			}
			done := map[string]any{}
			for j, f := range fnames {
				done[f] = wbm.done[names[j]]
			}
			w.ev("ForcePass", "ord", ord, "ttl", ttlHr*3600, "deleted", del, "nerr", len(resp.Errors), "done", done)
		}
	}
	for i := range fnames {
		w.stat(i)
	}
}
