// Package c29 forces schedules on the real utils/dedup objects (RequestCache, Limiter, IntervalTrap) and records
// what is observable from outside (property C29).
//
// "In flight" is a forced state, not a race: request functions, TaskRunners and IntervalTasks are gates that block
// until the driver releases them; time is a clock.Mock behind a clock.Clock whose Now() can be held; the worker
// semaphore is observed through the tally gauge the cache updates.  The driver performs one step at a time, waits
// until every goroutine it started has returned, entered a gate, or is parked by the Go runtime in a lock / cond /
// select (read from runtime.Stack), and logs the step.  Expectations of the driver only lengthen waits; every record
// is an observation.  The in-flight count per key is measured inside the gated function itself.
package c29

import (
	"bytes"
	"errors"
	"fmt"
	"math/rand"
	"runtime"
	"strconv"
	"sync"
	"sync/atomic"
	"time"

	"github.com/andres-erbsen/clock"
	"github.com/uber-go/tally"

	"github.com/uber/kraken/utils/dedup"

	"kvh/internal/eng"
)

func init() { eng.Register("c29", run) }

const (
	longWait  = 5 * time.Second // a step that does not settle within this is not forced: the trace is aborted and counted
	graceWait = 2 * time.Second // how long an expected progress is awaited although the goroutine still looks parked
)

var (
	errNF    = errors.New("c29: not found")
	errOther = errors.New("c29: other")
)

// ---------------------------------------------------------------------------------------------------------------
// goroutine observation

func gid() int64 {
	var b [64]byte
	n := runtime.Stack(b[:], false)
	s := b[len("goroutine "):n]
	i := bytes.IndexByte(s, ' ')
	id, _ := strconv.ParseInt(string(s[:i]), 10, 64)
	return id
}

// gstates returns the scheduler state of every goroutine ("running", "select", "sync.Cond.Wait", "sync.Mutex.Lock", ...).
var stackBuf = make([]byte, 1<<20)

func gstates() map[int64]string {
	buf := stackBuf
	n := runtime.Stack(buf, true)
	out := map[int64]string{}
	for _, blk := range bytes.Split(buf[:n], []byte("\n\n")) {
		if !bytes.HasPrefix(blk, []byte("goroutine ")) {
			continue
		}
		line := blk
		if i := bytes.IndexByte(blk, '\n'); i >= 0 {
			line = blk[:i]
		}
		rest := line[len("goroutine "):]
		sp := bytes.IndexByte(rest, ' ')
		lb := bytes.IndexByte(rest, '[')
		rb := bytes.IndexByte(rest, ']')
		if sp < 0 || lb < 0 || rb < lb {
			continue
		}
		id, err := strconv.ParseInt(string(rest[:sp]), 10, 64)
		if err != nil {
			continue
		}
		st := rest[lb+1 : rb]
		if c := bytes.IndexByte(st, ','); c >= 0 {
			st = st[:c]
		}
		out[id] = string(st)
	}
	return out
}

func parked(st string) bool {
	switch st {
	case "select", "sync.Cond.Wait", "sync.Mutex.Lock", "sync.RWMutex.RLock", "sync.RWMutex.Lock", "semacquire":
		return true
	}
	return false
}

// ---------------------------------------------------------------------------------------------------------------
// dependencies handed to the real code

// gclock is a clock.Clock: a clock.Mock whose Now() calls are counted and of which one chosen call can be held.
type gclock struct {
	*clock.Mock
	mu      sync.Mutex
	calls   int
	holdAt  int
	held    chan struct{}
	release chan struct{}
}

func newClock() *gclock { return &gclock{Mock: clock.NewMock()} }

func (g *gclock) Now() time.Time {
	t := g.Mock.Now()
	g.mu.Lock()
	g.calls++
	hold := g.holdAt != 0 && g.calls == g.holdAt
	held, rel := g.held, g.release
	g.mu.Unlock()
	if hold {
		close(held)
		select {
		case <-rel:
		case <-time.After(4 * longWait):
		}
	}
	return t // the value read before the delay: a clock read followed by a preemption
}

// arm makes the n-th Now() call from now on block until the returned release channel is closed.
func (g *gclock) arm(n int) (held, release chan struct{}) {
	g.mu.Lock()
	defer g.mu.Unlock()
	g.holdAt = g.calls + n
	g.held, g.release = make(chan struct{}), make(chan struct{})
	return g.held, g.release
}

// sigScope is a tally.Scope that counts gauge updates (RequestCache updates "num_requests" after taking and after
// freeing a worker slot).
type sigScope struct {
	tally.Scope
	updates int64
}

type sigGauge struct{ s *sigScope }

func (g sigGauge) Update(float64)                        { atomic.AddInt64(&g.s.updates, 1) }
func (s *sigScope) Gauge(string) tally.Gauge             { return sigGauge{s} }
func (s *sigScope) Tagged(map[string]string) tally.Scope { return s }
func (s *sigScope) SubScope(string) tally.Scope          { return s }
func (s *sigScope) n() int64                             { return atomic.LoadInt64(&s.updates) }

// ---------------------------------------------------------------------------------------------------------------
// driver core

type release struct {
	err error
	out int
	ttl time.Duration
	ack chan int
}

type call struct {
	c       string // logical caller
	k       string
	g       int64 // goroutine id of the caller
	started chan struct{}
	state   string // "new", "blocked", "gate", "done"
	gate    chan release
	// RequestCache
	reserved bool // Start{reserved} logged
	retNil   bool
	entered  bool
	infl     int
	deadline int
}

type event struct {
	kind string // "ret", "enter", "recall"
	cl   *call
	err  error
	out  int
	n    int
	gate chan release
	k    string
	st   string // runtime state of the goroutine when it was seen parked
}

type driver struct {
	c       *eng.Ctx
	evc     chan event
	wg      sync.WaitGroup
	aborted bool
	now     int
	byG     sync.Map // goroutine id -> *call (gates that run in the caller's goroutine)
	infl    map[string]int
	imu     sync.Mutex
	handle  func(e event) // component specific logging of a drained event
}

func newDriver(c *eng.Ctx) *driver {
	return &driver{c: c, evc: make(chan event, 1024), infl: map[string]int{}}
}

func (d *driver) abort(why string) {
	if !d.aborted {
		d.aborted = true
		d.c.W.Ev("abort", "why", why)
		d.c.Inc("skipped", 1)
	}
}

// enterGate is called inside a gated function: counts the executions of key k in flight, reports the entry and blocks.
func (d *driver) enterGate(cl *call, k string) release {
	d.imu.Lock()
	d.infl[k]++
	n := d.infl[k]
	d.imu.Unlock()
	gate := make(chan release, 1)
	d.evc <- event{kind: "enter", cl: cl, n: n, gate: gate, k: k}
	var r release
	select {
	case r = <-gate:
	case <-time.After(6 * longWait):
	}
	d.imu.Lock()
	m := d.infl[k]
	d.infl[k]--
	d.imu.Unlock()
	if r.ack != nil {
		r.ack <- m
	}
	return r
}

func (d *driver) drain() {
	for {
		select {
		case e := <-d.evc:
			d.handle(e)
		default:
			return
		}
	}
}

// settle waits until each call in cs has left state "new" (returned, entered a gate, or is parked by the runtime).
// Calls in expect are awaited for up to graceWait even though they still look parked.
func (d *driver) settle(cs []*call, expect map[*call]bool) {
	t0 := time.Now()
	sleep := 50 * time.Microsecond
	for {
		for _, cl := range cs {
			select {
			case <-cl.started:
			case <-time.After(longWait):
				d.abort("goroutine did not start")
				return
			}
		}
		st := gstates()
		d.drain()
		open := false
		for _, cl := range cs {
			if cl.state == "done" || cl.state == "gate" {
				continue
			}
			isParked := parked(st[cl.g])
			if cl.state == "new" && isParked && !(expect[cl] && time.Since(t0) < graceWait) {
				cl.state = "blocked"
				d.handle(event{kind: "blocked", cl: cl, st: st[cl.g]})
				continue
			}
			if cl.state == "blocked" && !(expect[cl] && time.Since(t0) < graceWait) {
				continue
			}
			open = true
		}
		if !open {
			return
		}
		if time.Since(t0) > longWait {
			d.abort("step did not settle")
			return
		}
		time.Sleep(sleep)
		if sleep < time.Millisecond {
			sleep *= 2
		}
	}
}

func (d *driver) spawn(cl *call, f func()) {
	cl.started = make(chan struct{})
	cl.state = "new"
	d.wg.Add(1)
	go func() {
		defer d.wg.Done()
		cl.g = gid()
		d.byG.Store(cl.g, cl)
		close(cl.started)
		f()
		d.byG.Delete(cl.g)
	}()
}

// finish ends a trace (not logged): every gate is opened and pump is repeated until all goroutines are gone.
func (d *driver) finish(open func(), pump func()) {
	d.handle = func(e event) {
		if e.kind == "enter" {
			e.gate <- release{}
		}
	}
	open()
	done := make(chan struct{})
	go func() { d.wg.Wait(); close(done) }()
	t0 := time.Now()
	for time.Since(t0) < longWait {
		d.drain()
		select {
		case <-done:
			return
		default:
		}
		pump()
	}
}

func names(p string, n int) []string {
	s := make([]string, n)
	for i := range s {
		s[i] = fmt.Sprintf("%s%d", p, i+1)
	}
	return s
}

func baseCfg(comp, scenario string) map[string]any {
	return map[string]any{"comp": comp, "scenario": scenario, "nw": 1, "bt": 1, "ettl": 1, "nfttl": 1, "ci": 1, "gci": 1, "ti": 1}
}

// ---------------------------------------------------------------------------------------------------------------
// RequestCache

func errName(err error) string {
	switch {
	case err == nil:
		return "nil"
	case errors.Is(err, errNF):
		return "nf"
	case errors.Is(err, errOther):
		return "other"
	case errors.Is(err, dedup.ErrRequestPending):
		return "pending"
	case errors.Is(err, dedup.ErrWorkersBusy):
		return "busy"
	}
	return "unknown"
}

func traceRC(c *eng.Ctx, t int, rng *rand.Rand) {
	const unit = time.Second
	cfg := baseCfg("rc", "random")
	nw, bt := 1+rng.Intn(2), 1+rng.Intn(2)
	cfg["nw"], cfg["bt"], cfg["ettl"], cfg["nfttl"], cfg["ci"] = nw, bt, 1+rng.Intn(3), 1+rng.Intn(2), 1+rng.Intn(3)
	c.W.Reset(t, cfg)
	d := newDriver(c)
	clk := newClock()
	stats := &sigScope{Scope: tally.NoopScope}
	rc := dedup.NewRequestCache(dedup.RequestCacheConfig{
		NotFoundTTL: time.Duration(cfg["nfttl"].(int)) * unit, ErrorTTL: time.Duration(cfg["ettl"].(int)) * unit,
		CleanupInterval: time.Duration(cfg["ci"].(int)) * unit, NumWorkers: nw, BusyTimeout: time.Duration(bt) * unit,
	}, clk, stats)
	rc.SetNotFound(func(err error) bool { return errors.Is(err, errNF) })

	keys, callers := names("k", 3), names("c", 4)
	cur := map[string]*call{}     // caller -> call in progress (waiting for a worker)
	running := map[string]*call{} // key -> call whose request function is in flight
	slots := 0                    // expectation only

	acquire := func(cl *call) {
		if cl.retNil && cl.entered && cl.state != "done" {
			if !cl.reserved {
				c.W.Ev("Start", "c", cl.c, "k", cl.k, "res", "reserved")
			}
			c.W.Ev("Acquire", "c", cl.c, "k", cl.k, "infl", cl.infl)
			cl.state = "done"
			delete(cur, cl.c)
			running[cl.k] = cl
			slots++
		}
	}
	d.handle = func(e event) {
		cl := e.cl
		switch e.kind {
		case "blocked": // parked in the select of reserveWorker: the reservation succeeded
			if !cl.reserved {
				cl.reserved = true
				cl.deadline = d.now + bt
				c.W.Ev("Start", "c", cl.c, "k", cl.k, "res", "reserved")
			}
		case "enter":
			cl.entered, cl.infl, cl.gate = true, e.n, e.gate
			acquire(cl)
		case "ret":
			switch r := errName(e.err); r {
			case "nil":
				cl.retNil = true
				acquire(cl)
			case "busy":
				if !cl.reserved {
					c.W.Ev("Start", "c", cl.c, "k", cl.k, "res", "reserved")
				}
				c.W.Ev("Busy", "c", cl.c, "k", cl.k)
				cl.state = "done"
				delete(cur, cl.c)
			default:
				if cl.reserved {
					r = "unexpected-" + r
				}
				c.W.Ev("Start", "c", cl.c, "k", cl.k, "res", r)
				cl.state = "done"
				delete(cur, cl.c)
			}
		}
	}
	waiting := func() []*call {
		var ws []*call
		for _, n := range callers {
			if cl := cur[n]; cl != nil {
				ws = append(ws, cl)
			}
		}
		return ws
	}

	steps := 18 + rng.Intn(18)
	for s := 0; s < steps && !d.aborted; s++ {
		var idle, runk []string
		for _, n := range callers {
			if cur[n] == nil {
				idle = append(idle, n)
			}
		}
		for _, k := range keys {
			if running[k] != nil {
				runk = append(runk, k)
			}
		}
		switch x := rng.Intn(10); {
		case x < 5 && len(idle) > 0:
			cl := &call{c: idle[rng.Intn(len(idle))], k: keys[rng.Intn(len(keys))]}
			cur[cl.c] = cl
			d.spawn(cl, func() {
				err := rc.Start(cl.k, func() error { return d.enterGate(cl, cl.k).err })
				d.evc <- event{kind: "ret", cl: cl, err: err}
			})
			d.settle(waiting(), map[*call]bool{cl: slots < nw})
		case x < 8 && len(runk) > 0:
			k := runk[rng.Intn(len(runk))]
			cl := running[k]
			e := []error{nil, nil, errNF, errOther}[rng.Intn(4)]
			u0 := stats.n()
			ack := make(chan int, 1)
			cl.gate <- release{err: e, ack: ack}
			select {
			case n := <-ack:
				c.W.Ev("Exit", "k", k, "e", errName(e), "infl", n)
			case <-time.After(longWait):
				d.abort("request function did not leave")
				continue
			}
			delete(running, k)
			t0 := time.Now()
			for stats.n() == u0 && time.Since(t0) < longWait {
				time.Sleep(50 * time.Microsecond)
			}
			if stats.n() == u0 {
				d.abort("worker not released")
				continue
			}
			slots--
			c.W.Ev("Released", "k", k)
			exp := map[*call]bool{}
			if ws := waiting(); len(ws) > 0 && slots < nw {
				for _, w := range ws {
					exp[w] = true
				}
			}
			d.settleAny(waiting(), exp)
		default:
			dt := 1 + rng.Intn(2)
			clk.Add(time.Duration(dt) * unit)
			d.now += dt
			c.W.Ev("Tick", "d", dt)
			exp := map[*call]bool{}
			for _, w := range waiting() {
				if w.reserved && w.deadline <= d.now {
					exp[w] = true
				}
			}
			d.settle(waiting(), exp)
		}
	}
	d.finish(func() {
		for _, cl := range running {
			cl.gate <- release{}
		}
	}, func() { clk.Add(time.Hour) })
}

// traceRCLag: the failure of a request is being recorded (the worker goroutine is inside RequestCache.error, parked in the
// user-supplied not-found matcher) while another caller starts the same key.  Dedup.tla: between RcFnExit and the silent
// RcFinish the key is still pending, after RcFinish the error is cached - there is no moment at which Start may run the
// request again.  The matcher is the only dependency seam inside error(); on the code as built it is called under c.mu, so
// the second Start cannot return before the matcher does (it is awaited for lagWait only, never required).
func traceRCLag(c *eng.Ctx, t int, rng *rand.Rand) {
	const unit = time.Second
	const lagWait = 40 * time.Millisecond
	cfg := baseCfg("rc", "lag")
	cfg["nw"], cfg["bt"], cfg["ettl"], cfg["nfttl"], cfg["ci"] = 2, 2, 1+rng.Intn(3), 1+rng.Intn(2), 3
	c.W.Reset(t, cfg)
	abort := func(why string) {
		c.W.Ev("abort", "why", why)
		c.Inc("skipped", 1)
	}
	clk := newClock()
	stats := &sigScope{Scope: tally.NoopScope}
	rc := dedup.NewRequestCache(dedup.RequestCacheConfig{
		NotFoundTTL: time.Duration(cfg["nfttl"].(int)) * unit, ErrorTTL: time.Duration(cfg["ettl"].(int)) * unit,
		CleanupInterval: 3 * unit, NumWorkers: 2, BusyTimeout: 2 * unit,
	}, clk, stats)
	var gated int32
	inMatcher, openMatcher := make(chan struct{}, 8), make(chan struct{})
	rc.SetNotFound(func(err error) bool {
		if atomic.LoadInt32(&gated) == 1 {
			inMatcher <- struct{}{}
			<-openMatcher
		}
		return errors.Is(err, errNF)
	})
	var infl int32
	type reqFn struct {
		in, left chan int
		out      chan error
	}
	mk := func() (*reqFn, func() error) {
		r := &reqFn{in: make(chan int, 1), left: make(chan int, 1), out: make(chan error, 1)}
		return r, func() error {
			r.in <- int(atomic.AddInt32(&infl, 1))
			e := <-r.out
			r.left <- int(atomic.LoadInt32(&infl))
			atomic.AddInt32(&infl, -1)
			return e
		}
	}
	waitInt := func(ch chan int) (int, bool) {
		select {
		case n := <-ch:
			return n, true
		case <-time.After(longWait):
			return 0, false
		}
	}
	k := names("k", 3)[rng.Intn(3)]
	e := []error{errNF, errOther}[rng.Intn(2)]
	r1, f1 := mk()
	r2, f2 := mk()
	defer func() { // not logged: let every goroutine go
		select {
		case <-openMatcher:
		default:
			close(openMatcher)
		}
		r1.out <- nil
		r2.out <- nil
	}()

	ret1 := make(chan error, 1)
	go func() { ret1 <- rc.Start(k, f1) }()
	select {
	case err := <-ret1:
		if err != nil {
			abort("first Start failed")
			return
		}
	case <-time.After(longWait):
		abort("first Start did not return")
		return
	}
	n, ok := waitInt(r1.in)
	if !ok {
		abort("first request function not entered")
		return
	}
	c.W.Ev("Start", "c", "c1", "k", k, "res", "reserved")
	c.W.Ev("Acquire", "c", "c1", "k", k, "infl", n)

	u0 := stats.n()
	atomic.StoreInt32(&gated, 1)
	r1.out <- e
	n, ok = waitInt(r1.left)
	if !ok {
		abort("request function did not leave")
		return
	}
	c.W.Ev("Exit", "k", k, "e", errName(e), "infl", n)
	select {
	case <-inMatcher:
	case <-time.After(longWait):
		abort("matcher not consulted")
		return
	}

	// the second caller arrives while the failure is being recorded
	ret2 := make(chan error, 1)
	go func() { ret2 <- rc.Start(k, f2) }()
	logSecond := func(err error) bool {
		if r := errName(err); r != "nil" {
			c.W.Ev("Start", "c", "c2", "k", k, "res", r)
			return true
		}
		n2, ok := waitInt(r2.in)
		if !ok {
			abort("second request function not entered")
			return false
		}
		c.W.Ev("Start", "c", "c2", "k", k, "res", "reserved")
		c.W.Ev("Acquire", "c", "c2", "k", k, "infl", n2)
		return true
	}
	early := false
	select {
	case err := <-ret2:
		early = true
		if !logSecond(err) {
			return
		}
	case <-time.After(lagWait):
	}
	atomic.StoreInt32(&gated, 0)
	close(openMatcher)
	t0 := time.Now()
	for stats.n() == u0 && time.Since(t0) < longWait {
		time.Sleep(50 * time.Microsecond)
	}
	if stats.n() == u0 {
		abort("worker not released")
		return
	}
	c.W.Ev("Released", "k", k)
	if !early {
		select {
		case err := <-ret2:
			logSecond(err)
		case <-time.After(longWait):
			abort("second Start did not return")
		}
	}
}

// settleAny is settle for the case where only one of the expected calls can make progress (one free slot):
// it stops waiting for the others as soon as one has resolved.
func (d *driver) settleAny(cs []*call, expect map[*call]bool) {
	if len(expect) <= 1 {
		d.settle(cs, expect)
		return
	}
	t0 := time.Now()
	for time.Since(t0) < graceWait {
		d.drain()
		for cl := range expect {
			if cl.state == "done" {
				d.settle(cs, nil)
				return
			}
		}
		time.Sleep(100 * time.Microsecond)
	}
	d.settle(cs, nil)
}

// ---------------------------------------------------------------------------------------------------------------
// Limiter

type gRunner struct{ d *driver }

func (r *gRunner) Run(input interface{}) (interface{}, time.Duration) {
	var cl *call
	if v, ok := r.d.byG.Load(gid()); ok {
		cl = v.(*call)
	}
	rel := r.d.enterGate(cl, input.(string))
	return rel.out, rel.ttl
}

type limWorld struct {
	d       *driver
	c       *eng.Ctx
	clk     *gclock
	lim     *dedup.Limiter
	cur     map[string]*call // caller -> call in progress
	callers []string
	nextOut int
}

const limUnit = dedup.TaskGCInterval // one tick = one GC interval

func newLim(c *eng.Ctx) *limWorld {
	w := &limWorld{d: newDriver(c), c: c, clk: newClock(), cur: map[string]*call{}, callers: names("c", 4)}
	w.lim = dedup.NewLimiter(w.clk, &gRunner{w.d})
	w.d.handle = func(e event) {
		cl := e.cl
		switch e.kind {
		case "enter":
			if cl == nil {
				w.d.abort("runner entered by an unknown goroutine")
				e.gate <- release{}
				return
			}
			cl.state, cl.gate, cl.infl = "gate", e.gate, e.n
			c.W.Ev("Enter", "c", cl.c, "k", e.k, "infl", e.n)
		case "ret":
			c.W.Ev("Ret", "c", cl.c, "out", e.out)
			cl.state = "done"
			delete(w.cur, cl.c)
		case "blocked":
			if e.st == "sync.Cond.Wait" { // parked in cond.Wait: some execution of its task must be in flight
				c.W.Ev("Waiting", "c", cl.c, "k", cl.k)
			}
		case "recall": // the same goroutine calls Run again (logged in program order)
			c.W.Ev("Run", "c", cl.c, "k", e.k)
			cl.k, cl.state = e.k, "new"
			w.cur[cl.c] = cl
		}
	}
	return w
}

func asInt(v interface{}) int {
	if i, ok := v.(int); ok {
		return i
	}
	return 0
}

func (w *limWorld) active() []*call {
	var cs []*call
	for _, n := range w.callers {
		if cl := w.cur[n]; cl != nil {
			cs = append(cs, cl)
		}
	}
	return cs
}

func (w *limWorld) run(cn, k string, exp bool) *call {
	cl := &call{c: cn, k: k}
	w.cur[cn] = cl
	w.c.W.Ev("Run", "c", cn, "k", k)
	w.d.spawn(cl, func() {
		out := w.lim.Run(k)
		w.d.evc <- event{kind: "ret", cl: cl, out: asInt(out)}
	})
	w.d.settle(w.active(), map[*call]bool{cl: exp})
	return cl
}

func (w *limWorld) leave(cl *call, ttl int) {
	w.nextOut++
	ack := make(chan int, 1)
	k := cl.k
	cl.gate <- release{out: w.nextOut, ttl: time.Duration(ttl) * limUnit, ack: ack}
	select {
	case n := <-ack:
		w.c.W.Ev("Leave", "c", cl.c, "k", k, "o", w.nextOut, "ttl", ttl, "infl", n)
	case <-time.After(longWait):
		w.d.abort("runner did not leave")
		return
	}
	cl.state = "new"
	exp := map[*call]bool{cl: true}
	for _, o := range w.active() {
		if o.k == k && o.state == "blocked" {
			exp[o] = true
		}
	}
	w.d.settle(w.active(), exp)
}

func (w *limWorld) tick(dt int) {
	w.clk.Add(time.Duration(dt) * limUnit)
	w.d.now += dt
	w.c.W.Ev("Tick", "d", dt)
}

func (w *limWorld) cleanup() {
	w.d.finish(func() {
		for _, cl := range w.cur {
			if cl.state == "gate" {
				cl.gate <- release{}
			}
		}
	}, func() { time.Sleep(200 * time.Microsecond) })
}

func traceLim(c *eng.Ctx, t int, rng *rand.Rand) {
	c.W.Reset(t, baseCfg("lim", "random"))
	w := newLim(c)
	keys := names("k", 2+rng.Intn(2))
	steps := 16 + rng.Intn(20)
	for s := 0; s < steps && !w.d.aborted; s++ {
		var idle []string
		var gated []*call
		inrun := map[string]bool{}
		for _, n := range w.callers {
			switch cl := w.cur[n]; {
			case cl == nil:
				idle = append(idle, n)
			case cl.state == "gate":
				gated = append(gated, cl)
				inrun[cl.k] = true
			}
		}
		switch x := rng.Intn(10); {
		case x < 5 && len(idle) > 0:
			k := keys[rng.Intn(len(keys))]
			w.run(idle[rng.Intn(len(idle))], k, !inrun[k])
		case x < 8 && len(gated) > 0:
			w.leave(gated[rng.Intn(len(gated))], rng.Intn(3))
		default:
			w.tick(1 + rng.Intn(2))
		}
	}
	// end of history: let every runner finish so that waiters are seen to return the published output
	for i := 0; i < 12 && !w.d.aborted; i++ {
		var g *call
		for _, cl := range w.active() {
			if cl.state == "gate" {
				g = cl
				break
			}
		}
		if g == nil {
			break
		}
		w.leave(g, 0)
	}
	w.cleanup()
}

// traceF29 forces the window of DESIGN 6 F29 through public APIs only: caller c3 is held inside getOutput (task mutex
// taken, clock read, then delayed), c2 looks the same task up and parks on that mutex, the clock moves past the task's
// expiry and the GC interval, and c3 -- after returning -- immediately calls Run again in the same goroutine, so that
// its gc.Trap takes the task mutex before the woken c2 is scheduled.  The GC then deletes a task c2 already holds.
func traceF29(c *eng.Ctx, t int, rng *rand.Rand) {
	cfg := baseCfg("lim", "f29")
	c.W.Reset(t, cfg)
	w := newLim(c)
	d := w.d
	a := w.run("c1", "k1", true) // creates the task
	if d.aborted || a.state != "gate" {
		w.cleanup()
		return
	}
	w.leave(a, 1) // output valid until tick 1
	w.tick(1)     // now = 1: not expired, GC not due
	held, rel := w.clk.arm(2)
	c3 := &call{c: "c3", k: "k1"}
	w.cur["c3"] = c3
	c.W.Ev("Run", "c", "c3", "k", "k1")
	d.spawn(c3, func() {
		out := w.lim.Run("k1")
		d.evc <- event{kind: "ret", cl: c3, out: asInt(out)}
		d.evc <- event{kind: "recall", cl: c3, k: "k2"}
		out = w.lim.Run("k2") // no blocking operation since the previous Run returned
		d.evc <- event{kind: "ret", cl: c3, out: asInt(out)}
	})
	select {
	case <-held:
	case <-time.After(longWait):
		d.abort("clock hold not reached")
		close(rel)
		w.cleanup()
		return
	}
	c2 := w.run("c2", "k1", false) // parks on the task mutex held by c3
	if c2.state != "blocked" {
		d.abort("second caller did not park on the task mutex")
	}
	w.tick(2) // now = 3: task expired, GC due
	close(rel)
	c3.state = "new"
	d.settle(w.active(), map[*call]bool{c3: true, c2: true})
	if !d.aborted {
		w.run("c4", "k1", false) // a new caller of k1: must wait for c2's execution
	}
	for _, n := range []string{"c4", "c2", "c3"} {
		if cl := w.cur[n]; cl != nil && cl.state == "gate" && !d.aborted {
			w.leave(cl, 0)
		}
	}
	w.cleanup()
}

// ---------------------------------------------------------------------------------------------------------------
// IntervalTrap

type gTask struct{ d *driver }

func (g *gTask) Run() {
	var cl *call
	if v, ok := g.d.byG.Load(gid()); ok {
		cl = v.(*call)
	}
	g.d.enterGate(cl, "task")
}

func traceTrap(c *eng.Ctx, t int, rng *rand.Rand) {
	const unit = time.Second
	cfg := baseCfg("trap", "random")
	ti := 1 + rng.Intn(2)
	cfg["ti"] = ti
	c.W.Reset(t, cfg)
	d := newDriver(c)
	clk := newClock()
	trap := dedup.NewIntervalTrap(time.Duration(ti)*unit, clk, &gTask{d})
	callers := names("c", 4)
	cur := map[string]*call{}
	d.handle = func(e event) {
		cl := e.cl
		switch e.kind {
		case "enter":
			if cl == nil {
				d.abort("task entered by an unknown goroutine")
				e.gate <- release{}
				return
			}
			cl.state, cl.gate = "gate", e.gate
			c.W.Ev("TaskEnter", "c", cl.c, "infl", e.n)
		case "ret":
			c.W.Ev("TrapRet", "c", cl.c)
			cl.state = "done"
			delete(cur, cl.c)
		}
	}
	active := func() []*call {
		var cs []*call
		for _, n := range callers {
			if cl := cur[n]; cl != nil {
				cs = append(cs, cl)
			}
		}
		return cs
	}
	steps := 16 + rng.Intn(16)
	for s := 0; s < steps && !d.aborted; s++ {
		var idle []string
		var gated *call
		for _, n := range callers {
			switch cl := cur[n]; {
			case cl == nil:
				idle = append(idle, n)
			case cl.state == "gate":
				gated = cl
			}
		}
		trapCall := func(cl *call) {
			cur[cl.c] = cl
			c.W.Ev("Trap", "c", cl.c)
			d.spawn(cl, func() {
				trap.Trap()
				d.evc <- event{kind: "ret", cl: cl}
			})
		}
		switch x := rng.Intn(10); {
		case x == 0 && len(idle) > 1 && gated == nil:
			// two callers inside the unlocked window of Trap: the first is delayed in ready() with the read lock held
			// (clock read, then preempted), the second passes its own check and queues for the write lock
			held, rel := clk.arm(1)
			ca, cb := &call{c: idle[0]}, &call{c: idle[1]}
			trapCall(ca)
			select {
			case <-held:
			case <-time.After(longWait):
				d.abort("clock hold not reached")
				close(rel)
				continue
			}
			trapCall(cb)
			d.settle([]*call{cb}, nil)
			close(rel)
			ca.state = "new"
			d.settle(active(), map[*call]bool{ca: true, cb: true})
		case x < 5 && len(idle) > 0:
			cl := &call{c: idle[rng.Intn(len(idle))]}
			cur[cl.c] = cl
			c.W.Ev("Trap", "c", cl.c)
			d.spawn(cl, func() {
				trap.Trap()
				d.evc <- event{kind: "ret", cl: cl}
			})
			d.settle(active(), map[*call]bool{cl: gated == nil})
		case x < 7 && gated != nil:
			ack := make(chan int, 1)
			gated.gate <- release{ack: ack}
			select {
			case <-ack:
				c.W.Ev("TaskLeave", "c", gated.c)
			case <-time.After(longWait):
				d.abort("task did not leave")
				continue
			}
			gated.state = "new"
			exp := map[*call]bool{}
			for _, o := range active() {
				exp[o] = true
			}
			d.settle(active(), exp)
		default:
			dt := 1 + rng.Intn(2)
			clk.Add(time.Duration(dt) * unit)
			c.W.Ev("Tick", "d", dt)
		}
	}
	d.finish(func() {
		for _, cl := range cur {
			if cl.state == "gate" {
				cl.gate <- release{}
			}
		}
	}, func() { time.Sleep(200 * time.Microsecond) })
}

// ---------------------------------------------------------------------------------------------------------------

func run(c *eng.Ctx) error {
	nF29 := 1
	per := c.N(30, 250)
	nLag := c.N(6, 40)
	total := nF29 + 3*per + nLag
	c.Traces(total, func(t int, rng *rand.Rand) {
		switch { // the F29 schedule comes last: a rejected trace at the end of the log costs no second TLC pass
		case t >= 3*per+nLag:
			traceF29(c, t, rng)
		case t >= 3*per:
			traceRCLag(c, t, rng)
		case t%3 == 0:
			traceRC(c, t, rng)
		case t%3 == 1:
			traceLim(c, t, rng)
		default:
			traceTrap(c, t, rng)
		}
	})
	skipped, _ := c.Stats["skipped"].(int)
	c.Stats["traces"] = total
	fmt.Printf("ENGINE-NOTE c29: %d traces, %d skipped (schedule could not be forced)\n", total, skipped)
	if c.Only < 0 && skipped*5 > total {
		return fmt.Errorf("dead driver: %d of %d schedules could not be forced", skipped, total)
	}
	return nil
}
