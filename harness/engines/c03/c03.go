// Package c03: an agent commits a blob only after every piece is verified (property C03).
//
// Up to three writer goroutines call WritePiece on one real agentstorage.Torrent; each payload is a
// gated storage.PieceReader whose first Read blocks until the driver releases it, i.e. the writer is
// held after tryMarkDirty and before any byte reaches the file.  The driver picks the interleaving
// (Start / Finish steps) from the seed; after every step Bitfield, Complete and BytesDownloaded are
// logged, at the end the cache file is compared with the blob.
package c03

import (
	"bytes"
	"crypto/sha256"
	"encoding/hex"
	"fmt"
	"io"
	"math/rand"
	"os"
	"time"

	"github.com/uber-go/tally"

	"github.com/uber/kraken/core"
	"github.com/uber/kraken/lib/store"
	"github.com/uber/kraken/lib/torrent/storage"
	"github.com/uber/kraken/lib/torrent/storage/agentstorage"
	"github.com/uber/kraken/tracker/metainfoclient"

	"kvh/internal/eng"
)

func init() { eng.Register("c03", run) }

// gated piece reader
type gated struct {
	data    []byte
	r       *bytes.Reader
	length  int
	entered chan struct{}
	release chan struct{}
	first   bool
}

func newGated(data []byte, claimed int) *gated {
	return &gated{data: data, r: bytes.NewReader(data), length: claimed, entered: make(chan struct{}, 1), release: make(chan struct{}), first: true}
}
func (g *gated) Read(p []byte) (int, error) {
	if g.first {
		g.first = false
		g.entered <- struct{}{}
		<-g.release
	}
	return g.r.Read(p)
}
func (g *gated) Close() error { return nil }
func (g *gated) Length() int  { return g.length }

const (
	n       = 3
	pl      = 4
	lastLen = 2
	total   = (n-1)*pl + lastLen
)

type writer struct {
	busy bool
	g    *gated
	done chan error
	i    int
	c    string
}

func run(c *eng.Ctx) error {
	nt := c.N(150, 3000)
	root, err := os.MkdirTemp("", "kvh-c03-")
	if err != nil {
		return err
	}
	defer os.RemoveAll(root)
	skipped := 0
	c.Traces(nt, func(t int, rng *rand.Rand) {
		if !one(c, t, rng, fmt.Sprintf("%s/t%d", root, t)) {
			skipped++
		}
	})
	c.Stats["skipped"] = skipped
	if c.Only < 0 && skipped*5 > nt {
		return fmt.Errorf("dead driver: %d of %d schedules could not be forced", skipped, nt)
	}
	return nil
}

func cls(err error) string {
	switch {
	case err == nil:
		return "ok"
	case err == storage.ErrPieceComplete:
		return "piececomplete"
	}
	return "error"
}

func one(c *eng.Ctx, t int, rng *rand.Rand, dir string) bool {
	defer os.RemoveAll(dir)
	blob := make([]byte, total)
	rng.Read(blob)
	for i := range blob {
		if blob[i] == 0 {
			blob[i] = 1
		}
	}
	sum := sha256.Sum256(blob)
	d, _ := core.NewSHA256DigestFromHex(hex.EncodeToString(sum[:]))
	mi, err := core.NewMetaInfoFromBytes(d, blob, pl)
	if err != nil {
		panic(err)
	}
	cads, err := store.NewCADownloadStore(store.CADownloadStoreConfig{DownloadDir: dir + "/download", CacheDir: dir + "/cache"}, tally.NoopScope)
	if err != nil {
		panic(err)
	}
	defer cads.Close()
	tc := metainfoclient.NewTestClient()
	tc.Upload(mi)
	ta := agentstorage.NewTorrentArchive(tally.NoopScope, cads, tc)
	tor, err := ta.CreateTorrent("ns", d)
	if err != nil {
		panic(err)
	}
	c.W.Reset(t, map[string]any{"n": n, "pl": pl, "last": lastLen})
	obs := func(kv []any) []any {
		bits := make([]bool, n)
		bf := tor.Bitfield()
		for i := 0; i < n; i++ {
			bits[i] = bf.Test(uint(i))
		}
		return append(kv, "bits", bits, "complete", tor.Complete(), "downloaded", int(tor.BytesDownloaded()))
	}
	ws := []*writer{{}, {}, {}}
	wn := []string{"w1", "w2", "w3"}
	piece := func(i int) []byte {
		off := i * pl
		end := off + pl
		if end > total {
			end = total
		}
		return blob[off:end]
	}
	classes := []string{"good", "good", "good", "corrupt", "short", "long"}
	steps := 10 + rng.Intn(16)
	for s := 0; s < steps; s++ {
		wi := rng.Intn(len(ws))
		w := ws[wi]
		if !w.busy {
			// Start: model index 0..N+1 (0 and N+1 are out of range; the real index is model-1)
			mi := rng.Intn(n + 2)
			if rng.Intn(4) > 0 {
				mi = 1 + rng.Intn(n)
			}
			cl := classes[rng.Intn(len(classes))]
			var data []byte
			if mi >= 1 && mi <= n {
				data = append([]byte{}, piece(mi-1)...)
			} else {
				data = []byte{1, 2, 3, 4}
			}
			switch cl {
			case "corrupt":
				data[len(data)/2] ^= 0x21
			case "short":
				data = data[:len(data)-1]
			case "long":
				data = append(data, 9)
			}
			w.g, w.done, w.i, w.c = newGated(data, len(data)), make(chan error, 1), mi, cl
			go func(w *writer, idx int) {
				defer func() {
					if r := recover(); r != nil {
						w.done <- fmt.Errorf("panic: %v", r)
					}
				}()
				w.done <- tor.WritePiece(w.g, idx)
			}(w, mi-1)
			select {
			case <-w.g.entered:
				w.busy = true
				c.W.Ev("Start", obs([]any{"w", wn[wi], "i", mi, "c", cl, "res", "gated"})...)
			case err := <-w.done:
				res := cls(err)
				if res == "error" {
					// rejected before touching the file: classify by what the model can say
					switch {
					case mi < 1 || mi > n:
						res = "badindex"
					case cl == "short" || cl == "long":
						res = "badlength"
					default:
						res = "conflict"
					}
				}
				c.W.Ev("Start", obs([]any{"w", wn[wi], "i", mi, "c", cl, "res", res})...)
			case <-time.After(3 * time.Second):
				c.W.Ev("Drift", "why", "writer neither entered the reader nor returned")
				return false
			}
			continue
		}
		// Finish
		close(w.g.release)
		select {
		case err := <-w.done:
			w.busy = false
			c.W.Ev("Finish", obs([]any{"w", wn[wi], "res", cls(err)})...)
		case <-time.After(3 * time.Second):
			c.W.Ev("Drift", "why", "released writer did not return")
			return false
		}
	}
	for wi, w := range ws { // let the writers still inside the reader finish
		if w.busy {
			close(w.g.release)
			err := <-w.done
			w.busy = false
			c.W.Ev("Finish", obs([]any{"w", wn[wi], "res", cls(err)})...)
		}
	}
	cached, ok := false, false
	if r, err := cads.Cache().GetFileReader(d.Hex()); err == nil {
		b, _ := io.ReadAll(r)
		r.Close()
		cached, ok = true, bytes.Equal(b, blob)
	}
	c.W.Ev("End", "cached", cached, "cachedok", ok)
	return true
}
