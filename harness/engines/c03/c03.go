// Package c03: an agent commits a blob only after every piece is verified (property C03).
//
// Up to three writer goroutines call WritePiece on one real agentstorage.Torrent.  A writer is held at
// three gates: the verifPoint before piece.tryMarkDirty (after the lock-free quick checks), the first
// Read of its storage.PieceReader (after tryMarkDirty, before any byte reaches the file) and the
// verifPoint after the piece was marked complete and counted (before the "all pieces complete -> move
// to cache" test).  The driver advances one writer at a time and picks the interleaving of the
// Check / TryDirty / Write / Commit steps from the seed; after every step Bitfield, Complete and
// BytesDownloaded are logged, at the end the cache file is compared with the blob.
package c03

import (
	"bytes"
	"crypto/sha256"
	"encoding/hex"
	"fmt"
	"io"
	"math/rand"
	"os"
	"sync/atomic"
	"time"

	"github.com/uber-go/tally"

	"github.com/uber/kraken/core"
	"github.com/uber/kraken/lib/store"
	"github.com/uber/kraken/lib/torrent/storage"
	"github.com/uber/kraken/lib/torrent/storage/agentstorage"
	"github.com/uber/kraken/tracker/metainfoclient"

	"kvh/internal/eng"
)

func init() { eng.Register("c03", run) }

// gated piece reader: its first Read parks the writer
type gated struct {
	r      *bytes.Reader
	length int
	first  bool
	w      *writer
}

func (g *gated) Read(p []byte) (int, error) {
	if g.first {
		g.first = false
		g.w.park("reader")
	}
	return g.r.Read(p)
}
func (g *gated) Close() error { return nil }
func (g *gated) Length() int  { return g.length }

const (
	n       = 3
	pl      = 4
	lastLen = 2
	total   = (n-1)*pl + lastLen
)

// flaky wraps the real store: while fail is set, the next Download() scope handed out belongs to another (empty)
// store, so exactly one metadata write -- the status byte of the piece being completed -- fails.
type flaky struct {
	*store.CADownloadStore
	other *store.CADownloadStore
	fail  atomic.Bool
}

func (f *flaky) Download() *store.CADownloadStoreScope {
	if f.fail.CompareAndSwap(true, false) {
		return f.other.Download()
	}
	return f.CADownloadStore.Download()
}

type writer struct {
	pc     string // idle | checked | writing | written
	at     chan string
	resume chan struct{}
	done   chan error
	i      int
	c      string
}

func (w *writer) park(point string) {
	w.at <- point
	<-w.resume
}

// the writer the driver is advancing: every gate reached while it runs belongs to it (all others are parked)
var current atomic.Pointer[writer]

func init() {
	agentstorage.VerifHook = func(point string) {
		if w := current.Load(); w != nil {
			w.park(point)
		}
	}
}

// advance lets w run to its next gate or to the end of its call.
func (w *writer) advance() (point string, err error, returned, ok bool) {
	select {
	case point = <-w.at:
		return point, nil, false, true
	case err = <-w.done:
		return "", err, true, true
	case <-time.After(5 * time.Second):
		return "", nil, false, false
	}
}

func run(c *eng.Ctx) error {
	nt := c.N(150, 3000)
	root, err := os.MkdirTemp("", "kvh-c03-")
	if err != nil {
		return err
	}
	defer os.RemoveAll(root)
	skipped := 0
	c.Traces(nt, func(t int, rng *rand.Rand) {
		if !one(c, t, rng, fmt.Sprintf("%s/t%d", root, t)) {
			skipped++
		}
	})
	c.Stats["skipped"] = skipped
	if c.Only < 0 && skipped*5 > nt {
		return fmt.Errorf("dead driver: %d of %d schedules could not be forced", skipped, nt)
	}
	return nil
}

func cls(err error) string {
	switch {
	case err == nil:
		return "ok"
	case err == storage.ErrPieceComplete:
		return "piececomplete"
	}
	return "error"
}

func one(c *eng.Ctx, t int, rng *rand.Rand, dir string) bool {
	defer os.RemoveAll(dir)
	blob := make([]byte, total)
	rng.Read(blob)
	for i := range blob {
		if blob[i] == 0 {
			blob[i] = 1
		}
	}
	sum := sha256.Sum256(blob)
	d, _ := core.NewSHA256DigestFromHex(hex.EncodeToString(sum[:]))
	mi, err := core.NewMetaInfoFromBytes(d, blob, pl)
	if err != nil {
		panic(err)
	}
	cads, err := store.NewCADownloadStore(store.CADownloadStoreConfig{DownloadDir: dir + "/download", CacheDir: dir + "/cache"}, tally.NoopScope)
	if err != nil {
		panic(err)
	}
	defer cads.Close()
	tc := metainfoclient.NewTestClient()
	tc.Upload(mi)
	ta := agentstorage.NewTorrentArchive(tally.NoopScope, cads, tc)
	if _, err := ta.CreateTorrent("ns", d); err != nil { // creates the download file and its sidecars
		panic(err)
	}
	other, err := store.NewCADownloadStore(store.CADownloadStoreConfig{DownloadDir: dir + "/download2", CacheDir: dir + "/cache2"}, tally.NoopScope)
	if err != nil {
		panic(err)
	}
	defer other.Close()
	fl := &flaky{CADownloadStore: cads, other: other}
	tor, err := agentstorage.NewTorrent(fl, mi) // the same torrent over a store whose next status write can be made to fail
	if err != nil {
		panic(err)
	}
	c.W.Reset(t, map[string]any{"n": n, "pl": pl, "last": lastLen})
	obs := func(kv []any) []any {
		bits := make([]bool, n)
		bf := tor.Bitfield()
		for i := 0; i < n; i++ {
			bits[i] = bf.Test(uint(i))
		}
		return append(kv, "bits", bits, "complete", tor.Complete(), "downloaded", int(tor.BytesDownloaded()))
	}
	ws := []*writer{{pc: "idle"}, {pc: "idle"}, {pc: "idle"}}
	wn := []string{"w1", "w2", "w3"}
	piece := func(i int) []byte {
		off := i * pl
		end := off + pl
		if end > total {
			end = total
		}
		return blob[off:end]
	}
	classes := []string{"good", "good", "good", "corrupt", "short", "long", "statusfail"}
	hot := 1 + rng.Intn(n) // the piece most writers fight for
	// step advances writer wi by one model step; false = the schedule could not be forced
	step := func(wi int) bool {
		w := ws[wi]
		current.Store(w)
		defer current.Store(nil)
		switch w.pc {
		case "idle":
			// model index 0..N+1 (0 and N+1 are out of range; the real index is model-1)
			mi := rng.Intn(n + 2)
			if rng.Intn(4) > 0 {
				mi = 1 + rng.Intn(n)
				if rng.Intn(2) == 0 {
					mi = hot
				}
			}
			cl := classes[rng.Intn(len(classes))]
			var data []byte
			if mi >= 1 && mi <= n {
				data = append([]byte{}, piece(mi-1)...)
			} else {
				data = []byte{1, 2, 3, 4}
			}
			switch cl {
			case "corrupt":
				data[len(data)/2] ^= 0x21
			case "short":
				data = data[:len(data)-1]
			case "long":
				data = append(data, 9)
			}
			w.at, w.resume, w.done, w.i, w.c = make(chan string, 1), make(chan struct{}), make(chan error, 1), mi, cl
			g := &gated{r: bytes.NewReader(data), length: len(data), first: true, w: w}
			go func(w *writer, idx int) {
				defer func() {
					if r := recover(); r != nil {
						w.done <- fmt.Errorf("panic: %v", r)
					}
				}()
				w.done <- tor.WritePiece(g, idx)
			}(w, mi-1)
			point, err, returned, ok := w.advance()
			switch {
			case !ok:
				c.W.Ev("Drift", "why", "writer neither reached a gate nor returned")
				return false
			case returned:
				res := cls(err)
				if res == "error" { // rejected before touching the file: classify by what the model can say
					switch {
					case mi < 1 || mi > n:
						res = "badindex"
					case cl == "short" || cl == "long":
						res = "badlength"
					default:
						res = "conflict"
					}
				}
				c.W.Ev("Check", obs([]any{"w", wn[wi], "i", mi, "c", cl, "res", res})...)
			case point == "piece.trymarkdirty":
				w.pc = "checked"
				c.W.Ev("Check", obs([]any{"w", wn[wi], "i", mi, "c", cl, "res", "checked"})...)
			default:
				c.W.Ev("Check", obs([]any{"w", wn[wi], "i", mi, "c", cl, "res", "at:" + point})...)
				return false
			}
		case "checked":
			w.resume <- struct{}{}
			point, err, returned, ok := w.advance()
			switch {
			case !ok:
				c.W.Ev("Drift", "why", "released writer neither reached a gate nor returned")
				return false
			case returned:
				w.pc = "idle"
				res := cls(err)
				if res == "error" {
					res = "conflict"
				}
				c.W.Ev("TryDirty", obs([]any{"w", wn[wi], "res", res})...)
			case point == "reader":
				w.pc = "writing"
				c.W.Ev("TryDirty", obs([]any{"w", wn[wi], "res", "gated"})...)
			default:
				c.W.Ev("TryDirty", obs([]any{"w", wn[wi], "res", "at:" + point})...)
				return false
			}
		case "writing":
			fl.fail.Store(w.c == "statusfail")
			defer fl.fail.Store(false)
			w.resume <- struct{}{}
			point, err, returned, ok := w.advance()
			switch {
			case !ok:
				c.W.Ev("Drift", "why", "released writer neither reached a gate nor returned")
				return false
			case returned:
				w.pc = "idle"
				res := cls(err)
				if res == "ok" {
					res = "returned-ok-without-marking" // cannot happen: a successful write passes the piece.marked gate
				}
				c.W.Ev("Write", obs([]any{"w", wn[wi], "res", res})...)
			case point == "piece.marked":
				w.pc = "written"
				c.W.Ev("Write", obs([]any{"w", wn[wi], "res", "written"})...)
			default:
				c.W.Ev("Write", obs([]any{"w", wn[wi], "res", "at:" + point})...)
				return false
			}
		case "written":
			w.resume <- struct{}{}
			_, err, returned, ok := w.advance()
			if !ok || !returned {
				c.W.Ev("Drift", "why", "writer did not return after the last gate")
				return false
			}
			w.pc = "idle"
			c.W.Ev("Commit", obs([]any{"w", wn[wi], "res", cls(err)})...)
		}
		return true
	}
	steps := 16 + rng.Intn(40)
	sticky := rng.Intn(3) == 0 // one third of the traces mostly run a call to its end (coarse interleavings)
	last := 0
	for s := 0; s < steps; s++ {
		wi := rng.Intn(len(ws))
		if sticky && ws[last].pc != "idle" && rng.Intn(4) > 0 {
			wi = last
		}
		last = wi
		if !step(wi) {
			return false
		}
	}
	for wi, w := range ws { // let the writers still at a gate finish
		for w.pc != "idle" {
			if !step(wi) {
				return false
			}
		}
	}
	cached, ok := false, false
	if r, err := cads.Cache().GetFileReader(d.Hex()); err == nil {
		b, _ := io.ReadAll(r)
		r.Close()
		cached, ok = true, bytes.Equal(b, blob)
	}
	c.W.Ev("End", "cached", cached, "cachedok", ok)
	return true
}
