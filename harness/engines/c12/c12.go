// Package c12 records operation histories on os.File, base.BufferReadWriter, memory.File and the
// read-only store.NewBufferFileReader for validation against spec/store/ByteFile.tla (property C12).
//
// The same seeded operation sequence is run on every implementation (trace id t: sequence t/4,
// implementation t%4).  The driver records arguments, replies (counts, bytes, positions) and the
// post-call size/offset observations; it asserts nothing.  Error values are not recorded (the
// property lists bytes, counts, sizes and offsets).
package c12

import (
	"fmt"
	"io"
	"math/rand"
	"os"
	"path/filepath"

	"github.com/uber-go/tally"

	storelib "github.com/uber/kraken/lib/store"
	"github.com/uber/kraken/lib/store/base"
	"github.com/uber/kraken/lib/store/memory"

	"kvh/internal/eng"
)

func init() { eng.Register("c12", run) }

// file is the common surface of the objects under test.
type file interface {
	io.Reader
	io.ReaderAt
	io.Seeker
}
type wfile interface {
	file
	io.Writer
	io.WriterAt
}

type op struct {
	kind string // Write WriteAt Read ReadAt Seek Size
	p    []byte
	n    int
	o    int64
	wh   int
}

var impls = []string{"osfile", "buffer", "memfile", "bufreader"}

func ints(b []byte) []int {
	out := make([]int, len(b))
	for i, x := range b {
		out[i] = int(x)
	}
	return out
}

func payload(rng *rand.Rand, n int) []byte {
	p := make([]byte, n)
	for i := range p {
		if rng.Intn(8) == 0 {
			p[i] = 0 // explicit zeros must be indistinguishable from hole zeros
		} else {
			p[i] = byte(1 + rng.Intn(255))
		}
	}
	return p
}

// genOps produces one operation sequence.  size/off are GENERATOR PRECONDITIONS ONLY (they keep
// seek targets inside the written extent, the domain of the property); verdicts come from the spec.
// zlw permits zero-length positional writes beyond the end (the input class of finding F12a).
func genOps(rng *rand.Rand, steps int, maxLen int, size0 int64, readonly bool, zlw bool) []op {
	var ops []op
	size, off := size0, int64(0)
	for s := 0; s < steps; s++ {
		k := rng.Intn(20)
		if readonly && k < 9 {
			k = 9 + rng.Intn(11)
		}
		switch {
		case k < 4: // Write
			p := payload(rng, rng.Intn(maxLen+1))
			ops = append(ops, op{kind: "Write", p: p})
			if len(p) > 0 && off+int64(len(p)) > size {
				size = off + int64(len(p))
			}
			off += int64(len(p))
		case k < 9: // WriteAt: inside, abutting, or past the end (gap); rarely a negative offset
			p := payload(rng, rng.Intn(maxLen+1))
			var o int64
			switch rng.Intn(8) {
			case 0:
				o = -1 - int64(rng.Intn(3))
			case 1, 2:
				o = size
			case 3, 4, 5:
				o = size + 1 + int64(rng.Intn(maxLen))
			default:
				o = int64(rng.Intn(int(size) + 1))
			}
			if len(p) == 0 && o > size && !zlw {
				o = size
			}
			ops = append(ops, op{kind: "WriteAt", p: p, o: o})
			if o >= 0 && len(p) > 0 && o+int64(len(p)) > size {
				size = o + int64(len(p))
			}
		case k < 12: // Read, sometimes crossing the end
			n := rng.Intn(2*maxLen + 1)
			ops = append(ops, op{kind: "Read", n: n})
			if off < size {
				m := int64(n)
				if off+m > size {
					m = size - off
				}
				off += m
			}
		case k < 15: // ReadAt
			n := rng.Intn(2*maxLen + 1)
			o := int64(rng.Intn(int(size)+6)) - 1
			ops = append(ops, op{kind: "ReadAt", n: n, o: o})
		case k < 19: // Seek to a target in -2..size, expressed relative to a random whence
			tgt := int64(rng.Intn(int(size)+3)) - 2
			if rng.Intn(3) == 0 {
				tgt = size - int64(rng.Intn(2))
				if tgt < 0 {
					tgt = 0
				}
			}
			wh := rng.Intn(3)
			var o int64
			switch wh {
			case io.SeekStart:
				o = tgt
			case io.SeekCurrent:
				o = tgt - off
			default:
				o = tgt - size
			}
			ops = append(ops, op{kind: "Seek", o: o, wh: wh})
			if tgt >= 0 {
				off = tgt
			}
		default:
			ops = append(ops, op{kind: "Size"})
		}
	}
	return ops
}

func run(c *eng.Ctx) error {
	nseq := c.N(100, 600)
	root, err := os.MkdirTemp("", "kvh-c12-")
	if err != nil {
		return err
	}
	defer os.RemoveAll(root)
	ms, err := memory.NewStore(&memory.Config{CapacityBytes: 1 << 30, GOMEMLIMITBytes: 8 << 30}, tally.NoopScope)
	if err != nil {
		return err
	}
	nimpl := len(impls)
	c.Traces(nseq*nimpl, func(t int, _ *rand.Rand) {
		seq, impl := t/nimpl, impls[t%nimpl]
		// the sequence depends on (seed, seq) only, so all implementations see the same one
		rng := rand.New(rand.NewSource(c.Seed*1000003 + int64(seq)*7919 + 29))
		steps := 10 + rng.Intn(21)
		maxLen := []int{3, 8, 24, 40}[rng.Intn(4)]
		if !c.Quick() && rng.Intn(10) == 0 {
			steps, maxLen = 60, 80
		}
		// zero-length positional writes beyond the end only in two dedicated sequences (input class of finding F12a;
		// every rejected trace costs extra TLC runs)
		zlw := seq == 7 || seq == 57
		capMode := rng.Intn(3) // 0: capacity 0, 1: generous, 2: smaller than what will be written
		readonly := impl == "bufreader"
		var init []byte
		if readonly {
			irng := rand.New(rand.NewSource(c.Seed*1000003 + int64(seq)*7919 + 37))
			init = payload(irng, irng.Intn(3*maxLen+1))
		}
		// an independent stream for the operations
		orng := rand.New(rand.NewSource(c.Seed*1000003 + int64(seq)*7919 + 31))
		ops := genOps(orng, steps, maxLen, int64(len(init)), readonly, zlw)
		var capv uint64
		switch capMode {
		case 1:
			capv = uint64(steps * maxLen * 2)
		case 2:
			capv = uint64(1 + maxLen/2)
		}

		var f file
		var sizeOf func() int64
		var offOf func() int64
		var dump func() []byte
		switch impl {
		case "osfile":
			path := filepath.Join(root, fmt.Sprintf("f%d", t))
			of, err := os.OpenFile(path, os.O_RDWR|os.O_CREATE|os.O_EXCL, 0o600)
			if err != nil {
				panic(err)
			}
			defer os.Remove(path)
			defer of.Close()
			f = of
			sizeOf = func() int64 {
				fi, err := of.Stat()
				if err != nil {
					return -1
				}
				return fi.Size()
			}
			dump = func() []byte { b, _ := os.ReadFile(path); return b }
		case "buffer":
			b := base.NewBufferReadWriter(capv)
			f = b
			sizeOf = b.Size
			dump = func() []byte { return append([]byte(nil), b.Bytes()...) }
		case "memfile":
			key := fmt.Sprintf("c12-%d-%d", c.Seed, t)
			mf, err := ms.Create(key, capv)
			if err != nil {
				panic(err)
			}
			defer ms.Delete(key)
			f = mf
			sizeOf = mf.Size
			offOf = mf.Off
			dump = func() []byte { // through a second handle obtained from the store
				h, err := ms.Open(key)
				if err != nil {
					return nil
				}
				n, err := ms.Stat(key)
				if err != nil || n < 0 {
					return nil
				}
				b := make([]byte, n)
				m, _ := h.ReadAt(b, 0)
				return b[:m]
			}
		case "bufreader":
			r := storelib.NewBufferFileReader(append([]byte(nil), init...))
			f = r
			sizeOf = r.Size
			dump = func() []byte {
				b := make([]byte, r.Size())
				m, _ := r.ReadAt(b, 0)
				return b[:m]
			}
		}
		if offOf == nil {
			offOf = func() int64 {
				p, err := f.Seek(0, io.SeekCurrent)
				if err != nil {
					return -1
				}
				return p
			}
		}
		c.W.Reset(t, map[string]any{"impl": impl, "cap": int(capv), "seq": seq, "zlw": zlw, "init": ints(init)})
		c.Inc("traces_"+impl, 1)
		// a panic inside the code under test is recorded as an event no specification action explains (=> rejected, replayable)
		defer func() {
			if e := recover(); e != nil {
				c.W.Ev("Panic", "what", fmt.Sprint(e))
			}
		}()
		for _, o := range ops {
			sizeBefore := sizeOf()
			switch o.kind {
			case "Write":
				n, _ := f.(wfile).Write(o.p)
				c.W.Ev("Write", "p", ints(o.p), "n", n, "size", int(sizeOf()), "off", int(offOf()))
			case "WriteAt":
				n, _ := f.(wfile).WriteAt(o.p, o.o)
				c.W.Ev("WriteAt", "p", ints(o.p), "plen", len(o.p), "o", int(o.o), "past", o.o > sizeBefore,
					"n", n, "size", int(sizeOf()), "off", int(offOf()))
			case "Read":
				buf := make([]byte, o.n)
				n, _ := f.Read(buf)
				if n < 0 || n > len(buf) {
					n = 0
				}
				c.W.Ev("Read", "n", o.n, "cnt", n, "bytes", ints(buf[:n]), "size", int(sizeOf()), "off", int(offOf()))
			case "ReadAt":
				buf := make([]byte, o.n)
				n, _ := f.ReadAt(buf, o.o)
				if n < 0 || n > len(buf) {
					n = 0
				}
				c.W.Ev("ReadAt", "n", o.n, "o", int(o.o), "cnt", n, "bytes", ints(buf[:n]), "size", int(sizeOf()), "off", int(offOf()))
			case "Seek":
				pos, _ := f.Seek(o.o, o.wh)
				c.W.Ev("Seek", "o", int(o.o), "wh", o.wh, "pos", int(pos), "size", int(sizeOf()), "off", int(offOf()))
			case "Size":
				c.W.Ev("Size", "size", int(sizeOf()), "off", int(offOf()))
			}
		}
		c.W.Ev("Dump", "bytes", ints(dump()))
	})
	return nil
}
