// Package c33 records executions of the real tagreplication.Executor (property C33) wired to the real
// blobclient.ClusterClient (Poll, clientResolver, HTTPClient) towards scripted local origins and the real
// tagclient (Provider/singleClient) towards a scripted, stateful remote build-index. The servers log every
// request in arrival order together with the answer they give; verdicts come from spec/index/TagReplication.tla.
package c33

import (
	"fmt"
	"io"
	"math/rand"
	"net/http"
	"net/http/httptest"
	"net/url"
	"strings"
	"sync"

	"github.com/uber-go/tally"

	"github.com/uber/kraken/build-index/tagclient"
	"github.com/uber/kraken/core"
	"github.com/uber/kraken/lib/hostlist"
	"github.com/uber/kraken/lib/persistedretry/tagreplication"
	"github.com/uber/kraken/origin/blobclient"
	"github.com/uber/kraken/utils/stringset"

	"kvh/internal/eng"
)

func init() { eng.Register("c33", run) }

type staticList []string

func (l staticList) Resolve() stringset.Set { return stringset.New(l...) }

var _ hostlist.List = staticList(nil)

const (
	natural = -1 // the answer an undisturbed server gives
	netErr  = 0  // request received, connection dropped, nothing done
	lost    = 1  // request carried out, connection dropped before the reply
)

type event struct {
	name string
	kv   []any
}

// world is the scripted environment of one trace.
type world struct {
	mu        sync.Mutex
	evs       []event
	script    []int // answers in arrival order, over all request kinds; past the end: natural
	next      int
	rng       *rand.Rand
	tag       string
	digest    core.Digest
	deps      []core.Digest
	remoteDNS string
	hasTag    bool
	locs      string
}

func (w *world) ev(name string, kv ...any) { w.evs = append(w.evs, event{name, kv}) }

// answer picks the scripted answer for the request arriving now (call with mu held).
func (w *world) answer(nat int, rep bool) int {
	a := natural
	if w.next < len(w.script) {
		a = w.script[w.next]
	}
	w.next++
	switch a {
	case natural:
		return nat
	case 503:
		return []int{500, 502, 503, 504}[w.rng.Intn(4)]
	case 403:
		if rep {
			return []int{400, 403, 404, 409}[w.rng.Intn(4)]
		}
		return []int{400, 403, 409}[w.rng.Intn(3)]
	}
	return a
}

func segs(r *http.Request) []string {
	parts := strings.Split(strings.TrimPrefix(r.URL.EscapedPath(), "/"), "/")
	for i, p := range parts {
		if u, err := url.PathUnescape(p); err == nil {
			parts[i] = u
		}
	}
	return parts
}

func reply(w http.ResponseWriter, code int, body string) {
	if code == netErr || code == lost {
		if hj, ok := w.(http.Hijacker); ok {
			if c, _, err := hj.Hijack(); err == nil {
				c.Close()
			}
		}
		return
	}
	w.WriteHeader(code)
	if code != 200 {
		body = "scripted\n"
	}
	io.WriteString(w, body)
}

// index is the remote build-index.
func (w *world) index(rw http.ResponseWriter, r *http.Request) {
	s := segs(r)
	w.mu.Lock()
	var code int
	body := ""
	switch {
	case r.Method == "HEAD" && len(s) == 2 && s[0] == "tags":
		nat := 404
		if w.hasTag {
			nat = 200
		}
		code = w.answer(nat, false)
		w.ev("Has", "r", code, "ok", s[1] == w.tag)
	case r.Method == "GET" && len(s) == 1 && s[0] == "origin":
		code = w.answer(200, false)
		body = w.remoteDNS
		w.ev("Origin", "r", code)
	case r.Method == "PUT" && len(s) == 4 && s[0] == "tags" && s[2] == "digest":
		code = w.answer(200, false)
		ok := s[1] == w.tag && s[3] == w.digest.String() && r.URL.Query().Get("replicate") == "true"
		if code == 200 || code == lost {
			w.hasTag = true
		}
		w.ev("Put", "r", code, "ok", ok)
	default:
		code = 418
		w.ev("Unexpected", "m", r.Method, "path", r.URL.Path)
	}
	w.mu.Unlock()
	reply(rw, code, body)
}

// localOrigin returns the handler of local origin o (1-based).
func (w *world) localOrigin(o int) http.HandlerFunc {
	return func(rw http.ResponseWriter, r *http.Request) {
		s := segs(r)
		if r.Method == "GET" && len(s) == 3 && s[0] == "blobs" && s[2] == "locations" {
			w.mu.Lock()
			locs := w.locs
			w.mu.Unlock()
			rw.Header().Set("Origin-Locations", locs)
			rw.WriteHeader(200)
			return
		}
		w.mu.Lock()
		var code int
		if r.Method == "POST" && len(s) == 6 && s[0] == "namespace" && s[2] == "blobs" && s[4] == "remote" {
			code = w.answer(200, true)
			d := "d?"
			for i, x := range w.deps {
				if x.String() == s[3] {
					d = fmt.Sprintf("d%d", i+1)
				}
			}
			w.ev("Rep", "d", d, "o", o, "r", code, "ok", s[1] == w.tag && s[5] == w.remoteDNS)
		} else {
			code = 418
			w.ev("Unexpected", "m", r.Method, "path", r.URL.Path)
		}
		w.mu.Unlock()
		reply(rw, code, "")
	}
}

var alphabet = []int{natural, 202, 503, netErr, lost, 403}

func scripts(maxLen int) [][]int {
	var out [][]int
	var rec func(cur []int)
	rec = func(cur []int) {
		if len(cur) > 0 {
			out = append(out, append([]int{}, cur...))
		}
		if len(cur) == maxLen {
			return
		}
		for _, a := range alphabet {
			rec(append(cur, a))
		}
	}
	rec(nil)
	return out
}

type scenario struct {
	script []int
	ndeps  int
	no     int
	pre    bool
}

func run(c *eng.Ctx) error {
	maxLen, variants, maxDeps, maxNo := 3, 2, 2, 2
	if !c.Quick() {
		maxLen, variants, maxDeps, maxNo = 4, 3, 3, 3
	}
	all := append([][]int{{}}, scripts(maxLen)...)
	dedicated := []scenario{
		{script: []int{}, ndeps: 2, no: 0},               // empty local cluster: never succeeds, never stops
		{script: []int{}, ndeps: 0, no: 1},               // no dependencies
		{script: []int{503, 503}, ndeps: 2, no: 2, pre: true}, // Has fails although the remote holds the tag
		{script: []int{natural, natural, 202, 202, natural}, ndeps: 1, no: 1},
	}
	nBulk := len(all) * variants
	total := nBulk + len(dedicated)
	c.Stats["scripts"] = len(all)
	worlds := make([]*world, total)
	cfgs := make([]map[string]any, total)
	var wg sync.WaitGroup
	sem := make(chan struct{}, 48)
	c.Traces(total, func(t int, rng *rand.Rand) {
		var s scenario
		if t >= nBulk {
			s = dedicated[t-nBulk]
		} else {
			s = scenario{script: all[t%len(all)], ndeps: rng.Intn(maxDeps + 1), no: 1 + rng.Intn(maxNo), pre: rng.Intn(8) == 0}
			if t/len(all) == 0 && s.ndeps == 0 {
				s.ndeps = 1
			}
		}
		w := &world{script: s.script, rng: rng, hasTag: s.pre}
		w.tag = fmt.Sprintf("repo-%d/img:tag%d", rng.Intn(100), t)
		w.digest = digestOf(rng)
		for i := 0; i < s.ndeps; i++ {
			w.deps = append(w.deps, digestOf(rng))
		}
		w.remoteDNS = fmt.Sprintf("remote-origin-%d.example:%d", rng.Intn(100), 1000+rng.Intn(9000))
		worlds[t] = w
		cfgs[t] = map[string]any{"script": s.script, "ndeps": s.ndeps, "no": s.no, "pre": s.pre}
		wg.Add(1)
		sem <- struct{}{}
		go func() {
			defer wg.Done()
			defer func() { <-sem }()
			exec(w, &s)
		}()
	})
	wg.Wait()
	for t := 0; t < total; t++ {
		if worlds[t] == nil {
			continue
		}
		c.W.Reset(t, cfgs[t])
		for _, e := range worlds[t].evs {
			c.W.Ev(e.name, e.kv...)
		}
	}
	return nil
}

func digestOf(rng *rand.Rand) core.Digest {
	b := make([]byte, 16)
	rng.Read(b)
	d, err := core.NewDigester().FromBytes(b)
	if err != nil {
		panic(err)
	}
	return d
}

func exec(w *world, s *scenario) {
	newServer := func(h http.Handler) *httptest.Server {
		srv := httptest.NewUnstartedServer(h)
		srv.Config.SetKeepAlivesEnabled(false) // one connection per request: no silent transport-level re-sends
		srv.Start()
		return srv
	}
	idx := newServer(http.HandlerFunc(w.index))
	defer idx.Close()
	var addrs []string
	for o := 1; o <= s.no; o++ {
		srv := newServer(w.localOrigin(o))
		defer srv.Close()
		addrs = append(addrs, strings.TrimPrefix(srv.URL, "http://"))
	}
	w.mu.Lock()
	w.locs = strings.Join(addrs, ",")
	w.mu.Unlock()

	cluster := blobclient.NewClusterClient(blobclient.NewClientResolver(blobclient.NewProvider(), staticList(addrs)))
	ex := tagreplication.NewExecutor(tally.NoopScope, cluster, tagclient.NewProvider(nil))
	task := tagreplication.NewTask(w.tag, w.digest, core.DigestList(w.deps), strings.TrimPrefix(idx.URL, "http://"), 0)

	names := make([]string, len(w.deps))
	for i := range w.deps {
		names[i] = fmt.Sprintf("d%d", i+1)
	}
	log := func(name string, kv ...any) {
		w.mu.Lock()
		w.ev(name, kv...)
		w.mu.Unlock()
	}
	log("NewTask", "deps", names, "no", s.no, "pre", s.pre)
	// the retry loop of persistedretry (C30): execute until the task succeeds
	done := false
	for e := 0; e < len(s.script)+2 && !done; e++ {
		log("Exec")
		err := ex.Exec(task)
		res := "err"
		if err == nil {
			res, done = "ok", true
		}
		log("ExecEnd", "res", res)
	}
	if done {
		log("Stop")
	}
}
