// Package c01: content-addressed stores never serve bytes that do not hash to their name (property C01).
//
// Seeded histories on a real lib/store.CAStore (mock clock: the drain runs only when the driver
// steps it): client uploads, internal transfers and backend refreshes whose streams are exact,
// bit-flipped, truncated, extended or aborted, with the memory write-through cache off / on with
// several capacities and with reported sizes equal / smaller / larger than the stream.
// After every step everything readable under each digest (bytes, stat size, metainfo) is compared
// with the true blob using the Go standard library and logged for TLC (spec/store/CAStoreTrace.tla).
package c01

import (
	"bytes"
	"crypto/sha256"
	"encoding/hex"
	"errors"
	"fmt"
	"io"
	"math/rand"
	"os"
	"time"

	"github.com/andres-erbsen/clock"

	"github.com/uber/kraken/core"
	"github.com/uber/kraken/lib/store"
	"github.com/uber/kraken/lib/store/metadata"

	"kvh/internal/eng"
)

func init() { eng.Register("c01", run) }

type blobT struct {
	b []byte
	d core.Digest
}

func mkBlob(rng *rand.Rand, n int) blobT {
	b := make([]byte, n)
	rng.Read(b)
	sum := sha256.Sum256(b)
	d, _ := core.NewSHA256DigestFromHex(hex.EncodeToString(sum[:]))
	return blobT{b, d}
}

var errAbort = errors.New("backend stream aborted")

// stream builds the bytes a write path delivers for kind, and whether the stream ends with an error.
func stream(b []byte, kind string) ([]byte, error) {
	switch kind {
	case "exact":
		return b, nil
	case "flipped":
		if len(b) == 0 {
			return []byte{7}, nil // an empty blob cannot be flipped: deliver a stray byte
		}
		c := append([]byte{}, b...)
		c[len(c)/2] ^= 0x10
		return c, nil
	case "trunc":
		if len(b) == 0 {
			return []byte{9, 9}, nil
		}
		return b[:len(b)-1], nil
	case "ext":
		return append(append([]byte{}, b...), 0x42), nil
	case "abort":
		return b[:len(b)/2], errAbort
	}
	panic(kind)
}

func cls(err error) string {
	switch {
	case err == nil:
		return "ok"
	case os.IsExist(err):
		return "exist"
	}
	return "error"
}

func run(c *eng.Ctx) error {
	n := c.N(150, 3000)
	root, err := os.MkdirTemp("", "kvh-c01-")
	if err != nil {
		return err
	}
	defer os.RemoveAll(root)
	kinds := []string{"exact", "exact", "exact", "flipped", "trunc", "ext", "abort"}
	c.Traces(n, func(t int, rng *rand.Rand) {
		dir := fmt.Sprintf("%s/t%d", root, t)
		blobs := []blobT{mkBlob(rng, 1+rng.Intn(64)), mkBlob(rng, rng.Intn(3)*16), mkBlob(rng, 20+rng.Intn(40))}
		memOn := rng.Intn(3) > 0
		maxSize := []uint64{0, uint64(len(blobs[0].b)), 200, 1 << 20}[rng.Intn(4)]
		cfg := store.CAStoreConfig{UploadDir: dir + "/upload", CacheDir: dir + "/cache"}
		cfg.MemoryCache = store.MemoryCacheConfig{Enabled: memOn, MaxSize: maxSize, DrainWorkers: 1, DrainMaxRetries: 2, TTL: time.Hour, TTLInterval: time.Hour}
		clk := clock.NewMock()
		clk.Set(time.Unix(1700000000, 0))
		cas, cleanup := store.CAStoreFixtureWithClock(cfg, clk)
		defer func() {
			cleanup()
			os.RemoveAll(dir)
		}()
		late := t >= n-2 // the last two histories of a run: a writer handle opened before the commit is used after it (F01b)
		c.W.Reset(t, map[string]any{"mem": memOn, "maxsize": int(maxSize), "latewrite": late})
		dn := func(i int) string { return fmt.Sprintf("d%d", i+1) }
		observe := func(kv []any) []any {
			vis, stat, meta := make([]string, len(blobs)), make([]string, len(blobs)), make([]string, len(blobs))
			for i, bl := range blobs {
				vis[i], stat[i], meta[i] = "none", "none", "none"
				var got []byte
				if r, err := cas.GetCacheFileReader(bl.d.Hex()); err == nil {
					got, _ = io.ReadAll(r)
					r.Close()
					vis[i] = "bad"
					if bytes.Equal(got, bl.b) {
						vis[i] = "good"
					}
				}
				if fi, err := cas.GetCacheFileStat(bl.d.Hex()); err == nil {
					stat[i] = "bad"
					if fi.Size() == int64(len(bl.b)) {
						stat[i] = "good"
					}
				}
				var tm metadata.TorrentMeta
				if err := cas.GetCacheFileMetadata(bl.d.Hex(), &tm); err == nil && tm.MetaInfo != nil {
					meta[i] = "bad"
					mi := tm.MetaInfo
					if mi.Digest() == bl.d && mi.Length() == int64(len(bl.b)) && mi.PieceLength() > 0 {
						if want, err := core.NewMetaInfoFromBytes(bl.d, bl.b, mi.PieceLength()); err == nil && want.InfoHash() == mi.InfoHash() {
							meta[i] = "good"
						}
					}
				} else if err != nil && !os.IsNotExist(err) {
					meta[i] = "error"
				}
			}
			listed := 0
			if names, err := cas.ListCacheFiles(); err == nil {
				listed = len(names)
			}
			return append(kv, "vis", vis, "stat", stat, "meta", meta, "listed", listed)
		}
		ev := func(name string, kv ...any) { c.W.Ev(name, observe(kv)...) }
		if late {
			bl := blobs[0]
			uid := "late"
			err := cas.CreateUploadFile(uid, 0)
			var w store.FileReadWriter
			if err == nil {
				if w, err = cas.GetUploadFileReadWriter(uid); err == nil {
					w.Write(bl.b)
					err = cas.MoveUploadFileToCache(uid, bl.d.Hex()) // the handle stays open across the commit
				}
			}
			ev("Upload", "d", dn(0), "kind", "exact", "res", cls(err))
			if w != nil {
				w.Seek(0, io.SeekStart)
				w.Write([]byte{bl.b[0] ^ 0x5a})
				w.Close()
				ev("LateWrite", "d", dn(0), "kind", "flipped")
			}
			return
		}
		steps := 6 + rng.Intn(10)
		for s := 0; s < steps; s++ {
			i := rng.Intn(len(blobs))
			bl := blobs[i]
			kind := kinds[rng.Intn(len(kinds))]
			data, serr := stream(bl.b, kind)
			switch op := rng.Intn(10); {
			case op < 2: // client upload: upload file + commit
				uid := fmt.Sprintf("u%d", s)
				err := cas.CreateUploadFile(uid, 0)
				if err == nil {
					var w store.FileReadWriter
					if w, err = cas.GetUploadFileReadWriter(uid); err == nil {
						w.Write(data)
						w.Close()
						err = cas.MoveUploadFileToCache(uid, bl.d.Hex())
					}
				}
				if serr != nil { // an aborted client stream is simply a shorter upload (the whole blob if it is empty)
					kind = "trunc"
					if bytes.Equal(data, bl.b) {
						kind = "exact"
					}
				}
				ev("Upload", "d", dn(i), "kind", kind, "res", cls(err))
			case op < 3: // internal transfer
				err := cas.CreateCacheFile(bl.d.Hex(), io.MultiReader(bytes.NewReader(data), errReader{serr}))
				ev("Transfer", "d", dn(i), "kind", kind, "res", cls(err))
			case op < 8: // refresh from a backend through the (optional) memory write-through cache
				size := len(bl.b)
				sizecls := "eq"
				switch rng.Intn(6) {
				case 0:
					size, sizecls = len(data), "stream"
				case 1:
					size, sizecls = len(bl.b)+3, "gt"
				case 2:
					if len(bl.b) > 0 {
						size, sizecls = len(bl.b)-1, "lt"
					}
				}
				err := cas.WriteBlobToCacheWithMetaInfo(bl.d.Hex(), uint64(size), func(w store.FileReadWriter) error {
					if _, e := w.Write(data); e != nil {
						return e
					}
					return serr
				}, int64(4+rng.Intn(13)))
				ev("Refresh", "d", dn(i), "kind", kind, "sizecls", sizecls, "res", cls(err))
			default: // one tick of the drain worker
				if memOn {
					cas.VerifDrainNext()
				}
				ev("Drain")
			}
		}
		for memOn && cas.VerifDrainQueueLen() > 0 { // drain everything: memory entries must end up on disk or be dropped
			cas.VerifDrainNext()
			ev("Drain")
		}
	})
	return nil
}

type errReader struct{ err error }

func (e errReader) Read([]byte) (int, error) {
	if e.err == nil {
		return 0, io.EOF
	}
	return 0, e.err
}
