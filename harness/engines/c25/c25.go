// Package c25 records which hosts kraken's cluster clients contact (property C25) for validation
// against spec/cluster/ClusterSample.tla:
//
//   - stringset.Set.Sample directly;
//   - the real tagclient cluster client (do / doOnce paths through every public method) and
//     blobclient.Locations / ClientResolver.Resolve with the real HTTP single-host clients, against
//     eight local listeners h1..h8 that per request either answer 200, answer 500, or accept and
//     drop the connection (network error).  Listeners record every contact, so the order of
//     contacted hosts is observed on the wire, not inferred.
//
// Families of traces (ids in this order):
//
//	E  exhaustive: every list size 0..3 x every assignment of {up, err, down} to its hosts x every kind
//	R  seeded random, input class "norm": lists of up to 8 hosts of which at most 2 fail when the list has
//	   more than 3 hosts; Sample with n >= size
//	X  (only when the tree samples correctly) exhaustive fault assignments for lists of 4..5 (6) hosts and
//	   random unrestricted inputs, cfg.big=1
//	G  dedicated "over" scenarios (cfg.big=1): Sample with n < size; a list of 8 unreachable hosts;
//	   a list of 6 hosts answering 500 to Locations
package c25

import (
	"fmt"
	"math/rand"
	"net"
	"net/http"
	"sort"
	"strings"
	"sync"
	"time"

	"github.com/uber/kraken/build-index/tagclient"
	"github.com/uber/kraken/core"
	"github.com/uber/kraken/origin/blobclient"
	"github.com/uber/kraken/utils/httputil"
	"github.com/uber/kraken/utils/stringset"

	"kvh/internal/eng"
)

func init() { eng.Register("c25", run) }

const (
	up = iota
	errStatus
	down
)

const nHosts = 8

type host struct {
	name string
	addr string
	ln   net.Listener
	srv  *http.Server
}

type lab struct {
	mu    sync.Mutex
	mode  [nHosts]int
	log   []string // contacted hosts in order
	hosts [nHosts]*host
	byAdr map[string]string
	d     core.Digest
}

func (l *lab) contact(name string) {
	l.mu.Lock()
	l.log = append(l.log, name)
	l.mu.Unlock()
}

func (l *lab) modeOf(i int) int {
	l.mu.Lock()
	defer l.mu.Unlock()
	return l.mode[i]
}

// dropListener hands connections to the HTTP server unless the host is "down": then the contact is recorded and
// the connection closed at once, which the client observes as a network error.
type dropListener struct {
	net.Listener
	l *lab
	i int
}

func (d *dropListener) Accept() (net.Conn, error) {
	for {
		c, err := d.Listener.Accept()
		if err != nil {
			return nil, err
		}
		if d.l.modeOf(d.i) == down {
			d.l.contact(d.l.hosts[d.i].name)
			c.Close()
			continue
		}
		return c, nil
	}
}

func newLab() (*lab, error) {
	l := &lab{byAdr: map[string]string{}, d: core.DigestFixture()}
	for i := 0; i < nHosts; i++ {
		ln, err := net.Listen("tcp", "127.0.0.1:0")
		if err != nil {
			return nil, err
		}
		h := &host{name: fmt.Sprintf("h%d", i+1), addr: ln.Addr().String(), ln: ln}
		i := i
		h.srv = &http.Server{Handler: http.HandlerFunc(func(w http.ResponseWriter, r *http.Request) {
			l.contact(h.name)
			if l.modeOf(i) == errStatus {
				w.WriteHeader(http.StatusInternalServerError)
				return
			}
			switch {
			case strings.HasSuffix(r.URL.Path, "/locations"):
				w.Header().Set("Origin-Locations", l.hosts[0].addr+","+l.hosts[1].addr)
			case strings.HasPrefix(r.URL.Path, "/list/") || strings.HasPrefix(r.URL.Path, "/repositories/"):
				w.Write([]byte(`{"size":1,"result":["t1"]}`))
			case strings.HasPrefix(r.URL.Path, "/tags/") && r.Method == http.MethodGet:
				w.Write([]byte(l.d.String()))
			default:
				w.Write([]byte("ok"))
			}
		})}
		h.srv.SetKeepAlivesEnabled(false)
		l.hosts[i] = h
		l.byAdr[h.addr] = h.name
		go h.srv.Serve(&dropListener{Listener: ln, l: l, i: i})
	}
	return l, nil
}

func (l *lab) close() {
	for _, h := range l.hosts {
		h.srv.Close()
	}
}

// healthList is the healthcheck.List handed to the cluster clients.
type healthList struct {
	cur   stringset.Set
	marks []string
	l     *lab
}

func (h *healthList) Resolve() stringset.Set { return h.cur.Copy() }
func (h *healthList) Failed(addr string) {
	n := h.l.byAdr[addr]
	if n == "" {
		n = "unknown"
	}
	h.marks = append(h.marks, n)
}

func class(err error) string {
	switch {
	case err == nil:
		return "ok"
	case httputil.IsNetworkError(err):
		return "neterr"
	}
	return "err"
}

var doMethods = []string{"Get", "Has", "Put", "PutAndReplicate", "Replicate", "Origin", "List", "ListRepository",
	"ListWithPagination", "ListRepositoryWithPagination"}

type tracer struct {
	c    *eng.Ctx
	l    *lab
	list *healthList
	cc   tagclient.Client
	prov blobclient.Provider
	res  blobclient.ClientResolver
	idx  []int // current list as host indices
	nreq int
}

// sampleBug is the outcome of probe(): 1 if Sample(1) of a 5-element set returns more than one element. It is
// logged in every reset record so that known finding F25 is matched only where its root cause was observed.
var sampleBug int

func newTracer(c *eng.Ctx, l *lab, t int, big int, fam string) *tracer {
	tr := &tracer{c: c, l: l, list: &healthList{cur: stringset.New(), l: l}}
	tr.cc = tagclient.NewClusterClient(tr.list, nil)
	tr.prov = blobclient.NewProvider()
	tr.res = blobclient.NewClientResolver(tr.prov, tr.list)
	c.W.Reset(t, map[string]any{"big": big, "fam": fam, "samplebug": sampleBug})
	return tr
}

func names(idx []int) []string {
	r := make([]string, 0, len(idx))
	for _, i := range idx {
		r = append(r, fmt.Sprintf("h%d", i+1))
	}
	sort.Slice(r, func(a, b int) bool { return len(r[a]) < len(r[b]) || (len(r[a]) == len(r[b]) && r[a] < r[b]) })
	return r
}

func (tr *tracer) setHosts(idx []int) {
	tr.idx = idx
	s := stringset.New()
	for _, i := range idx {
		s.Add(tr.l.hosts[i].addr)
	}
	tr.list.cur = s
	tr.c.W.Ev("SetHosts", "hosts", names(idx))
}

// req performs one cluster-client request under the given fault assignment (mode per host index).
func (tr *tracer) req(kind string, modes [nHosts]int) error {
	tr.l.mu.Lock()
	tr.l.mode = modes
	tr.l.log = nil
	tr.l.mu.Unlock()
	tr.list.marks = nil
	var err error
	m := ""
	switch kind {
	case "once":
		m = "CheckReadiness"
		err = tr.cc.CheckReadiness()
	case "loc":
		if tr.nreq%2 == 0 {
			m = "Locations"
			_, err = blobclient.Locations(tr.prov, tr.list, tr.l.d)
		} else {
			m = "Resolve"
			_, err = tr.res.Resolve(tr.l.d)
		}
	default:
		m = doMethods[tr.nreq%len(doMethods)]
		switch m {
		case "Get":
			_, err = tr.cc.Get("repo:tag")
		case "Has":
			_, err = tr.cc.Has("repo:tag")
		case "Put":
			err = tr.cc.Put("repo:tag", tr.l.d)
		case "PutAndReplicate":
			err = tr.cc.PutAndReplicate("repo:tag", tr.l.d)
		case "Replicate":
			err = tr.cc.Replicate("repo:tag")
		case "Origin":
			_, err = tr.cc.Origin()
		case "List":
			_, err = tr.cc.List("repo")
		case "ListRepository":
			_, err = tr.cc.ListRepository("repo")
		case "ListWithPagination":
			_, err = tr.cc.ListWithPagination("repo", tagclient.ListFilter{})
		case "ListRepositoryWithPagination":
			_, err = tr.cc.ListRepositoryWithPagination("repo", tagclient.ListFilter{})
		}
	}
	tr.nreq++
	tr.l.mu.Lock()
	contacted := append([]string{}, tr.l.log...)
	tr.l.mu.Unlock()
	var dn, er []int
	cont := 0 // hosts of the list on which this kind of request goes on to the next host
	for i := 0; i < nHosts; i++ {
		inList := false
		for _, j := range tr.idx {
			inList = inList || i == j
		}
		switch modes[i] {
		case down:
			dn = append(dn, i)
			if inList {
				cont++
			}
		case errStatus:
			er = append(er, i)
			if inList && kind == "loc" {
				cont++
			}
		}
	}
	cls := "norm"
	if kind != "once" && len(tr.idx) > 3 && cont >= 3 {
		cls = "over"
	}
	tr.c.W.Ev("Req", "kind", kind, "m", m, "down", names(dn), "errs", names(er), "c", contacted,
		"marked", append([]string{}, tr.list.marks...), "res", class(err), "cls", cls)
	return nil
}

func (tr *tracer) sample(size, n int, rng *rand.Rand) {
	perm := rng.Perm(30)[:size]
	s := stringset.New()
	for _, i := range perm {
		s.Add(fmt.Sprintf("h%d", i+1))
	}
	got := s.Sample(n)
	res := make([]string, 0, len(got))
	for x := range got {
		res = append(res, x)
	}
	sort.Strings(res)
	cls := "norm"
	if size > n {
		cls = "over"
	}
	tr.c.W.Ev("Sample", "s", names(perm), "n", n, "res", res, "cls", cls)
}

func pow(b, e int) int {
	r := 1
	for ; e > 0; e-- {
		r *= b
	}
	return r
}

var kinds = []string{"do", "once", "loc"}

// probe: does Sample(n) of the tree under test return n elements (input selection only, never a verdict).
func probe() bool {
	return len(stringset.New("a", "b", "c", "d", "e").Sample(1)) == 1
}

func run(c *eng.Ctx) error {
	l, err := newLab()
	if err != nil {
		return err
	}
	defer l.close()
	http.DefaultTransport.(*http.Transport).DisableKeepAlives = true
	sampleOK := probe()
	sampleBug = 1
	if sampleOK {
		sampleBug = 0
	}

	// family E: one trace per (size, kind): all fault assignments, each tried `rep` times (the order in which the real
	// code tries hosts is random)
	rep := c.N(2, 6)
	nE := 4 * len(kinds)
	nR := c.N(120, 1200)
	xSizes := []int{}
	nXr := 0
	if sampleOK {
		xSizes = []int{4, 5}
		if !c.Quick() {
			xSizes = append(xSizes, 6)
		}
		nXr = c.N(100, 1000)
	}
	nX := len(xSizes)*len(kinds) + nXr
	nG := 3
	if !c.Quick() {
		nG = 6
	}
	fmt.Printf("NOTE c25: sampling probe: Sample(1) of 5 hosts returns %s -> %d unrestricted traces (cfg.big=1), %d dedicated 'over' scenarios\n",
		map[bool]string{true: "1 host", false: "more than 1 host"}[sampleOK], nX, nG)
	c.Stats["exhaustive"] = true
	c.Stats["families"] = map[string]int{"E_exhaustive_faults_size0to3": nE, "R_random_norm": nR, "X_unrestricted": nX, "G_dedicated_over": nG}

	exhaustive := func(tr *tracer, size int, kind string, reps int) {
		idx := make([]int, size)
		for i := range idx {
			idx[i] = i
		}
		tr.setHosts(idx)
		for a := 0; a < pow(3, size); a++ {
			var modes [nHosts]int
			x := a
			for i := 0; i < size; i++ {
				modes[i] = x % 3
				x /= 3
			}
			for r := 0; r < reps; r++ {
				tr.req(kind, modes)
			}
		}
	}

	randomTrace := func(tr *tracer, rng *rand.Rand, norm bool) {
		pickHosts := func() []int {
			return rng.Perm(nHosts)[:rng.Intn(nHosts+1)]
		}
		tr.setHosts(pickHosts())
		n := 10 + rng.Intn(11)
		for i := 0; i < n; i++ {
			switch k := rng.Intn(100); {
			case k < 10:
				tr.setHosts(pickHosts())
			case k < 25:
				if norm {
					size := rng.Intn(6)
					tr.sample(size, size+rng.Intn(6-size), rng)
				} else {
					tr.sample(rng.Intn(31), rng.Intn(6), rng)
				}
			default:
				var modes [nHosts]int
				pf := []int{20, 50, 90}[rng.Intn(3)]
				for h := range modes {
					if rng.Intn(100) < pf {
						modes[h] = 1 + rng.Intn(2)
					}
				}
				if norm && len(tr.idx) > 3 { // at most two failing members
					bad := 0
					for _, h := range tr.idx {
						if modes[h] != up {
							bad++
							if bad > 2 {
								modes[h] = up
							}
						}
					}
				}
				tr.req(kinds[rng.Intn(3)], modes)
			}
		}
	}

	c.Traces(nE+nR+nX+nG, func(t int, rng *rand.Rand) {
		switch {
		case t < nE:
			tr := newTracer(c, l, t, 0, "E")
			exhaustive(tr, t/len(kinds), kinds[t%len(kinds)], rep)
		case t < nE+nR:
			randomTrace(newTracer(c, l, t, 0, "R"), rng, true)
		case t < nE+nR+nX:
			i := t - nE - nR
			tr := newTracer(c, l, t, 1, "X")
			if i < len(xSizes)*len(kinds) {
				exhaustive(tr, xSizes[i/len(kinds)], kinds[i%len(kinds)], 1)
			} else {
				randomTrace(tr, rng, false)
			}
		default:
			tr := newTracer(c, l, t, 1, "G")
			all := func(n, mode int) (idx []int, modes [nHosts]int) {
				for i := 0; i < n; i++ {
					idx = append(idx, i)
					modes[i] = mode
				}
				return
			}
			switch i := t - nE - nR - nX; i {
			case 0: // sampling fewer hosts than the set has
				for k := 0; k < 12; k++ {
					n := rng.Intn(6)
					tr.sample(n+1+rng.Intn(30-n), n, rng)
				}
			case 1: // eight hosts, all unreachable
				idx, modes := all(8, down)
				tr.setHosts(idx)
				tr.req("do", modes)
				tr.req("once", modes)
			case 2: // six hosts, all answering 500 to the locations query
				idx, modes := all(6, errStatus)
				tr.setHosts(idx)
				tr.req("loc", modes)
			default:
				randomTrace(tr, rng, false)
			}
		}
	})
	time.Sleep(0)
	return nil
}
