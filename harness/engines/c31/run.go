package c31

import (
	"math/rand"

	"kvh/internal/eng"
)

// Trace kinds:
//
//	rand  one namespace, 1-2 blobs, seeded schedule of all steps (never enters the window of finding F31a)
//	f31a  scripted: forced cleanup classifies the file of a commit between setPersist and manager.Add as leaked
//	f31b  scripted: two namespaces (two backends) share one blob, the first finished write-back clears the flag
func run(c *eng.Ctx) error {
	nrand := c.N(44, 2000)
	scripted := []string{"f31a/stale", "f31a/reappear", "f31a/live", "f31b/seq", "f31b/race", "f31b/force"}
	total := nrand + len(scripted)
	c.Traces(total, func(t int, rng *rand.Rand) {
		if t < len(scripted) {
			script(c, t, rng, scripted[t])
			return
		}
		randTrace(c, t, rng)
	})
	return nil
}

func newDrv(c *eng.Ctx, rng *rand.Rand, nns, nd, capacity int) *drv {
	n, err := newNode(nns, nd, capacity, func(b []byte) { rng.Read(b) })
	if err != nil {
		panic(err)
	}
	d := &drv{c: c, rng: rng, n: n, bup: map[string]bool{}}
	for _, ns := range n.nss {
		d.bup[ns] = true
	}
	d.resetVolatile()
	d.awaitPoller()
	return d
}

func (d *drv) close() {
	d.n.halt(func() {
		k := d.inflight()
		for k > 0 {
			e := <-d.n.c.evc
			if e.kind == "park" {
				e.reply <- "abort"
			} else if e.src != "wi" && e.src != "wr" && e.src != "worker?" {
				k--
			}
		}
	})
	d.n.destroy()
}

// ---- enabled moves

type move struct {
	w  int
	fn func()
}

func (d *drv) rows(id string) int {
	k := 0
	for _, r := range d.n.observe().tasks {
		if r[1] == id {
			k++
		}
	}
	return k
}

// f31aWindow: the forced cleanup is about to ask the manager for the tasks of a flagged file that has none while an
// upload handler of that blob sits between SetCacheFileMetadata(persist) and manager.Add.
func (d *drv) f31aWindow() bool {
	if d.fcpc != "find" || d.rows(d.fcd) > 0 {
		return false
	}
	for _, s := range d.ss {
		if s.pc == "wb1" && s.b != nil && s.b.id == d.fcd {
			return true
		}
	}
	return false
}

func (d *drv) moves(maxStart, maxDel, maxForce, maxCl, maxXfer, maxRestart int, kinds []string) []move {
	var ms []move
	add := func(w int, fn func()) { ms = append(ms, move{w, fn}) }
	blobs, nss := d.n.blobs, d.n.nss
	for _, s := range d.ss {
		s := s
		switch s.pc {
		case "idle":
			if d.nstart < maxStart {
				add(6, func() {
					d.start(s, nss[d.rng.Intn(len(nss))], &blobs[d.rng.Intn(len(blobs))], kinds[d.rng.Intn(len(kinds))])
					if s.pc == "open" && d.rng.Intn(4) != 0 {
						d.patch(s)
					}
				})
			}
		case "open":
			if !s.patched {
				add(6, func() { d.patch(s) })
			} else {
				add(8, func() { d.commit(s) })
				add(1, func() { d.abandon(s) })
			}
		default:
			add(7, func() { d.stepSess(s) })
		}
	}
	for _, w := range []string{"wi", "wr"} {
		w := w
		if d.wpc[w] != "idle" {
			add(7, func() { d.execStep(w) })
		}
	}
	switch d.fcpc {
	case "idle":
		if d.nforce < maxForce {
			add(3, d.fstart)
		}
	case "own":
		add(6, func() { d.fown(d.rng.Intn(5) != 0) })
	case "find":
		if !d.f31aWindow() {
			add(6, d.ffind)
		}
	case "sx":
		if d.fcx == "ok" {
			add(6, d.fsx)
		} else {
			add(6, func() { d.execStep("fc") })
		}
	}
	switch d.clpc {
	case "idle":
		if d.ncl < maxCl {
			add(3, func() { d.clstart(d.rng.Intn(5) != 0) })
		}
	default:
		add(5, d.clfile)
	}
	if d.ndel < maxDel {
		add(3, func() { d.deleteBlob(&blobs[d.rng.Intn(len(blobs))]) })
	}
	if d.nxfer < maxXfer {
		add(1, func() { d.transfer(&blobs[d.rng.Intn(len(blobs))]) })
	}
	add(3, d.pollStep)
	for _, ns := range nss {
		ns := ns
		if d.bup[ns] && d.nfault < 3 {
			add(1, func() { d.nfault++; d.backend(ns, false) })
		} else if !d.bup[ns] {
			add(2, func() { d.backend(ns, true) })
		}
	}
	if d.nrestart < maxRestart {
		add(1, d.restart)
	}
	return ms
}

func (d *drv) pick(ms []move) {
	tot := 0
	for _, m := range ms {
		tot += m.w
	}
	r := d.rng.Intn(tot)
	for _, m := range ms {
		if r < m.w {
			m.fn()
			return
		}
		r -= m.w
	}
}

// drain brings every backend up, lets every parked context finish and the manager retry until the task table is
// empty (bounded), then writes the End record: by then every acknowledged blob must be in its backend.
func (d *drv) drain() {
	for _, ns := range d.n.nss {
		if !d.bup[ns] {
			d.backend(ns, true)
		}
	}
	d.nfault = 1 << 20 // no more injected upload faults
	for round := 0; round < 6; round++ {
		for guard := 0; guard < 400; guard++ {
			ms := d.moves(0, 0, 0, 0, 0, 0, nil)
			// only steps of contexts that are under way
			var run []move
			for _, s := range d.ss {
				s := s
				if s.pc == "open" {
					run = append(run, move{1, func() { d.abandon(s) }})
				} else if s.pc != "idle" {
					run = append(run, move{1, func() { d.stepSess(s) }})
				}
			}
			for _, w := range []string{"wi", "wr"} {
				w := w
				if d.wpc[w] != "idle" {
					run = append(run, move{1, func() { d.execStep(w) }})
				}
			}
			switch {
			case d.fcpc == "own":
				run = append(run, move{1, func() { d.fown(false) }})
			case d.fcpc == "find":
				run = append(run, move{1, d.ffind})
			case d.fcpc == "sx" && d.fcx == "ok":
				run = append(run, move{1, d.fsx})
			case d.fcpc == "sx":
				run = append(run, move{1, func() { d.execStep("fc") }})
			}
			if d.clpc != "idle" {
				run = append(run, move{1, d.clfile})
			}
			_ = ms
			if len(run) == 0 {
				break
			}
			run[0].fn()
		}
		left := 0
		for _, r := range d.n.observe().tasks {
			if r[2] == "pending" || r[2] == "failed" {
				left++
			}
		}
		if left == 0 {
			break
		}
		d.pollStep()
	}
	d.emit("End", nil, "strict", !d.dup)
}

func randTrace(c *eng.Ctx, t int, rng *rand.Rand) {
	nd := 1 + rng.Intn(2)
	capacity := []int{1 << 20, 1, 2}[rng.Intn(3)]
	kinds := []string{"pub"}
	if rng.Intn(4) == 0 {
		kinds = []string{"pub", "pub", "dup"}
	}
	d := newDrv(c, rng, 1, nd, capacity)
	defer d.close()
	c.W.Reset(t, map[string]any{"kind": "rand", "nns": 1, "nd": nd, "cap": capacity})
	steps := 25 + rng.Intn(35)
	maxRestart := rng.Intn(3)
	for i := 0; i < steps; i++ {
		d.pick(d.moves(5, 4, 2, 2, 2, maxRestart, kinds))
	}
	d.drain()
}

// ---- scripted scenarios (the two recorded findings; with the candidate repairs applied they are ordinary traces)

func (d *drv) sess(id string) *sess {
	for _, s := range d.ss {
		if s.id == id {
			return s
		}
	}
	panic("no session " + id)
}

// until steps session s until it reaches pc (or finishes).
func (d *drv) until(s *sess, pc string) {
	for k := 0; k < 8 && s.pc != pc && s.pc != "idle" && s.pc != "open"; k++ {
		d.stepSess(s)
	}
}

// finish runs an executor context to the end of its execution.
func (d *drv) finish(x string) {
	for k := 0; k < 12; k++ {
		if x == "fc" {
			switch {
			case d.fcpc == "idle":
				return
			case d.fcpc == "own":
				d.fown(true)
			case d.fcpc == "find":
				d.ffind()
			case d.fcx == "ok":
				d.fsx()
			default:
				d.execStep("fc")
			}
			continue
		}
		if d.wpc[x] == "idle" {
			return
		}
		d.execStep(x)
	}
}

func (d *drv) upload(s *sess, ns string, b *blob) {
	d.start(s, ns, b, "pub")
	if s.pc == "open" {
		d.patch(s)
		d.commit(s)
	}
}

func script(c *eng.Ctx, t int, rng *rand.Rand, name string) {
	nns := 1
	if name[:4] == "f31b" {
		nns = 2
	}
	d := newDrv(c, rng, nns, 1, 1<<20)
	defer d.close()
	d.nfault = 1 << 20 // scripted: no injected upload faults
	c.W.Reset(t, map[string]any{"kind": name[:4], "script": name, "nns": nns, "nd": 1, "cap": 1 << 20})
	b := &d.n.blobs[0]
	h1, h2 := d.sess("h1"), d.sess("h2")
	switch name {
	case "f31a/stale", "f31a/live":
		// commit #1 is between setPersist and Add when a forced cleanup finds "flag but no task": leaked, deleted
		d.upload(h1, "n1", b)
		d.until(h1, "wb1")
		d.fstart()
		d.fown(true)
		d.ffind()
		d.finish("fc")
		d.until(h1, "idle") // Add succeeds, metainfo generation fails: 500. The task stays.
		// the worker finds no file: about to drop the task (clear the flag, remove the row)
		for k := 0; k < 4 && d.wpc["wi"] != "clear" && d.wpc["wi"] != "idle"; k++ {
			d.execStep("wi")
		}
		// the client retries: commit #2 is acknowledged, its Add was a no-op on the existing row
		d.upload(h1, "n1", b)
		d.until(h1, "wb3")
		if name == "f31a/stale" {
			d.until(h1, "idle")
			d.finish("wi") // clears the flag of commit #2 and removes the row
			d.deleteBlob(b)
		} else {
			d.finish("wi")
			d.until(h1, "idle")
		}
	case "f31a/reappear":
		// as above, but the file re-appears (replication from another origin) before metainfo generation
		d.upload(h1, "n1", b)
		d.until(h1, "wb1")
		d.fstart()
		d.fown(true)
		d.ffind()
		d.finish("fc")
		d.backend("n1", false)
		d.until(h1, "wb2")
		d.transfer(b)
		d.until(h1, "idle") // 200
		d.finish("wi")      // upload fails: backend down
		d.deleteBlob(b)
		d.backend("n1", true)
	case "f31b/seq":
		// n1 acknowledged with its backend down; the same blob is then pushed to n2 (conflict -> second task);
		// n2's write-back finishes first and clears the flag both tasks rely on
		d.backend("n1", false)
		d.upload(h1, "n1", b)
		d.until(h1, "idle")
		d.finish("wi")
		d.upload(h2, "n2", b) // 409 path
		d.until(h2, "idle")
		d.finish("wi")
		d.deleteBlob(b)
		d.backend("n1", true)
	case "f31b/race":
		// the n2 conflict handler has set the flag but not yet added its task when n1's write-back clears it
		d.upload(h1, "n1", b)
		d.until(h1, "idle")
		for k := 0; k < 4 && d.wpc["wi"] != "clear"; k++ {
			d.execStep("wi")
		}
		d.backend("n2", false)
		d.upload(h2, "n2", b)
		d.until(h2, "wb1")
		d.finish("wi")
		d.until(h2, "idle")
		d.finish("wi")
		d.clstart(true)
		for d.clpc != "idle" {
			d.clfile()
		}
		d.backend("n2", true)
	case "f31b/force":
		// the forced cleanup has executed the only task it found (n1) when n2's conflict handler flags the file
		// and adds its task; the cleanup's final "delete flag, delete file" removes the copy n2 still needs
		d.upload(h1, "n1", b)
		d.until(h1, "idle") // the incoming worker stays parked at its first gate: later tasks wait in the channel
		d.fstart()
		d.fown(true)
		d.ffind()
		for k := 0; k < 8 && !(d.fcpc == "sx" && d.fcx == "ok"); k++ {
			d.execStep("fc")
		}
		d.backend("n2", false)
		d.upload(h2, "n2", b)
		d.until(h2, "idle")
		d.finish("fc")
		d.backend("n2", true)
	}
	d.drain()
}
