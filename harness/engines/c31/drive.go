package c31

import (
	"bytes"
	"fmt"
	"io"
	"math/rand"
	"net/http"
	"strings"
	"time"

	"github.com/uber/kraken/lib/store"

	"kvh/internal/eng"
)

const maxTries = 3 // SyncExec attempts: 1 + SyncRetryBackoff.MaxRetries

// sess is one upload session (handler context h1 / h2).
type sess struct {
	id      string
	pc      string // idle open wb0 wb1 wb2 wb3
	n       string
	b       *blob
	kind    string // pub | dup
	uid     string
	patched bool
}

type drv struct {
	c   *eng.Ctx
	rng *rand.Rand
	n   *node

	ss    []*sess
	wpc   map[string]string    // wi wr: idle stat read upload clear ok fail
	wtask map[string][2]string // namespace, blob hex
	fcpc  string               // idle own find sx
	fcx   string               // executor inside SyncExec: idle stat read upload clear ok
	fct   [2]string
	fcd   string // blob id the forced cleanup is working on
	clpc  string // idle scan
	cld   string
	clrdy bool
	inQ   [][2]string
	rtQ   [][2]string
	bup   map[string]bool
	cur   string
	dup   bool
	poll  bool // the poller is parked at GetFailed

	nstart, ndel, nforce, ncl, nxfer, nrestart, nfault int
}

func (d *drv) blobByHex(h string) *blob {
	for i := range d.n.blobs {
		if d.n.blobs[i].hex == h {
			return &d.n.blobs[i]
		}
	}
	return nil
}
func (d *drv) idOf(h string) string {
	if b := d.blobByHex(h); b != nil {
		return b.id
	}
	return "other"
}

func (d *drv) resetVolatile() {
	d.ss = []*sess{{id: "h1", pc: "idle"}, {id: "h2", pc: "idle"}}
	d.wpc = map[string]string{"wi": "idle", "wr": "idle"}
	d.wtask = map[string][2]string{}
	d.fcpc, d.fcx, d.fcd, d.clpc, d.cld = "idle", "idle", "-", "idle", "-"
	d.fct = [2]string{"-", "-"}
	d.inQ, d.rtQ = nil, nil
	d.cur, d.poll = "", false
}

// ---- event pump

type took struct {
	w    string
	n, h string
}

// collect moves the store-level enqueue notices into the harness' picture of the two channels.
func (d *drv) collect() (polled [][2]string) {
	g := d.n.g
	g.mu.Lock()
	q := g.enq
	g.enq = nil
	g.mu.Unlock()
	for _, it := range q {
		if it.q == "in" {
			d.inQ = append(d.inQ, [2]string{it.n, it.d})
		} else {
			d.rtQ = append(d.rtQ, [2]string{it.n, it.d})
			polled = append(polled, [2]string{it.n, it.d})
		}
	}
	return polled
}

// settle waits until context who has parked again or finished and every idle worker with a queued task has
// reached its first gate. It returns who's event, the tasks taken by workers and the tasks re-queued by the poller.
func (d *drv) settle(who string) (*event, []took, [][2]string) {
	var main *event
	var takes []took
	var polled [][2]string
	g := d.n.g
	for {
		polled = append(polled, d.collect()...)
		need := main == nil ||
			(d.wpc["wi"] == "idle" && len(d.inQ) > 0) || (d.wpc["wr"] == "idle" && len(d.rtQ) > 0)
		if !need {
			return main, takes, polled
		}
		var e *event
		select {
		case e = <-d.n.c.evc:
		case <-time.After(stepWait):
			panic(fmt.Sprintf("c31: dead driver: no event for %v while waiting for %q (wpc=%v inQ=%v rtQ=%v)", stepWait, who, d.wpc, d.inQ, d.rtQ))
		}
		if e.g != g { // a late goroutine of a previous life
			if e.kind == "park" {
				e.reply <- "abort"
			}
			continue
		}
		if e.kind == "park" && e.src == "" {
			e.src = d.cur
		}
		if e.kind == "park" && (e.src == "worker?" || ((e.src == "wi" || e.src == "wr") && d.wpc[e.src] == "idle")) {
			// first gate of an execution: backend.Stat (or whatever a changed executor calls first)
			polled = append(polled, d.collect()...)
			w := e.src
			key := [2]string{e.a, e.b}
			if w == "worker?" {
				switch {
				case d.wpc["wi"] == "idle" && len(d.inQ) > 0 && d.inQ[0] == key && d.named("wi") == 0:
					w = "wi"
				case d.wpc["wr"] == "idle" && len(d.rtQ) > 0 && d.rtQ[0] == key && d.named("wr") == 0:
					w = "wr"
				case d.named("wi") == 0 && len(d.inQ) > 0:
					w = "wi"
				default:
					w = "wr"
				}
				g.mu.Lock()
				g.wgid[e.gid] = w
				g.mu.Unlock()
				e.src = w
			}
			if w == "wi" && len(d.inQ) > 0 {
				key, d.inQ = d.inQ[0], d.inQ[1:]
			} else if w == "wr" && len(d.rtQ) > 0 {
				key, d.rtQ = d.rtQ[0], d.rtQ[1:]
			}
			d.wpc[w] = pcOf(e.point)
			d.wtask[w] = key
			g.parked[w] = e
			takes = append(takes, took{w, key[0], key[1]})
			if w == who {
				main = e
			}
			continue
		}
		if e.kind == "park" {
			g.parked[e.src] = e
		}
		if e.kind == "done" && (e.src == "wi" || e.src == "wr") {
			d.wpc[e.src] = "idle" // store.Remove / MarkFailed returned: the worker goes back to its channel
		}
		if e.src == who {
			main = e
		} else if e.kind == "park" && e.src == "poll" && !d.poll {
			d.poll = true // the poller's first arrival after boot
		} else {
			panic(fmt.Sprintf("c31: unexpected event %s/%s from %q while running %q", e.kind, e.point, e.src, who))
		}
	}
}

func (d *drv) named(w string) int {
	d.n.g.mu.Lock()
	defer d.n.g.mu.Unlock()
	k := 0
	for _, v := range d.n.g.wgid {
		if v == w {
			k++
		}
	}
	return k
}

func pcOf(point string) string {
	switch point {
	case "wb":
		return "wb0"
	case "add":
		return "wb1"
	case "added":
		return "wb2"
	case "ring":
		return "wb3"
	case "remove":
		return "ok"
	case "markfailed":
		return "fail"
	case "sxok":
		return "ok"
	}
	return point // stat read upload clear find
}

func (d *drv) release(who, answer string) {
	e := d.n.g.parked[who]
	if e == nil {
		panic("c31: nothing parked for " + who)
	}
	delete(d.n.g.parked, who)
	e.reply <- answer
}

// request sends one HTTP request on behalf of context who; its completion arrives as a done event.
func (d *drv) request(who, method, path string, hdr map[string]string, body []byte) {
	g, url, cl, evc := d.n.g, d.n.srv.URL+path, d.n.cl, d.n.c.evc
	d.cur = who
	go func() {
		var rd io.Reader
		if body != nil {
			rd = bytes.NewReader(body)
		}
		e := &event{kind: "done", src: who, g: g}
		req, err := http.NewRequest(method, url, rd)
		if err == nil {
			for k, v := range hdr {
				req.Header.Set(k, v)
			}
			var resp *http.Response
			if resp, err = cl.Do(req); err == nil {
				b, _ := io.ReadAll(resp.Body)
				resp.Body.Close()
				e.code, e.body, e.a = resp.StatusCode, string(b), resp.Header.Get("Location")
			}
		}
		evc <- e
	}()
}

// ---- logging

func (d *drv) pcs() map[string]any {
	m := map[string]any{"fc": d.fcpc, "fx": d.fcx, "fd": d.fcd, "fn": d.fct[0], "ft": d.idOfOrDash(d.fct[1]),
		"cl": d.clpc, "cd": d.cld}
	for _, s := range d.ss {
		m[s.id] = s.pc
	}
	for _, w := range []string{"wi", "wr"} {
		m[w] = d.wpc[w]
		t := d.wtask[w]
		if d.wpc[w] == "idle" {
			t = [2]string{"-", "-"}
		}
		m[w+"n"], m[w+"d"] = t[0], d.idOfOrDash(t[1])
	}
	return m
}
func (d *drv) idOfOrDash(h string) string {
	if h == "-" || h == "" {
		return "-"
	}
	return d.idOf(h)
}

// emit writes the record of one step and one WTake record per worker that picked up a task during it.
func (d *drv) emit(ev string, takes []took, kv ...any) {
	o := d.n.observe()
	// the main record shows the workers as they were before the takes
	saved := map[string]string{}
	for _, t := range takes {
		saved[t.w] = d.wpc[t.w]
		d.wpc[t.w] = "idle"
	}
	rec := append(kv, "cache", o.cache, "pers", o.pers, "meta", o.meta, "tasks", o.tasks, "bk", o.bk, "pcs", d.pcs())
	d.c.W.Ev(ev, rec...)
	for _, t := range takes {
		d.wpc[t.w] = saved[t.w]
		d.c.W.Ev("WTake", "x", t.w, "n", t.n, "d", d.idOf(t.h),
			"cache", o.cache, "pers", o.pers, "meta", o.meta, "tasks", o.tasks, "bk", o.bk, "pcs", d.pcs())
	}
	d.c.Inc("steps", 1+len(takes))
}

// ---- moves

func digestPath(b *blob) string { return "sha256:" + b.hex }

func (d *drv) sessDone(s *sess) {
	s.pc, s.uid, s.patched, s.b, s.n, s.kind = "idle", "", false, nil, "", ""
}

// after a handler request of session s was sent or released: where is it now?
func (d *drv) sessAfter(s *sess, e *event) (code int) {
	if e.kind == "park" {
		s.pc = pcOf(e.point)
		return 0
	}
	return e.code
}

func (d *drv) start(s *sess, ns string, b *blob, kind string) {
	if s.pc != "idle" {
		return
	}
	s.n, s.b, s.kind = ns, b, kind
	d.nstart++
	d.request(s.id, "POST", fmt.Sprintf("/namespace/%s/blobs/%s/uploads", ns, digestPath(b)), nil, nil)
	e, takes, _ := d.settle(s.id)
	code := d.sessAfter(s, e)
	switch {
	case e.kind == "park":
	case code == 200 && e.a != "":
		s.pc, s.uid = "open", e.a
	default:
		d.sessDone(s)
	}
	d.emit("Start", takes, "h", s.id, "n", ns, "d", b.id, "kind", kind, "code", code)
}

func (d *drv) patch(s *sess) {
	if s.pc != "open" {
		return // a scripted step whose context is not where the script expects it (changed code): skipped
	}
	d.request(s.id, "PATCH", fmt.Sprintf("/namespace/%s/blobs/%s/uploads/%s", s.n, digestPath(s.b), s.uid),
		map[string]string{"Content-Range": fmt.Sprintf("0-%d", len(s.b.data))}, s.b.data)
	e, takes, _ := d.settle(s.id)
	code := d.sessAfter(s, e)
	if e.kind != "park" {
		if code == 200 {
			s.patched = true
		} else {
			d.sessDone(s)
		}
	}
	d.emit("Patch", takes, "h", s.id, "code", code)
}

func (d *drv) commit(s *sess) {
	if s.pc != "open" {
		return // a scripted step whose context is not where the script expects it (changed code): skipped
	}
	path := fmt.Sprintf("/namespace/%s/blobs/%s/uploads/%s", s.n, digestPath(s.b), s.uid)
	var body []byte
	if s.kind == "dup" {
		path = "/internal/duplicate" + path
		body = []byte(fmt.Sprintf(`{"Delay": %d}`, int64(time.Hour)))
		d.dup = true
	}
	d.request(s.id, "PUT", path, nil, body)
	e, takes, _ := d.settle(s.id)
	code := d.sessAfter(s, e)
	if e.kind != "park" {
		d.sessDone(s)
	}
	d.emit("Commit", takes, "h", s.id, "code", code)
}

func (d *drv) abandon(s *sess) {
	d.sessDone(s)
	d.emit("Abandon", nil, "h", s.id)
}

// stepSess releases session s from its gate: SetPersist, AddTask, GenMeta or Ack.
func (d *drv) stepSess(s *sess) {
	if d.n.g.parked[s.id] == nil {
		return // a scripted step whose context is not where the script expects it (changed code): skipped
	}
	name := map[string]string{"wb0": "SetPersist", "wb1": "AddTask", "wb2": "GenMeta", "wb3": "Ack"}[s.pc]
	d.cur = s.id
	ans := "go"
	if s.pc == "wb3" {
		ans = "own"
	}
	d.release(s.id, ans)
	e, takes, _ := d.settle(s.id)
	code := d.sessAfter(s, e)
	if e.kind != "park" {
		d.sessDone(s)
	}
	d.emit(name, takes, "h", s.id, "code", code)
}

// execStep releases an executor context (a worker or the forced cleanup's SyncExec) from its gate.
func (d *drv) execStep(x string) {
	if d.n.g.parked[x] == nil {
		return // a scripted step whose context is not where the script expects it (changed code): skipped
	}
	pc := d.wpc[x]
	t := d.wtask[x]
	if x == "fc" {
		pc, t = d.fcx, d.fct
	}
	ans, kv := "go", []any{"x", x}
	name := map[string]string{"stat": "XStat", "read": "XRead", "upload": "XUpload", "clear": "XClear", "ok": "WRemove", "fail": "WMarkFailed"}[pc]
	switch pc {
	case "stat":
		ans = "down"
		if d.bup[t[0]] {
			ans = "truth"
		}
	case "upload":
		out := "err"
		if d.bup[t[0]] {
			out = "ok"
			if d.nfault < 3 && d.rng.Intn(5) == 0 {
				out = []string{"err", "lost"}[d.rng.Intn(2)]
				d.nfault++
			}
		}
		ans, kv = out, append(kv, "out", out)
	}
	if x == "fc" {
		d.cur = "fc"
	}
	d.release(x, ans)
	e, takes, _ := d.settle(x)
	if x == "fc" {
		d.fcAfter(e)
	} else if e.kind == "park" {
		d.wpc[x] = pcOf(e.point)
	}
	d.emit(name, takes, kv...)
}

// fcAfter updates the picture of the forced cleanup handler from the event that ended its step.
func (d *drv) fcAfter(e *event) {
	if e.kind == "done" {
		d.fcpc, d.fcx, d.fcd, d.fct = "idle", "idle", "-", [2]string{"-", "-"}
		return
	}
	switch e.point {
	case "ring":
		d.fcpc, d.fcx, d.fcd, d.fct = "own", "idle", d.idOf(e.b), [2]string{"-", "-"}
	case "find":
		d.fcpc = "find"
	case "stat":
		d.fcpc, d.fcx, d.fct = "sx", "stat", [2]string{e.a, e.b}
	default:
		d.fcx = pcOf(e.point)
	}
}

func (d *drv) fstart() {
	if d.fcpc != "idle" {
		return // a scripted step whose context is not where the script expects it (changed code): skipped
	}
	d.nforce++
	d.request("fc", "POST", "/forcecleanup?ttl_hr=1000000", nil, nil)
	e, takes, _ := d.settle("fc")
	d.fcAfter(e)
	d.emit("FStart", takes, "code", e.code)
}

func (d *drv) fown(cand bool) {
	if d.fcpc != "own" || d.n.g.parked["fc"] == nil {
		return // a scripted step whose context is not where the script expects it (changed code): skipped
	}
	d.cur = "fc"
	ans := "own"
	if cand {
		ans = "notown"
	}
	d.release("fc", ans)
	e, takes, _ := d.settle("fc")
	d.fcAfter(e)
	d.emit("FOwn", takes, "cand", cand, "code", e.code)
}

func (d *drv) ffind() {
	if d.fcpc != "find" || d.n.g.parked["fc"] == nil {
		return // a scripted step whose context is not where the script expects it (changed code): skipped
	}
	d.cur = "fc"
	d.release("fc", "go")
	e, takes, _ := d.settle("fc")
	d.fcAfter(e)
	d.emit("FFind", takes, "code", e.code)
}

func (d *drv) fsx() {
	if d.n.g.parked["fc"] == nil {
		return // a scripted step whose context is not where the script expects it (changed code): skipped
	}
	d.cur = "fc"
	d.release("fc", "go")
	e, takes, _ := d.settle("fc")
	if e.kind == "park" && e.point == "find" {
		// candidate repair F31b: maybeDelete looks for new tasks once more before it deletes; the look-up and the
		// deletion are one step of the model
		d.release("fc", "go")
		var more []took
		e, more, _ = d.settle("fc")
		takes = append(takes, more...)
	}
	d.fcAfter(e)
	d.emit("FSx", takes, "code", e.code)
}

func (d *drv) clAfter(e *event) {
	if e.kind == "done" {
		d.clpc, d.cld = "idle", "-"
		return
	}
	d.clpc, d.cld = "scan", d.idOf(e.b)
}

func (d *drv) clstart(ready bool) {
	d.ncl++
	d.clrdy = ready
	ttl := 1000000 * time.Hour
	if ready {
		ttl = time.Hour
	}
	g, evc := d.n.g, d.n.c.evc
	op := &gop{FileOp: d.n.cas.VerifCacheFileOp(), g: g}
	cl := store.VerifNewCleaner(d.n.clk)
	d.cur = "cl"
	go func() {
		defer cl.Stop()
		cl.Cleanup(op, store.CleanupConfig{TTI: ttl, TTL: ttl, Interval: time.Hour}, false)
		evc <- &event{kind: "done", src: "cl", g: g}
	}()
	e, takes, _ := d.settle("cl")
	d.clAfter(e)
	d.emit("ClStart", takes, "ready", ready)
}

func (d *drv) clfile() {
	if d.n.g.parked["cl"] == nil {
		return // a scripted step whose context is not where the script expects it (changed code): skipped
	}
	d.cur = "cl"
	d.release("cl", "go")
	e, takes, _ := d.settle("cl")
	d.clAfter(e)
	d.emit("ClFile", takes, "ready", d.clrdy)
}

func (d *drv) deleteBlob(b *blob) {
	d.ndel++
	d.request("del", "DELETE", "/internal/blobs/"+digestPath(b), nil, nil)
	e, takes, _ := d.settle("del")
	d.emit("Delete", takes, "d", b.id, "code", e.code)
}

// transfer commits b through the internal transfer endpoints (replication from another origin): no write-back.
func (d *drv) transfer(b *blob) {
	d.nxfer++
	code := 0
	var takes []took
	d.request("xf", "POST", "/internal/blobs/"+digestPath(b)+"/uploads", nil, nil)
	e, tk1, _ := d.settle("xf")
	takes, code = append(takes, tk1...), e.code
	if e.code == 200 && e.a != "" {
		uid := e.a
		d.request("xf", "PATCH", "/internal/blobs/"+digestPath(b)+"/uploads/"+uid,
			map[string]string{"Content-Range": fmt.Sprintf("0-%d", len(b.data))}, b.data)
		e, tk1, _ = d.settle("xf")
		takes, code = append(takes, tk1...), e.code
		if e.code == 200 {
			d.request("xf", "PUT", "/internal/blobs/"+digestPath(b)+"/uploads/"+uid, nil, nil)
			e, tk1, _ = d.settle("xf")
			takes, code = append(takes, tk1...), e.code
		}
	}
	d.emit("Transfer", takes, "d", b.id, "code", code)
}

func (d *drv) backend(ns string, up bool) {
	d.bup[ns] = up
	ev := "BackendDown"
	if up {
		ev = "BackendUp"
	}
	d.emit(ev, nil, "n", ns)
}

func (d *drv) pollStep() {
	d.release("poll", "go")
	_, takes, polled := d.settle("poll")
	s := [][]string{}
	for _, p := range polled {
		s = append(s, []string{p[0], d.idOf(p[1])})
	}
	d.emit("Poll", takes, "s", s)
}

func (d *drv) inflight() int {
	k := 0
	for _, s := range d.ss {
		if strings.HasPrefix(s.pc, "wb") {
			k++
		}
	}
	if d.fcpc != "idle" {
		k++
	}
	if d.clpc != "idle" {
		k++
	}
	return k
}

func (d *drv) restart() {
	d.nrestart++
	k := d.inflight()
	d.n.halt(func() {
		for k > 0 {
			select {
			case e := <-d.n.c.evc:
				if e.kind == "park" {
					e.reply <- "abort"
				} else if e.src != "wi" && e.src != "wr" && e.src != "worker?" {
					k--
				}
			case <-time.After(stepWait):
				panic("c31: dead driver: aborted requests did not return")
			}
		}
	})
	if err := d.n.boot(); err != nil {
		panic(err)
	}
	d.resetVolatile()
	d.awaitPoller()
	d.emit("Restart", nil)
}

// awaitPoller waits for the retry poller's first arrival at GetFailed after a boot.
func (d *drv) awaitPoller() {
	for !d.poll {
		select {
		case e := <-d.n.c.evc:
			if e.g != d.n.g {
				if e.kind == "park" {
					e.reply <- "abort"
				}
				continue
			}
			if e.kind == "park" && e.src == "poll" {
				d.n.g.parked["poll"] = e
				d.poll = true
				continue
			}
			panic(fmt.Sprintf("c31: unexpected event %s/%s from %q after boot", e.kind, e.point, e.src))
		case <-time.After(stepWait):
			panic("c31: dead driver: the retry poller never arrived")
		}
	}
}
