// Package c31 drives a real origin (property C31): a real blobserver.Server over HTTP (httptest) on a real
// CAStore, the real persistedretry manager with the real write-back executor and the sqlite task table, one
// gated fake backend per namespace.  Every goroutine of the node that can take a step of the write-back protocol
// (upload handlers, manager workers, the retry poller, the forced cleanup handler, a cleanup pass) is held at
// dependency gates -- the backend client, the executor's FileStore, the manager and its Store, the hash ring, a
// FileOp decorator and the global logger -- and the harness releases exactly one of them at a time, so a
// history is a schedule of the steps of spec/origin/WriteBack.tla.  After every step the disk, the task table
// and the backends are inspected from outside and logged.  The harness only records; the verdict comes from
// spec/origin/WriteBackTrace.tla.
package c31

import (
	"bytes"
	"crypto/sha256"
	"encoding/hex"
	"errors"
	"fmt"
	"io"
	"net/http"
	"net/http/httptest"
	"os"
	"path/filepath"
	"reflect"
	"runtime"
	"sort"
	"strconv"
	"strings"
	"sync"
	"sync/atomic"
	"time"

	"github.com/andres-erbsen/clock"
	"github.com/jmoiron/sqlx"
	"github.com/uber-go/tally"
	"go.uber.org/zap"
	"go.uber.org/zap/zapcore"

	"github.com/uber/kraken/core"
	"github.com/uber/kraken/lib/backend"
	"github.com/uber/kraken/lib/backend/backenderrors"
	"github.com/uber/kraken/lib/blobrefresh"
	"github.com/uber/kraken/lib/metainfogen"
	"github.com/uber/kraken/lib/persistedretry"
	"github.com/uber/kraken/lib/persistedretry/writeback"
	"github.com/uber/kraken/lib/store"
	"github.com/uber/kraken/lib/store/base"
	"github.com/uber/kraken/lib/store/metadata"
	"github.com/uber/kraken/localdb"
	"github.com/uber/kraken/origin/blobclient"
	"github.com/uber/kraken/origin/blobserver"
	"github.com/uber/kraken/utils/httputil"
	klog "github.com/uber/kraken/utils/log"
	"github.com/uber/kraken/utils/stringset"

	"kvh/internal/eng"
)

func init() { eng.Register("c31", run) }

const (
	selfAddr  = "c31-origin:80"
	otherAddr = "c31-other:80"
	wbLogMsg  = "Starting write-back process" // origin/blobserver/server.go, first statement of writeBack
	stepWait  = 60 * time.Second
)

var errDead = errors.New("c31: process is gone")
var errDown = errors.New("c31: backend unavailable")

// ---------------------------------------------------------------------------------------------
// controller: every gate reports to one channel and waits for the harness' answer

type event struct {
	kind  string // "park" | "done"
	src   string // resolved context ("" = the foreground context the harness is currently running)
	gid   int64
	point string
	a, b  string // point arguments (namespace, name)
	code  int    // done of an HTTP request: status (0 = transport error)
	body  string
	reply chan string
	g     *gen
}

type ctl struct {
	evc chan *event
}

// gen is one life of the origin process.
type gen struct {
	c      *ctl
	dead   atomic.Bool
	mu     sync.Mutex
	wgid   map[int64]string // worker goroutine id -> "wi" | "wr"
	enq    []qitem          // store-level enqueue notices since the last collect
	parked map[string]*event
	finder map[int64]bool // goroutines that have just passed gfinder.Find
}

type qitem struct {
	q    string // "in" | "rt"
	n, d string
}

func goid() int64 {
	var buf [64]byte
	n := runtime.Stack(buf[:], false)
	f := strings.Fields(string(buf[:n]))
	if len(f) < 2 {
		return -1
	}
	id, _ := strconv.ParseInt(f[1], 10, 64)
	return id
}

// origin classifies the calling goroutine by its stack: "worker", "poller" or "" (foreground).
func origin() string {
	pcs := make([]uintptr, 96)
	n := runtime.Callers(1, pcs)
	fr := runtime.CallersFrames(pcs[:n])
	for {
		f, more := fr.Next()
		if strings.Contains(f.Function, "persistedretry.(*manager).worker") {
			return "worker"
		}
		if strings.Contains(f.Function, "persistedretry.(*manager).tickerLoop") {
			return "poller"
		}
		if !more {
			return ""
		}
	}
}

// park blocks the calling goroutine at a gate until the harness answers. A dead generation never blocks.
func (g *gen) park(point, a, b string) string {
	if g.dead.Load() {
		return "abort"
	}
	e := &event{kind: "park", point: point, a: a, b: b, reply: make(chan string, 1), g: g, gid: goid()}
	switch origin() {
	case "worker":
		g.mu.Lock()
		e.src = g.wgid[e.gid] // "" until the harness has named the worker (first gate of an execution)
		g.mu.Unlock()
		if e.src == "" {
			e.src = "worker?"
		}
	case "poller":
		e.src = "poll"
	}
	g.c.evc <- e
	r := <-e.reply
	if g.dead.Load() {
		return "abort"
	}
	return r
}

func (g *gen) notify(src, point string) {
	if g.dead.Load() {
		return
	}
	g.c.evc <- &event{kind: "done", src: src, point: point, g: g, gid: goid()}
}

// ---------------------------------------------------------------------------------------------
// gates

// backend: one store per namespace shared by all generations; the client is per generation
type bstore struct {
	mu sync.Mutex
	kv map[string]map[string][]byte // namespace -> name -> bytes
}

func (s *bstore) has(ns, name string) bool {
	s.mu.Lock()
	defer s.mu.Unlock()
	_, ok := s.kv[ns][name]
	return ok
}
func (s *bstore) put(ns, name string, b []byte) {
	s.mu.Lock()
	defer s.mu.Unlock()
	if s.kv[ns] == nil {
		s.kv[ns] = map[string][]byte{}
	}
	s.kv[ns][name] = b
}

type genClient struct {
	g  *gen
	ns string
	s  *bstore
}

func (c *genClient) Stat(namespace, name string) (*core.BlobInfo, error) {
	switch c.g.park("stat", namespace, name) {
	case "truth":
		c.s.mu.Lock()
		b, ok := c.s.kv[namespace][name]
		c.s.mu.Unlock()
		if ok {
			return core.NewBlobInfo(int64(len(b))), nil
		}
		return nil, backenderrors.ErrBlobNotFound
	case "abort":
		return nil, errDead
	}
	return nil, errDown
}

func (c *genClient) Upload(namespace, name string, src io.Reader) error {
	a := c.g.park("upload", namespace, name)
	if a == "abort" {
		return errDead
	}
	if a == "ok" || a == "lost" {
		b, err := io.ReadAll(src) // read from the descriptor the executor opened before the gate
		if err != nil {
			return err
		}
		c.s.put(namespace, name, b)
		if a == "ok" {
			return nil
		}
	}
	return errDown
}
func (c *genClient) Download(namespace, name string, dst io.Writer) error {
	return errors.New("c31: download not part of the scenario")
}
func (c *genClient) List(prefix string, opts ...backend.ListOption) (*backend.ListResult, error) {
	return &backend.ListResult{}, nil
}
func (c *genClient) Close() error { return nil }

// executor's FileStore
type gfs struct {
	g   *gen
	cas *store.CAStore
}

func (f *gfs) GetCacheFileReader(name string) (store.FileReader, error) {
	if f.g.park("read", "", name) == "abort" {
		return nil, errDead
	}
	return f.cas.GetCacheFileReader(name)
}
func (f *gfs) DeleteCacheFileMetadata(name string, md metadata.Metadata) error {
	if !f.g.passedFinder() { // candidate repair F31b: the same "clear" step began in gfinder.Find
		if f.g.park("clear", "", name) == "abort" {
			return errDead
		}
	}
	if f.g.dead.Load() {
		return errDead
	}
	return f.cas.DeleteCacheFileMetadata(name, md)
}

// gfinder is handed to an executor that has WithTaskFinder (candidate repair F31b: the executor looks for tasks of
// other namespaces before it clears the persist flag). The look-up and the clearing are one step of the model,
// so the "clear" gate moves here and gfs.DeleteCacheFileMetadata does not stop again.
type gfinder struct {
	g *gen
	s *writeback.Store
}

func (f *gfinder) Find(q interface{}) ([]persistedretry.Task, error) {
	if f.g.park("clear", "", "") == "abort" {
		return nil, errDead
	}
	f.g.mu.Lock()
	f.g.finder[goid()] = true
	f.g.mu.Unlock()
	return f.s.Find(q)
}

func (g *gen) passedFinder() bool {
	g.mu.Lock()
	defer g.mu.Unlock()
	id := goid()
	ok := g.finder[id]
	delete(g.finder, id)
	return ok
}

// the task table
type gstore struct {
	g *gen
	s *writeback.Store
}

func tk(t persistedretry.Task) (string, string) {
	if w, ok := t.(*writeback.Task); ok {
		return w.Namespace, w.Name
	}
	return "?", "?"
}
func (s *gstore) note(q string, t persistedretry.Task) {
	n, d := tk(t)
	s.g.mu.Lock()
	s.g.enq = append(s.g.enq, qitem{q, n, d})
	s.g.mu.Unlock()
}
func (s *gstore) AddPending(t persistedretry.Task) error {
	if s.g.dead.Load() {
		return errDead
	}
	err := s.s.AddPending(t)
	if err == nil {
		s.note("in", t) // manager.Add enqueues to the incoming channel next
	}
	return err
}
func (s *gstore) AddFailed(t persistedretry.Task) error {
	if s.g.dead.Load() {
		return errDead
	}
	return s.s.AddFailed(t)
}
func (s *gstore) MarkPending(t persistedretry.Task) error {
	if s.g.dead.Load() {
		return errDead
	}
	err := s.s.MarkPending(t)
	if err == nil {
		s.note("rt", t) // manager.retry enqueues to the retries channel next
	}
	return err
}
func (s *gstore) MarkFailed(t persistedretry.Task) error {
	if s.g.dead.Load() {
		return errDead
	}
	if origin() == "worker" {
		n, d := tk(t)
		if s.g.park("markfailed", n, d) == "abort" {
			return errDead
		}
		err := s.s.MarkFailed(t)
		s.g.notify(s.g.worker(), "markfailed")
		return err
	}
	return s.s.MarkFailed(t)
}
func (s *gstore) Remove(t persistedretry.Task) error {
	if s.g.dead.Load() {
		return errDead
	}
	if origin() == "worker" {
		n, d := tk(t)
		if s.g.park("remove", n, d) == "abort" {
			return errDead
		}
		err := s.s.Remove(t)
		s.g.notify(s.g.worker(), "remove")
		return err
	}
	return s.s.Remove(t)
}
func (s *gstore) GetPending() ([]persistedretry.Task, error) {
	if s.g.dead.Load() {
		return nil, errDead
	}
	return s.s.GetPending()
}
func (s *gstore) GetFailed() ([]persistedretry.Task, error) {
	if s.g.dead.Load() {
		return nil, errDead
	}
	if origin() == "poller" {
		if s.g.park("getfailed", "", "") == "abort" {
			return nil, errDead
		}
	}
	return s.s.GetFailed()
}
func (s *gstore) Find(q interface{}) ([]persistedretry.Task, error) {
	if s.g.dead.Load() {
		return nil, errDead
	}
	return s.s.Find(q)
}

func (g *gen) worker() string {
	g.mu.Lock()
	defer g.mu.Unlock()
	if w := g.wgid[goid()]; w != "" {
		return w
	}
	return "worker?"
}

// the manager as seen by the server
type gmgr struct {
	g *gen
	m persistedretry.Manager
}

func (m *gmgr) Add(t persistedretry.Task) error {
	n, d := tk(t)
	if m.g.park("add", n, d) == "abort" {
		return errDead
	}
	err := m.m.Add(t)
	if m.g.park("added", n, d) == "abort" {
		return errDead
	}
	return err
}
func (m *gmgr) Find(q interface{}) ([]persistedretry.Task, error) {
	if m.g.park("find", "", "") == "abort" {
		return nil, errDead
	}
	return m.m.Find(q)
}
func (m *gmgr) SyncExec(t persistedretry.Task) error {
	err := m.m.SyncExec(t)
	if err == nil {
		n, d := tk(t)
		if m.g.park("sxok", n, d) == "abort" {
			return errDead
		}
	}
	return err
}
func (m *gmgr) Close() { m.m.Close() }

// the hash ring: only handlers call it; a dead process' handler goroutine is killed at the gate
type gring struct{ g *gen }

func (r *gring) Locations(d core.Digest) []string {
	switch r.g.park("ring", "", d.Hex()) {
	case "abort":
		panic(http.ErrAbortHandler)
	case "notown":
		return []string{otherAddr}
	}
	return []string{selfAddr}
}
func (r *gring) Contains(addr string) bool         { return addr == selfAddr }
func (r *gring) WaitForContains(addr string) error { return nil }
func (r *gring) Members() stringset.Set            { return stringset.New(selfAddr) }
func (r *gring) Monitor(stop <-chan struct{})      { <-stop }
func (r *gring) Refresh()                          {}

// FileOp decorator for the cleanup pass
type gop struct {
	base.FileOp
	g *gen
}

func (o *gop) GetFileStat(name string) (os.FileInfo, error) {
	if o.g.park("clstat", "", name) == "abort" {
		return nil, errDead
	}
	return o.FileOp.GetFileStat(name)
}
func (o *gop) DeleteFile(name string) error {
	if o.g.dead.Load() {
		return errDead
	}
	return o.FileOp.DeleteFile(name)
}
func (o *gop) ListNames() ([]string, error) {
	if o.g.dead.Load() {
		return nil, errDead
	}
	return o.FileOp.ListNames()
}

// the global logger: the only seam between MoveUploadFileToCache and SetCacheFileMetadata(persist)
type logGate struct{ cur *atomic.Pointer[gen] }

func (c logGate) Enabled(zapcore.Level) bool        { return true }
func (c logGate) With([]zapcore.Field) zapcore.Core { return c }
func (c logGate) Check(e zapcore.Entry, ce *zapcore.CheckedEntry) *zapcore.CheckedEntry {
	if e.Message == wbLogMsg {
		return ce.AddCore(e, c)
	}
	return ce
}
func (c logGate) Write(e zapcore.Entry, f []zapcore.Field) error {
	if g := c.cur.Load(); g != nil && origin() == "" {
		if g.park("wb", "", "") == "abort" {
			panic(http.ErrAbortHandler)
		}
	}
	return nil
}
func (c logGate) Sync() error { return nil }

type noClients struct{}

func (noClients) Provide(string) blobclient.Client { panic("c31: no remote origins in this scenario") }

type noClusters struct{}

func (noClusters) Provide(string) (blobclient.ClusterClient, error) {
	return nil, errors.New("c31: no remote clusters in this scenario")
}

// ---------------------------------------------------------------------------------------------
// the node

type blob struct {
	id   string // "d1", "d2"
	data []byte
	hex  string
}

type node struct {
	c     *ctl
	dir   string
	clk   *clock.Mock
	cap   int
	nss   []string
	blobs []blob
	bs    *bstore
	cur   *atomic.Pointer[gen]

	g        *gen
	db       *sqlx.DB
	cas      *store.CAStore
	casClose func()
	mgr      persistedretry.Manager
	srv      *httptest.Server
	cl       *http.Client
}

func tmpBase() string {
	if os.Getenv("TMPDIR") == "" {
		if st, err := os.Stat("/dev/shm"); err == nil && st.IsDir() {
			return "/dev/shm"
		}
	}
	return ""
}

func newNode(nns, nd, capacity int, seedBytes func([]byte)) (*node, error) {
	dir, err := os.MkdirTemp(tmpBase(), "c31-")
	if err != nil {
		return nil, err
	}
	n := &node{c: &ctl{evc: make(chan *event, 256)}, dir: dir, cap: capacity, bs: &bstore{kv: map[string]map[string][]byte{}},
		cur: &atomic.Pointer[gen]{}}
	for i := 0; i < nns; i++ {
		n.nss = append(n.nss, fmt.Sprintf("n%d", i+1))
	}
	for i := 0; i < nd; i++ {
		b := make([]byte, 24)
		seedBytes(b)
		sum := sha256.Sum256(b)
		n.blobs = append(n.blobs, blob{id: fmt.Sprintf("d%d", i+1), data: b, hex: hex.EncodeToString(sum[:])})
	}
	// file ages: the store and the server run on a mock clock far ahead of the real modification times
	n.clk = clock.NewMock()
	n.clk.Set(time.Now().Add(1000 * time.Hour))
	klog.SetGlobalLogger(zap.New(logGate{n.cur}).Sugar())
	if err := n.boot(); err != nil {
		n.destroy()
		return nil, err
	}
	return n, nil
}

func (n *node) mgrConfig() persistedretry.Config {
	return persistedretry.Config{
		IncomingBuffer: 64, RetryBuffer: 64,
		NumIncomingWorkers: 1, NumRetryWorkers: 1,
		MaxTaskThroughput:   200 * time.Microsecond,
		RetryInterval:       time.Nanosecond,
		PollRetriesInterval: 2 * time.Millisecond,
		SyncRetryBackoff: httputil.ExponentialBackOffConfig{
			Enabled: true, InitialInterval: time.Millisecond, RandomizationFactor: 0.05, Multiplier: 1.5,
			MaxInterval: 3 * time.Millisecond, MaxRetries: maxTries - 1,
		},
		WorkqueueMetricsEmitInterval: time.Hour,
	}
}

// boot starts one life of the origin process on the node's directories, sqlite file and backends.
func (n *node) boot() error {
	g := &gen{c: n.c, wgid: map[int64]string{}, parked: map[string]*event{}, finder: map[int64]bool{}}
	off := store.CleanupConfig{Disabled: true}
	cas, casClose := store.CAStoreFixtureWithClock(store.CAStoreConfig{
		UploadDir: filepath.Join(n.dir, "upload"), CacheDir: filepath.Join(n.dir, "cache"),
		Capacity: n.cap, UploadCleanup: off, CacheCleanup: off}, n.clk)
	db, err := localdb.New(localdb.Config{Source: filepath.Join(n.dir, "db", "tasks.db")})
	if err != nil {
		casClose()
		return err
	}
	bm := backend.ManagerFixture()
	for _, ns := range n.nss {
		if err := bm.Register("^"+ns+"$", &genClient{g: g, ns: ns, s: n.bs}, false); err != nil {
			return err
		}
	}
	wbs := writeback.NewStore(db)
	ex := writeback.NewExecutor(tally.NoopScope, &gfs{g: g, cas: cas}, bm)
	// wiring of origin/cmd: a tree with the candidate repair F31b gives the executor access to the task table
	if m := reflect.ValueOf(ex).MethodByName("WithTaskFinder"); m.IsValid() && m.Type().NumIn() == 1 &&
		reflect.TypeOf(&gfinder{}).AssignableTo(m.Type().In(0)) {
		m.Call([]reflect.Value{reflect.ValueOf(&gfinder{g: g, s: wbs})})
	}
	mgr, err := persistedretry.NewManager(n.mgrConfig(), tally.NoopScope, &gstore{g: g, s: wbs}, ex)
	if err != nil {
		return err
	}
	mg := metainfogen.Fixture(cas, 8)
	br := blobrefresh.New(blobrefresh.Config{}, tally.NoopScope, cas, bm, mg)
	srv, err := blobserver.New(blobserver.Config{}, tally.NoopScope, n.clk, selfAddr, &gring{g}, cas, noClients{}, noClusters{},
		core.PeerContextFixture(), bm, br, mg, &gmgr{g: g, m: mgr})
	if err != nil {
		return err
	}
	n.g, n.db, n.cas, n.casClose, n.mgr = g, db, cas, casClose, mgr
	n.cur.Store(g)
	n.srv = httptest.NewServer(srv.Handler())
	n.srv.Config.SetKeepAlivesEnabled(false)
	n.cl = &http.Client{Timeout: 5 * time.Minute, Transport: &http.Transport{DisableKeepAlives: true}}
	return nil
}

// halt kills the current life: every goroutine parked at a gate is released with "abort" (handlers die there,
// workers and the poller see errors from every dependency and exit), nothing touches disk or sqlite afterwards.
// wait is called with the number of HTTP requests still in flight and must consume their "done" events.
func (n *node) halt(drain func()) {
	g := n.g
	g.dead.Store(true)
	n.cur.Store(nil)
	for _, e := range g.parked {
		e.reply <- "abort"
	}
	g.parked = map[string]*event{}
	closed := make(chan struct{})
	go func() { n.mgr.Close(); close(closed) }()
	drain()
	for done := false; !done; {
		select {
		case e := <-n.c.evc: // late arrivals of the dying generation
			if e.kind == "park" {
				e.reply <- "abort"
			}
		case <-closed:
			done = true
		}
	}
	n.srv.Close()
	n.casClose()
	n.db.Close()
}

func (n *node) destroy() {
	klog.SetGlobalLogger(zap.NewNop().Sugar())
	os.RemoveAll(n.dir)
}

// ---- observations from outside the node

func (n *node) blobDir(b blob) string {
	return filepath.Dir(filepath.Join(n.dir, "cache", base.NewCASFileEntryFactory().GetRelativePath(b.hex)))
}

type obs struct {
	cache, pers, meta []string
	tasks             [][]string // [namespace, blob, status]
	bk                [][]string // [namespace, blob]
}

func (n *node) observe() obs {
	o := obs{cache: []string{}, pers: []string{}, meta: []string{}, tasks: [][]string{}, bk: [][]string{}}
	idOf := map[string]string{}
	for _, b := range n.blobs {
		idOf[b.hex] = b.id
		dir := n.blobDir(b)
		if data, err := os.ReadFile(filepath.Join(dir, "data")); err == nil {
			sum := sha256.Sum256(data)
			if hex.EncodeToString(sum[:]) == b.hex {
				o.cache = append(o.cache, b.id)
			} else {
				o.cache = append(o.cache, b.id+"-corrupt")
			}
		}
		if p, err := os.ReadFile(filepath.Join(dir, "_persist")); err == nil && string(p) == "true" {
			o.pers = append(o.pers, b.id)
		}
		if _, err := os.Stat(filepath.Join(dir, "_torrentmeta")); err == nil {
			o.meta = append(o.meta, b.id)
		}
	}
	var rows []struct {
		Namespace string `db:"namespace"`
		Name      string `db:"name"`
		Status    string `db:"status"`
	}
	if err := n.db.Select(&rows, `SELECT namespace, name, status FROM writeback_task ORDER BY namespace, name`); err != nil {
		o.tasks = append(o.tasks, []string{"err", "err", "err"})
	}
	for _, r := range rows {
		id := idOf[r.Name]
		if id == "" {
			id = "other"
		}
		o.tasks = append(o.tasks, []string{r.Namespace, id, r.Status})
	}
	n.bs.mu.Lock()
	for _, ns := range n.nss {
		for _, b := range n.blobs {
			if v, ok := n.bs.kv[ns][b.hex]; ok {
				if bytes.Equal(v, b.data) {
					o.bk = append(o.bk, []string{ns, b.id})
				} else {
					o.bk = append(o.bk, []string{ns, b.id + "-corrupt"})
				}
			}
		}
	}
	n.bs.mu.Unlock()
	sort.Strings(o.cache)
	return o
}
