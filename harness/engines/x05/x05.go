// Package x05 records histories of the agent's and the proxy's front-door HTTP APIs (extension module X05):
// the real agentserver.Server / proxyserver.Server handlers are driven through Handler().ServeHTTP with faked
// dependencies (scheduler, tag client, announce client, container runtimes, origin cluster client) that block at
// gates or answer from a seeded script; the CA download store of the agent is the real one.
//
// Agent traces (default trace specification AgentServerTrace) and proxy traces (cfg.tracespec = "proxy",
// ProxyServerTrace) alternate.  The driver never judges: it logs what the client and the dependencies saw.
package x05

import (
	"fmt"
	"math/rand"
	"os"

	"kvh/internal/eng"
)

func init() { eng.Register("x05", run) }

func run(c *eng.Ctx) error {
	n := c.N(260, 2000)
	root, err := os.MkdirTemp("", "kvh-x05-")
	if err != nil {
		return err
	}
	defer os.RemoveAll(root)
	c.Traces(n, func(t int, rng *rand.Rand) {
		dir := fmt.Sprintf("%s/t%d", root, t)
		defer os.RemoveAll(dir)
		switch {
		case t == 0:
			agentTrace(c, t, rng, dir, "cfgload")
		case t == 1:
			proxyTrace(c, t, rng, "nil_target")
		case t%2 == 0:
			agentTrace(c, t, rng, dir, "random")
		default:
			proxyTrace(c, t, rng, "random")
		}
	})
	return nil
}
