package x05

import (
	"bytes"
	"context"
	"crypto/sha256"
	"encoding/hex"
	"encoding/json"
	"errors"
	"fmt"
	"math/rand"
	"net/http"
	"net/http/httptest"
	"net/url"
	"os"
	"strings"
	"sync"
	"time"

	"github.com/uber-go/tally"
	"gopkg.in/yaml.v2"

	"github.com/uber/kraken/agent/agentserver"
	"github.com/uber/kraken/build-index/tagclient"
	"github.com/uber/kraken/core"
	"github.com/uber/kraken/lib/containerruntime/containerd"
	"github.com/uber/kraken/lib/containerruntime/dockerdaemon"
	"github.com/uber/kraken/lib/store"
	"github.com/uber/kraken/lib/torrent/scheduler"
	"github.com/uber/kraken/lib/torrent/scheduler/connstate"
	"github.com/uber/kraken/tracker/announceclient"

	"kvh/internal/eng"
)

const ttlUnit = time.Hour // one abstract clock unit of the readiness cache

// note is what a parked or finished handler goroutine tells the driver.
type note struct {
	kind string // "sched" | "serving" | "done"
	call *schedCall
	req  *dlReq
}

type schedCall struct {
	ns  string
	d   core.Digest
	ret chan error
}

// fakeSched is the scheduler the agent server talks to. Download parks at a gate; the other calls answer from
// fields the driver sets before issuing the request.
type fakeSched struct {
	notes     chan note
	cads      *store.CADownloadStore
	removeErr error
	removed   []core.Digest
	probeErr  error
	probes    int
	snapErr   error
	snapshots int
	reloads   []int
	mu        sync.Mutex
}

func (s *fakeSched) Stop() {}
func (s *fakeSched) Download(ns string, d core.Digest) error {
	c := &schedCall{ns: ns, d: d, ret: make(chan error, 1)}
	s.notes <- note{kind: "sched", call: c}
	return <-c.ret
}
func (s *fakeSched) BlacklistSnapshot() ([]connstate.BlacklistedConn, error) {
	s.mu.Lock()
	defer s.mu.Unlock()
	s.snapshots++
	if s.snapErr != nil {
		return nil, s.snapErr
	}
	return []connstate.BlacklistedConn{{PeerID: core.PeerIDFixture(), InfoHash: core.InfoHashFixture(), Remaining: time.Second}}, nil
}
func (s *fakeSched) RemoveTorrent(d core.Digest) error {
	s.mu.Lock()
	defer s.mu.Unlock()
	s.removed = append(s.removed, d)
	if s.removeErr != nil {
		return s.removeErr
	}
	// like the real scheduler: the torrent is removed from the archive, i.e. deleted from the store in any state
	if err := s.cads.Any().DeleteFile(d.Hex()); err != nil && !os.IsNotExist(err) {
		return err
	}
	return nil
}
func (s *fakeSched) Probe() error {
	s.mu.Lock()
	defer s.mu.Unlock()
	s.probes++
	return s.probeErr
}
func (s *fakeSched) Reload(config scheduler.Config) {
	s.mu.Lock()
	defer s.mu.Unlock()
	s.reloads = append(s.reloads, config.ConnState.MaxOpenConnectionsPerTorrent)
}

type fakeTags struct {
	tagclient.Client // unimplemented calls panic (logged as an unexplained event)
	mu               sync.Mutex
	gets             []string
	getErr           error
	getDigest        core.Digest
	readyErr         error
	readies          int
}

func (f *fakeTags) Get(tag string) (core.Digest, error) {
	f.mu.Lock()
	defer f.mu.Unlock()
	f.gets = append(f.gets, tag)
	return f.getDigest, f.getErr
}
func (f *fakeTags) CheckReadiness() error {
	f.mu.Lock()
	defer f.mu.Unlock()
	f.readies++
	return f.readyErr
}

type fakeAnnounce struct {
	announceclient.Client
	mu       sync.Mutex
	readyErr error
	readies  int
}

func (f *fakeAnnounce) CheckReadiness() error {
	f.mu.Lock()
	defer f.mu.Unlock()
	f.readies++
	return f.readyErr
}

type fakeRuntime struct {
	mu    sync.Mutex
	err   error
	calls [][]string
}
type fakeDocker struct{ rt *fakeRuntime }
type fakeContainerd struct{ rt *fakeRuntime }

func (f *fakeRuntime) DockerClient() dockerdaemon.DockerClient { return fakeDocker{f} }
func (f *fakeRuntime) ContainerdClient() containerd.Client     { return fakeContainerd{f} }
func (d fakeDocker) PullImage(ctx context.Context, repo, tag string) error {
	d.rt.mu.Lock()
	defer d.rt.mu.Unlock()
	d.rt.calls = append(d.rt.calls, []string{"docker", "", repo, tag})
	return d.rt.err
}
func (d fakeContainerd) PullImage(ctx context.Context, ns, repo, tag string) error {
	d.rt.mu.Lock()
	defer d.rt.mu.Unlock()
	d.rt.calls = append(d.rt.calls, []string{"containerd", ns, repo, tag})
	return d.rt.err
}

// gateWriter is the ResponseWriter of a download request: the first Write parks until the driver lets the body flow
// (or makes the client "go away": every Write fails).
type gateWriter struct {
	req     *dlReq
	notes   chan note
	hdr     http.Header
	status  int
	body    bytes.Buffer
	started bool
	fail    bool
	release chan bool
}

func (w *gateWriter) Header() http.Header { return w.hdr }
func (w *gateWriter) WriteHeader(code int) {
	if w.status == 0 {
		w.status = code
	}
}
func (w *gateWriter) Write(p []byte) (int, error) {
	if !w.started {
		w.started = true
		if w.status < 400 { // a body (not the text of an error status written by handler.Wrap) starts to flow
			w.notes <- note{kind: "serving", req: w.req}
			w.fail = <-w.release
		}
	}
	if w.fail {
		return 0, errors.New("write failed: client disconnected")
	}
	if w.status == 0 {
		w.status = 200
	}
	return w.body.Write(p)
}

type dlReq struct {
	r     string
	d     int
	w     *gateWriter
	call  *schedCall // parked scheduler call, if any
	phase string     // "sched" | "serving"
	panic bool
}

type agentEnv struct {
	c      *eng.Ctx
	rng    *rand.Rand
	dir    string
	cads   *store.CADownloadStore
	sched  *fakeSched
	tags   *fakeTags
	ac     *fakeAnnounce
	rt     *fakeRuntime
	srv    *agentserver.Server
	h      http.Handler
	notes  chan note
	blobs  [][]byte
	digs   []core.Digest
	state  []string // generator's view of the store: absent | partial | cached (preconditions of Env* only)
	reqs   map[string]*dlReq
	broken bool
}

func dname(i int) string { return fmt.Sprintf("d%d", i+1) }

// openFDs counts the file descriptors of this process that point below dir (open readers of the store).
func openFDs(dir string) int {
	ents, err := os.ReadDir("/proc/self/fd")
	if err != nil {
		return -1
	}
	n := 0
	for _, e := range ents {
		if l, err := os.Readlink("/proc/self/fd/" + e.Name()); err == nil && strings.HasPrefix(l, dir+"/") {
			n++
		}
	}
	return n
}

func (a *agentEnv) wait() (note, bool) {
	select {
	case nt := <-a.notes:
		return nt, true
	case <-time.After(30 * time.Second):
		a.c.W.Ev("Stuck", "what", "no handler progress within 30s")
		a.broken = true
		return note{}, false
	}
}

// after a kick of request q: log where its handler parked next, or its return
func (a *agentEnv) settle(q *dlReq) {
	nt, ok := a.wait()
	if !ok {
		return
	}
	switch nt.kind {
	case "sched":
		q.call, q.phase = nt.call, "sched"
		a.c.W.Ev("SchedDl", "r", q.r, "d", a.digestName(nt.call.d), "ns", nt.call.ns)
	case "serving":
		q.phase = "serving"
		a.c.W.Ev("Serving", "r", nt.req.r, "fds", openFDs(a.dir))
	case "done":
		q = nt.req
		delete(a.reqs, q.r)
		st := q.w.status
		if st == 0 {
			st = 200
		}
		if q.panic {
			st = -1
		}
		sum := sha256.Sum256(q.w.body.Bytes())
		a.c.W.Ev("DlRet", "r", q.r, "status", st, "bodyok", hex.EncodeToString(sum[:]) == a.digs[q.d].Hex(),
			"wfail", q.w.fail, "fds", openFDs(a.dir))
	}
}

func (a *agentEnv) digestName(d core.Digest) string {
	for i, x := range a.digs {
		if x == d {
			return dname(i)
		}
	}
	return "unknown"
}

func (a *agentEnv) serve(w http.ResponseWriter, method, target string, body []byte) (panicked bool) {
	defer func() {
		if r := recover(); r != nil {
			panicked = true
		}
	}()
	req := httptest.NewRequest(method, target, bytes.NewReader(body))
	a.h.ServeHTTP(w, req)
	return false
}

func (a *agentEnv) do(method, target string, body []byte) (int, []byte) {
	rec := httptest.NewRecorder()
	if a.serve(rec, method, target, body) {
		return -1, nil
	}
	return rec.Code, rec.Body.Bytes()
}

func (a *agentEnv) startDownload(r string, d int, ns string) {
	q := &dlReq{r: r, d: d}
	q.w = &gateWriter{req: q, notes: a.notes, hdr: http.Header{}, release: make(chan bool, 1)}
	a.reqs[r] = q
	form := a.digs[d].String()
	if a.rng.Intn(2) == 0 {
		form = a.digs[d].Hex() // the endpoint accepts a bare hex digest too
	}
	a.c.W.Ev("DlCall", "r", r, "d", dname(d), "ns", ns)
	go func() {
		q.panic = a.serve(q.w, "GET", "/namespace/"+url.PathEscape(ns)+"/blobs/"+form, nil)
		a.notes <- note{kind: "done", req: q}
	}()
	a.settle(q)
}

var schedErrs = map[string]error{
	"notfound": scheduler.ErrTorrentNotFound,
	"timeout":  scheduler.ErrTorrentTimeout,
	"removed":  scheduler.ErrTorrentRemoved,
	"stopped":  scheduler.ErrSchedulerStopped,
	"other":    errors.New("create torrent: disk full"),
}

func (a *agentEnv) envFetch(d int) {
	name := a.digs[d].Hex()
	if a.state[d] == "absent" {
		if err := a.cads.CreateDownloadFile(name, int64(len(a.blobs[d]))); err != nil {
			panic(err)
		}
	}
	rw, err := a.cads.GetDownloadFileReadWriter(name)
	if err != nil {
		panic(err)
	}
	if _, err := rw.Write(a.blobs[d]); err != nil {
		panic(err)
	}
	rw.Close()
	if err := a.cads.MoveDownloadFileToCache(name); err != nil {
		panic(err)
	}
	a.state[d] = "cached"
	a.c.W.Ev("EnvFetch", "d", dname(d))
}

func (a *agentEnv) envPartial(d int) {
	if err := a.cads.CreateDownloadFile(a.digs[d].Hex(), int64(len(a.blobs[d]))); err != nil {
		panic(err)
	}
	a.state[d] = "partial"
	a.c.W.Ev("EnvPartial", "d", dname(d))
}

func (a *agentEnv) envEvict(d int) {
	if err := a.cads.Any().DeleteFile(a.digs[d].Hex()); err != nil {
		panic(err)
	}
	a.state[d] = "absent"
	a.c.W.Ev("EnvEvict", "d", dname(d))
}

func (a *agentEnv) releaseSched(q *dlReq, out string) {
	if out == "ok" && a.state[q.d] != "cached" && a.rng.Intn(8) != 0 {
		a.envFetch(q.d) // the download completed: the blob is committed to the cache (mostly)
	}
	a.c.W.Ev("SchedRet", "r", q.r, "out", out)
	q.phase = ""
	q.call.ret <- schedErrs[out]
	a.settle(q)
}

func (a *agentEnv) releaseWrite(q *dlReq, wfail bool) {
	a.c.W.Ev("Release", "r", q.r, "wfail", wfail)
	q.phase = ""
	q.w.release <- wfail
	a.settle(q)
}

func pick(rng *rand.Rand, xs ...string) string { return xs[rng.Intn(len(xs))] }

func errOf(out string) error {
	if out == "ok" || out == "found" {
		return nil
	}
	return errors.New("dependency failed: " + out)
}

func agentTrace(c *eng.Ctx, t int, rng *rand.Rand, dir, kind string) {
	cads, err := store.NewCADownloadStore(store.CADownloadStoreConfig{DownloadDir: dir + "/download", CacheDir: dir + "/cache"}, tally.NoopScope)
	if err != nil {
		panic(err)
	}
	defer cads.Close()
	a := &agentEnv{c: c, rng: rng, dir: dir, cads: cads, notes: make(chan note, 16), reqs: map[string]*dlReq{}}
	const nd = 3
	for i := 0; i < nd; i++ {
		b := make([]byte, 1+rng.Intn(5000))
		rng.Read(b)
		sum := sha256.Sum256(b)
		d, err := core.NewSHA256DigestFromHex(hex.EncodeToString(sum[:]))
		if err != nil {
			panic(err)
		}
		a.blobs, a.digs, a.state = append(a.blobs, b), append(a.digs, d), append(a.state, "absent")
	}
	a.sched = &fakeSched{notes: a.notes, cads: cads}
	a.tags, a.ac, a.rt = &fakeTags{}, &fakeAnnounce{}, &fakeRuntime{}
	ttl := []int{0, 0, 1, 2, 3}[rng.Intn(5)]
	cfg := agentserver.VerifConfig(time.Duration(ttl) * ttlUnit)

	if kind == "cfgload" {
		// the documented way to set the TTL: agentserver.Config is part of the agent's YAML configuration
		ttl = 2
		c.W.Reset(t, map[string]any{"kind": kind, "ttl": 0})
		cfg = agentserver.Config{}
		if err := yaml.Unmarshal([]byte(fmt.Sprintf("readiness_cache_ttl: %dh\n", ttl)), &cfg); err != nil {
			panic(err)
		}
		c.W.Ev("CfgLoad", "ttl", ttl, "seen", int(agentserver.VerifReadinessTTL(cfg)/ttlUnit))
	} else {
		c.W.Reset(t, map[string]any{"kind": kind, "ttl": ttl})
	}
	a.srv = agentserver.New(cfg, tally.NoopScope, cads, a.sched, a.tags, a.ac, a.rt)
	a.h = a.srv.Handler()

	slots := []string{"r1", "r2", "r3"}
	steps := 25 + rng.Intn(35)
	if kind == "cfgload" {
		a.ready([]string{"ok", "ok", "ok"})
		a.ready([]string{"err", "ok", "ok"})
		a.c.W.Ev("Tick", "k", 2)
		a.srv.VerifAgeLastReady(2 * ttlUnit)
		a.ready([]string{"err", "ok", "ok"})
		steps = 0
	}
	for s := 0; s < steps && !a.broken; s++ {
		switch k := rng.Intn(100); {
		case k < 22: // new download request
			var free []string
			for _, r := range slots {
				if a.reqs[r] == nil {
					free = append(free, r)
				}
			}
			if len(free) == 0 {
				continue
			}
			if rng.Intn(12) == 0 {
				raw := pick(rng, "sha256:abc", "xyz", a.digs[0].Hex()[:63], "sha1:"+a.digs[0].Hex(), a.digs[0].Hex()+"0")
				st, _ := a.do("GET", "/namespace/n1/blobs/"+url.PathEscape(raw), nil)
				c.W.Ev("DlBad", "status", st, "fds", openFDs(dir))
				continue
			}
			a.startDownload(free[rng.Intn(len(free))], rng.Intn(nd), pick(rng, "n1", "n2", "team/repo"))
		case k < 50: // let a parked request advance
			var parked []*dlReq
			for _, r := range slots {
				if q := a.reqs[r]; q != nil {
					parked = append(parked, q)
				}
			}
			if len(parked) == 0 {
				continue
			}
			q := parked[rng.Intn(len(parked))]
			if q.phase == "sched" {
				a.releaseSched(q, pick(rng, "ok", "ok", "ok", "ok", "notfound", "notfound", "timeout", "removed", "stopped", "other"))
			} else {
				a.releaseWrite(q, rng.Intn(6) == 0)
			}
		case k < 62: // environment: the store changes under the handlers
			d := rng.Intn(nd)
			switch a.state[d] {
			case "absent":
				if rng.Intn(2) == 0 {
					a.envFetch(d)
				} else {
					a.envPartial(d)
				}
			case "partial":
				if rng.Intn(2) == 0 {
					a.envFetch(d)
				} else {
					a.envEvict(d)
				}
			default:
				a.envEvict(d)
			}
		case k < 72: // DELETE
			if rng.Intn(8) == 0 {
				a.sched.removed = nil
				st, _ := a.do("DELETE", "/blobs/"+pick(rng, "nothex", "sha256:12", a.digs[1].Hex()[:10]), nil)
				c.W.Ev("DeleteBad", "status", st, "calls", a.removedNames())
				continue
			}
			d := rng.Intn(nd)
			out := pick(rng, "ok", "ok", "ok", "stopped", "err")
			a.sched.removeErr, a.sched.removed = nil, nil
			if out == "stopped" {
				a.sched.removeErr = scheduler.ErrSchedulerStopped
			} else if out == "err" {
				a.sched.removeErr = errors.New("delete torrent: i/o error")
			}
			st, _ := a.do("DELETE", "/blobs/"+a.digs[d].String(), nil)
			if out == "ok" {
				a.state[d] = "absent"
			}
			c.W.Ev("Delete", "d", dname(d), "out", out, "status", st, "calls", a.removedNames(), "fds", openFDs(dir))
		case k < 77: // tag lookup
			tag := pick(rng, "repo/img:v1", "img:latest", "a b/c%d:1")
			out := pick(rng, "found", "found", "notfound", "err")
			a.tags.gets, a.tags.getErr, a.tags.getDigest = nil, nil, a.digs[rng.Intn(nd)]
			if out == "notfound" {
				a.tags.getErr = tagclient.ErrTagNotFound
			} else if out == "err" {
				a.tags.getErr = errors.New("build-index unavailable")
			}
			st, body := a.do("GET", "/tags/"+url.PathEscape(tag), nil)
			calls := append([]string{}, a.tags.gets...)
			c.W.Ev("GetTag", "tag", tag, "out", out, "status", st, "calls", calls, "bodyok", string(body) == a.tags.getDigest.String())
		case k < 81:
			out := pick(rng, "ok", "err")
			a.sched.probes, a.sched.probeErr = 0, errOf(out)
			st, body := a.do("GET", "/health", nil)
			c.W.Ev("Health", "out", out, "status", st, "probes", a.sched.probes, "bodyok", string(body) == "OK")
		case k < 84:
			out := pick(rng, "ok", "err")
			a.sched.snapshots, a.sched.snapErr = 0, errOf(out)
			st, body := a.do("GET", "/x/blacklist", nil)
			var got []connstate.BlacklistedConn
			c.W.Ev("Blacklist", "out", out, "status", st, "snapshots", a.sched.snapshots,
				"bodyok", json.Unmarshal(body, &got) == nil && len(got) == 1)
		case k < 89: // preload
			parts := [][]string{{"repo/a", "v1"}, {"img", "latest"}, {"img"}, {"reg", "5000/img", "v1"}}[rng.Intn(4)]
			rtArg := pick(rng, "", "docker", "containerd", "containerd", "rkt")
			ns := pick(rng, "", "k8s.io")
			out := pick(rng, "ok", "ok", "err")
			a.rt.calls, a.rt.err = nil, errOf(out)
			q := url.Values{}
			if rtArg != "" {
				q.Set("runtime", rtArg)
			}
			if ns != "" {
				q.Set("namespace", ns)
			}
			st, _ := a.do("GET", "/preload/tags/"+url.PathEscape(strings.Join(parts, ":"))+"?"+q.Encode(), nil)
			calls := [][]string{}
			calls = append(calls, a.rt.calls...)
			c.W.Ev("Preload", "parts", parts, "rt", rtArg, "ns", ns, "out", out, "status", st, "calls", calls)
		case k < 92: // patch scheduler config
			a.sched.reloads = nil
			val := 1 + rng.Intn(50)
			kind, body := "json", []byte(fmt.Sprintf(`{"ConnState":{"MaxOpenConnectionsPerTorrent":%d}}`, val))
			if rng.Intn(3) == 0 {
				kind, body = "bad", []byte(pick(rng, "{not json", "", `{"ConnState":7}`))
			}
			st, _ := a.do("PATCH", "/x/config/scheduler", body)
			calls := append([]int{}, a.sched.reloads...)
			c.W.Ev("Patch", "kind", kind, "val", val, "status", st, "calls", calls)
		case k < 97:
			outs := []string{pick(rng, "ok", "ok", "ok", "err"), pick(rng, "ok", "ok", "ok", "err"), pick(rng, "ok", "ok", "ok", "err")}
			a.ready(outs)
		case k < 98:
			k := 1 + rng.Intn(3)
			a.srv.VerifAgeLastReady(time.Duration(k) * ttlUnit)
			c.W.Ev("Tick", "k", k)
		default: // readiness burst: a successful check, then checks at small ages (fresh, sliding, expired)
			a.ready([]string{"ok", "ok", "ok"})
			for i := 0; i < 3; i++ {
				k := 1 + rng.Intn(2)
				a.srv.VerifAgeLastReady(time.Duration(k) * ttlUnit)
				c.W.Ev("Tick", "k", k)
				a.ready([]string{pick(rng, "ok", "err"), pick(rng, "ok", "ok", "err"), pick(rng, "ok", "ok", "err")})
			}
		}
	}
	// drain: every parked request is released and answered
	for guard := 0; len(a.reqs) > 0 && !a.broken && guard < 20; guard++ {
		for _, r := range slots {
			if q := a.reqs[r]; q != nil {
				if q.phase == "sched" {
					a.releaseSched(q, pick(rng, "ok", "ok", "notfound", "other"))
				} else {
					a.releaseWrite(q, false)
				}
				break
			}
		}
	}
	if !a.broken {
		c.W.Ev("Quiesce", "inflight", len(a.reqs), "fds", openFDs(dir))
	}
}

func (a *agentEnv) removedNames() []string {
	out := []string{}
	for _, d := range a.sched.removed {
		out = append(out, a.digestName(d))
	}
	return out
}

func (a *agentEnv) ready(outs []string) {
	a.sched.probes, a.tags.readies, a.ac.readies = 0, 0, 0
	a.sched.probeErr, a.tags.readyErr, a.ac.readyErr = errOf(outs[0]), errOf(outs[1]), errOf(outs[2])
	st, body := a.do("GET", "/readiness", nil)
	probes := []string{}
	for i := 0; i < a.sched.probes; i++ {
		probes = append(probes, "sched")
	}
	for i := 0; i < a.tags.readies; i++ {
		probes = append(probes, "tags")
	}
	for i := 0; i < a.ac.readies; i++ {
		probes = append(probes, "tracker")
	}
	a.c.W.Ev("Ready", "outs", outs, "status", st, "probes", probes, "bodyok", string(body) == "OK")
}
