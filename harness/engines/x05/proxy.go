package x05

import (
	"bytes"
	"context"
	"encoding/json"
	"errors"
	"fmt"
	"io"
	"math/rand"
	"net/http/httptest"
	"net/url"
	"runtime"
	"strings"
	"sync"
	"time"

	"github.com/c2h5oh/datasize"
	"github.com/uber-go/tally"

	"github.com/uber/kraken/build-index/tagclient"
	"github.com/uber/kraken/core"
	"github.com/uber/kraken/origin/blobclient"
	"github.com/uber/kraken/proxy/proxyserver"
	"github.com/uber/kraken/utils/httputil"

	"kvh/internal/eng"
)

const (
	sizeUnit   = 1024                // bytes per abstract size unit (manifests are padded to whole units)
	defaultMax = 50 << 30 / sizeUnit // proxyserver.DefaultPrefetchMaxBlobSize in units
	nBlobs     = 12
)

func bname(i int) string { return fmt.Sprintf("b%d", i+1) }

// catalog is the registry content of one trace.
type catalog struct {
	kind  []string
	refs  [][]int
	size  []int // units
	dig   []core.Digest
	bytes [][]byte // manifests / lists / junk only
}

func (cat *catalog) id(d core.Digest) string {
	for i, x := range cat.dig {
		if x == d {
			return bname(i)
		}
	}
	return "unknown"
}

// pad fills a manifest up to whole size units with trailing white space; salt makes equal manifests distinct blobs.
func pad(raw []byte, salt int) []byte {
	raw = append(raw, bytes.Repeat([]byte("\n"), salt)...)
	n := (len(raw)/sizeUnit + 1) * sizeUnit
	return append(raw, bytes.Repeat([]byte(" "), n-len(raw))...)
}

func digestOf(b []byte) core.Digest {
	d, err := core.NewDigester().FromBytes(b)
	if err != nil {
		panic(err)
	}
	return d
}

func genCatalog(rng *rand.Rand) *catalog {
	cat := &catalog{kind: make([]string, nBlobs), refs: make([][]int, nBlobs), size: make([]int, nBlobs),
		dig: make([]core.Digest, nBlobs), bytes: make([][]byte, nBlobs)}
	// b1..b5 layers / configs, b6..b8 manifests, b9 junk, b10 not in the registry, b11..b12 lists
	sizes := []int{0, 1, 1, 2, 5, 100, defaultMax, defaultMax + 1, 2 * defaultMax}
	for i := 0; i < 5; i++ {
		cat.kind[i], cat.size[i], cat.dig[i] = "layer", sizes[rng.Intn(len(sizes))], core.DigestFixture()
	}
	for i := 5; i < 8; i++ {
		oci := rng.Intn(2) == 0
		nref := 1 + rng.Intn(4)
		for j := 0; j < nref; j++ {
			cat.refs[i] = append(cat.refs[i], rng.Intn(5))
		}
		var sb strings.Builder
		if oci {
			sb.WriteString(`{"schemaVersion":2,`)
			if rng.Intn(3) != 0 {
				sb.WriteString(`"mediaType":"application/vnd.oci.image.manifest.v1+json",`)
			}
		} else {
			sb.WriteString(`{"schemaVersion":2,"mediaType":"application/vnd.docker.distribution.manifest.v2+json",`)
		}
		for j, r := range cat.refs[i] {
			mt := "application/vnd.docker.image.rootfs.diff.tar.gzip"
			if oci {
				mt = "application/vnd.oci.image.layer.v1.tar+gzip"
			}
			if j == 0 {
				mt = "application/vnd.docker.container.image.v1+json"
				if oci {
					mt = "application/vnd.oci.image.config.v1+json"
				}
				sb.WriteString(`"config":`)
			} else if j == 1 {
				sb.WriteString(`,"layers":[`)
			} else {
				sb.WriteString(`,`)
			}
			fmt.Fprintf(&sb, `{"mediaType":"%s","size":%d,"digest":"%s"}`, mt, int64(cat.size[r])*sizeUnit, cat.dig[r])
		}
		if nref == 1 {
			sb.WriteString(`,"layers":[`)
		}
		sb.WriteString(`]}`)
		cat.kind[i] = "man"
		cat.bytes[i] = pad([]byte(sb.String()), i)
		cat.size[i] = len(cat.bytes[i]) / sizeUnit
		cat.dig[i] = digestOf(cat.bytes[i])
	}
	cat.kind[8] = "junk"
	cat.bytes[8] = pad([]byte([]string{"this is not a manifest", `{"schemaVersion":1}`,
		`{"schemaVersion":2,"mediaType":"application/x-unknown"}`}[rng.Intn(3)]), 0)
	cat.size[8], cat.dig[8] = len(cat.bytes[8])/sizeUnit, digestOf(cat.bytes[8])
	cat.kind[9], cat.dig[9] = "none", core.DigestFixture()
	for i := 10; i < 12; i++ {
		oci := rng.Intn(2) == 0
		nsub := rng.Intn(4)
		if nsub == 0 && oci {
			nsub = 1 // an OCI index without mediaType and without manifests would be taken for an image manifest
		}
		for j := 0; j < nsub; j++ {
			s := 5 + rng.Intn(3)
			if rng.Intn(10) == 0 {
				s = []int{8, 9, 0}[rng.Intn(3)] // junk, missing or a layer where a manifest should be
			}
			cat.refs[i] = append(cat.refs[i], s)
		}
		var sb strings.Builder
		mt, smt := "application/vnd.docker.distribution.manifest.list.v2+json", "application/vnd.docker.distribution.manifest.v2+json"
		if oci {
			mt, smt = "application/vnd.oci.image.index.v1+json", "application/vnd.oci.image.manifest.v1+json"
		}
		if oci && rng.Intn(3) == 0 {
			sb.WriteString(`{"schemaVersion":2,"manifests":[`)
		} else {
			fmt.Fprintf(&sb, `{"schemaVersion":2,"mediaType":"%s","manifests":[`, mt)
		}
		for j, s := range cat.refs[i] {
			if j > 0 {
				sb.WriteString(",")
			}
			fmt.Fprintf(&sb, `{"mediaType":"%s","size":%d,"digest":"%s","platform":{"architecture":"arch%d","os":"linux"}}`,
				smt, int64(cat.size[s])*sizeUnit, cat.dig[s], j)
		}
		sb.WriteString(`]}`)
		cat.kind[i] = "list"
		cat.bytes[i] = pad([]byte(sb.String()), i)
		cat.size[i] = len(cat.bytes[i]) / sizeUnit
		cat.dig[i] = digestOf(cat.bytes[i])
	}
	return cat
}

func (cat *catalog) cfg() (kind map[string]string, refs map[string][]string, size map[string]int) {
	kind, refs, size = map[string]string{}, map[string][]string{}, map[string]int{}
	for i := 0; i < nBlobs; i++ {
		kind[bname(i)], size[bname(i)] = cat.kind[i], cat.size[i]
		rs := []string{}
		for _, r := range cat.refs[i] {
			rs = append(rs, bname(r))
		}
		refs[bname(i)] = rs
	}
	return
}

// script decides the outcome of every dependency call from the trace's seed, the call kind, the blob and the number of
// earlier calls of that kind for that blob -- never from the order in which concurrent goroutines arrive.
type script struct {
	mu    sync.Mutex
	seed  int64
	count map[string]int
	nf    map[string]int // preheat: how many "not found" answers precede the manifest
	bias  int            // percentage of failing layer calls
}

func (s *script) next(kind, id string) int {
	s.mu.Lock()
	defer s.mu.Unlock()
	k := kind + "/" + id
	n := s.count[k]
	s.count[k] = n + 1
	return n
}

func (s *script) roll(kind, id string, n int) int {
	h := uint64(s.seed)*0x9E3779B97F4A7C15 + uint64(n)*0xBF58476D1CE4E5B9
	for _, ch := range kind + "/" + id {
		h = (h ^ uint64(ch)) * 0x100000001B3
	}
	h ^= h >> 29
	return int(h % 100)
}

type fakeCluster struct {
	blobclient.ClusterClient // unimplemented calls panic
	c                        *eng.Ctx
	cat                      *catalog
	sc                       *script
}

func toErr(out string) error {
	switch out {
	case "ok":
		return nil
	case "notfound":
		return blobclient.ErrBlobNotFound
	case "accepted":
		return httputil.StatusError{Method: "GET", URL: "http://origin/blob", Status: 202}
	}
	return errors.New("all origins unavailable")
}

func (f *fakeCluster) DownloadBlob(ctx context.Context, ns string, d core.Digest, dst io.Writer) error {
	id := f.cat.id(d)
	dk := "other"
	if _, ok := dst.(*bytes.Buffer); ok {
		dk = "buf"
	} else if dst == io.Discard {
		dk = "discard"
	}
	n := f.sc.next("dl-"+dk, id)
	r := f.sc.roll("dl-"+dk, id, n)
	out := "ok"
	var content []byte
	for i, x := range f.cat.dig {
		if x == d {
			content = f.cat.bytes[i]
			if f.cat.kind[i] == "none" {
				out = "notfound"
			}
		}
	}
	if dk == "buf" {
		switch {
		case out == "notfound":
		case n < f.sc.nf[id]:
			out = "notfound"
		case r < 6:
			out = "err"
		case r < 8:
			out = "accepted"
		}
	} else if out == "ok" {
		switch {
		case r < f.sc.bias:
			out = "err"
		case r < 2*f.sc.bias:
			out = "accepted"
		case r < 2*f.sc.bias+3:
			out = "notfound"
		}
	}
	f.c.W.Ev("CDownload", "ns", ns, "d", id, "dst", dk, "out", out)
	if out == "ok" && content != nil {
		dst.Write(content)
	}
	return toErr(out)
}

func (f *fakeCluster) layerOut(kind, id string) string {
	n := f.sc.next(kind, id)
	r := f.sc.roll(kind, id, n)
	switch {
	case r < f.sc.bias:
		return "err"
	case r < 2*f.sc.bias:
		return "accepted"
	}
	return "ok"
}

func (f *fakeCluster) GetMetaInfo(ns string, d core.Digest) (*core.MetaInfo, error) {
	id := f.cat.id(d)
	out := f.layerOut("meta", id)
	f.c.W.Ev("CMeta", "ns", ns, "d", id, "out", out)
	return nil, toErr(out)
}

func (f *fakeCluster) PrefetchBlob(ns string, d core.Digest) error {
	id := f.cat.id(d)
	out := f.layerOut("prefetch", id)
	f.c.W.Ev("CPrefetch", "ns", ns, "d", id, "out", out)
	return toErr(out)
}

type fakeProxyTags struct {
	tagclient.Client
	c   *eng.Ctx
	cat *catalog
	out string // "err" or blob name
}

func (f *fakeProxyTags) Get(tag string) (core.Digest, error) {
	f.c.W.Ev("TagGet", "tag", tag, "out", f.out)
	if f.out == "err" {
		return core.Digest{}, errors.New("build-index: tag lookup failed")
	}
	for i := range f.cat.dig {
		if bname(i) == f.out {
			return f.cat.dig[i], nil
		}
	}
	panic("bad script")
}

func counter(scope tally.TestScope, name string) int {
	for _, c := range scope.Snapshot().Counters() {
		if c.Name() == name {
			return int(c.Value())
		}
	}
	return 0
}

var manifestMTs = []string{
	"application/vnd.docker.distribution.manifest.v2+json",
	"application/vnd.docker.distribution.manifest.v2+json",
	"application/vnd.docker.distribution.manifest.v2+json",
	"application/vnd.docker.distribution.manifest.v1+json",
	"application/vnd.docker.distribution.manifest.v1+prettyjws",
	"application/vnd.docker.distribution.manifest.v2+json; charset=utf-8",
	"application/vnd.oci.image.manifest.v1+json",
	"application/vnd.oci.image.manifest.v1+json",
}
var otherMTs = []string{
	"application/octet-stream",
	"application/vnd.docker.distribution.manifest.list.v2+json",
	"application/vnd.docker.image.rootfs.diff.tar.gzip",
	"application/vnd.oci.image.index.v1+json",
	"application/vnd.docker.container.image.v1+json",
	"text/plain; application/vnd.docker.distribution.manifest.v2+json",
	"",
}

func proxyTrace(c *eng.Ctx, t int, rng *rand.Rand, kind string) {
	cat := genCatalog(rng)
	sync_ := rng.Intn(2) == 0
	min := []int{0, 0, 0, 1, 2, 101}[rng.Intn(6)]
	max := []int{0, 0, 0, 1, 100, defaultMax + 5}[rng.Intn(6)]
	ck, cr, cs := cat.cfg()
	c.W.Reset(t, map[string]any{"tracespec": "proxy", "kind": kind, "sync": sync_, "min": min, "max": max,
		"ckind": ck, "crefs": cr, "csize": cs})
	sc := &script{seed: c.Seed*7919 + int64(t), count: map[string]int{}, nf: map[string]int{}, bias: []int{0, 0, 5, 15, 40}[rng.Intn(5)]}
	cluster := &fakeCluster{c: c, cat: cat, sc: sc}
	tags := &fakeProxyTags{c: c, cat: cat}
	stats := tally.NewTestScope("", nil)
	srv := proxyserver.New(stats, proxyserver.Config{
		PrefetchMinBlobSize: datasize.ByteSize(uint64(min) * sizeUnit),
		PrefetchMaxBlobSize: datasize.ByteSize(uint64(max) * sizeUnit),
	}, cluster, tags, sync_)
	h := srv.Handler()

	serve := func(target string, body []byte) (st int) {
		defer func() {
			if r := recover(); r != nil {
				st = -1
			}
		}()
		rec := httptest.NewRecorder()
		h.ServeHTTP(rec, httptest.NewRequest("POST", target, bytes.NewReader(body)))
		return rec.Code
	}
	// all goroutines spawned by the request are gone when the goroutine count is back at its level before the request
	quiesce := func(base int, failed0 int) {
		deadline := time.Now().Add(60 * time.Second)
		stable := 0
		for stable < 3 {
			if runtime.NumGoroutine() <= base {
				stable++
			} else {
				stable = 0
				if time.Now().After(deadline) {
					c.W.Ev("Stuck", "what", "goroutines of the request still running after 60s")
					return
				}
			}
			time.Sleep(200 * time.Microsecond)
		}
		c.W.Ev("Quiesce", "failed", counter(stats, "prefetch.failed")-failed0)
	}

	nreq := 1 + rng.Intn(3)
	if kind == "nil_target" {
		nreq = 1
	}
	for q := 0; q < nreq; q++ {
		base := runtime.NumGoroutine()
		failed0 := counter(stats, "prefetch.failed")
		for k := range sc.nf {
			delete(sc.nf, k)
		}
		for k := range sc.count {
			delete(sc.count, k)
		}
		sc.seed++
		switch k := rng.Intn(10); {
		case kind == "nil_target" || k < 4: // registry notification
			if kind != "nil_target" && rng.Intn(15) == 0 {
				c.W.Ev("PhCall", "body", "badjson", "events", []any{})
				c.W.Ev("PhRet", "status", serve("/registry/notifications", []byte(`{"events": [`)))
				quiesce(base, failed0)
				continue
			}
			nev := rng.Intn(5)
			if kind == "nil_target" {
				nev = 3
			}
			var evs []proxyserver.Event
			logged := []any{}
			for i := 0; i < nev; i++ {
				action := "push"
				if rng.Intn(6) == 0 {
					action = pick(rng, "pull", "delete", "mount", "")
				}
				mt := manifestMTs[rng.Intn(len(manifestMTs))]
				if rng.Intn(6) == 0 {
					mt = otherMTs[rng.Intn(len(otherMTs))]
				}
				b := 5 + rng.Intn(3)
				if rng.Intn(5) == 0 {
					b = []int{8, 9, 0, 10, 11}[rng.Intn(5)]
				}
				ns := pick(rng, "n1", "n1", "n2")
				dstr, dn := cat.dig[b].String(), bname(b)
				if rng.Intn(12) == 0 {
					dstr, dn = pick(rng, cat.dig[b].Hex(), "sha256:12ab", "", "md5:"+cat.dig[b].Hex()), "bad"
				}
				if rng.Intn(12) == 0 {
					sc.nf[dn] = 1 + rng.Intn(4) // the manifest becomes visible late (or too late: 4)
				}
				ev := proxyserver.Event{ID: fmt.Sprint(i), TimeStamp: time.Unix(1700000000, 0), Action: action,
					Target: &proxyserver.Target{MediaType: mt, Digest: dstr, Repository: ns, Tag: "v1"}}
				hasTarget := true
				if kind == "nil_target" && i == 1 {
					ev.Target, hasTarget = nil, false
					mt, dn, ns = "", "none", "none"
				}
				evs = append(evs, ev)
				logged = append(logged, map[string]any{"action": action, "mt": mt, "ns": ns, "d": dn, "target": hasTarget})
			}
			body, err := json.Marshal(proxyserver.Notification{Events: evs})
			if err != nil {
				panic(err)
			}
			c.W.Ev("PhCall", "body", "ok", "events", logged)
			c.W.Ev("PhRet", "status", serve("/registry/notifications", body))
			quiesce(base, failed0)
		case k < 9: // prefetch
			v := pick(rng, "v1", "v2")
			ns := pick(rng, "n1", "n2")
			name := pick(rng, "img:v1", "my img:1.0+x", "img")
			bodyKind, tag := "ok", "registry.local:5000/"+ns+"/"+name
			switch rng.Intn(14) {
			case 0:
				bodyKind = "badjson"
			case 1:
				bodyKind, tag = "badtag", pick(rng, "invalid", ns+"/"+name, "")
			}
			body, _ := json.Marshal(map[string]string{"tag": tag, "trace_id": "abc"})
			if bodyKind == "badjson" {
				body = []byte(pick(rng, "", "{", `["tag"]`))
			}
			top := 5 + rng.Intn(3)
			if rng.Intn(2) == 0 {
				top = 10 + rng.Intn(2)
			}
			if rng.Intn(8) == 0 {
				top = []int{8, 9, 0}[rng.Intn(3)]
			}
			tags.out = bname(top)
			if rng.Intn(12) == 0 {
				tags.out = "err"
			}
			c.W.Ev("PfCall", "v", v, "body", bodyKind, "ns", ns, "tagq", url.QueryEscape(ns+"/"+name))
			c.W.Ev("PfRet", "status", serve("/proxy/"+v+"/registry/prefetch", body))
			quiesce(base, failed0)
		default:
			rec := httptest.NewRecorder()
			h.ServeHTTP(rec, httptest.NewRequest("GET", "/health", nil))
			c.W.Ev("PxHealth", "status", rec.Code, "bodyok", rec.Body.String() == "OK\n")
		}
	}
}
