// Package c14: no input from a remote peer can crash or corrupt a peer (property C14).
//
// Every class of the case grammar in spec/p2p/PeerInput.tla (handshake classes, message classes, short
// sequences on an evolving piece state) is concretised to raw bytes and written on a TCP loopback connection
// to a REAL conn.Handshaker / conn.Conn / dispatch.Dispatcher over a real agent torrent (leeching or complete)
// or origin torrent, next to an honest neighbour whose requests must keep being served.  Per case the driver
// records, without judging: did the process die, how much was allocated (runtime.MemStats.TotalAlloc delta),
// is the attacker's connection closed (Conn.IsClosed), which pieces does the victim hold, what did it send back
// (correct payloads / error messages / piece requests), is the blob file intact, was the neighbour served.
// spec/p2p/PeerInputTrace.tla decides.
//
// A panic on any goroutine kills the process, so the cases run in child processes (kvh c14child) in batches;
// the class in flight is written to a file before the bytes are sent, a dead child is attributed to that class
// and the batch is resumed after the trace.
package c14

import (
	"bytes"
	"encoding/json"
	"fmt"
	"math/rand"
	"net"
	"os"
	"os/exec"
	"path/filepath"
	"runtime"
	"sort"
	"strconv"
	"strings"
	"sync"
	"time"

	"github.com/uber/kraken/core"
	"github.com/uber/kraken/lib/torrent/scheduler/conn"

	"kvh/internal/eng"
)

func init() {
	eng.Register("c14", run)
	eng.Register("c14child", child)
}

type rec map[string]any

// ------------------------------------------------------------------------------------------------ child

type childOut struct {
	f        *os.File
	inflight string
}

func (o *childOut) emit(t int, r rec) {
	r["t"] = t
	b, err := json.Marshal(r)
	if err != nil {
		panic(err)
	}
	if _, err := o.f.Write(append(b, '\n')); err != nil { // unbuffered: survives a crash of this process
		panic(err)
	}
}

func (o *childOut) flight(t int, r rec) {
	b, _ := json.Marshal(rec{"t": t, "rec": r})
	if err := os.WriteFile(o.inflight, b, 0o644); err != nil {
		panic(err)
	}
}

func (o *childOut) landed() { os.Remove(o.inflight) }

func child(c *eng.Ctx) error {
	var ids []int
	for _, s := range strings.Split(os.Getenv("KVH_C14_IDS"), ",") {
		if s == "" {
			continue
		}
		n, err := strconv.Atoi(s)
		if err != nil {
			return err
		}
		ids = append(ids, n)
	}
	pl := plan(c.Seed, c.Tier)
	f, err := os.OpenFile(filepath.Join(c.Out, "results.ndjson"), os.O_CREATE|os.O_APPEND|os.O_WRONLY, 0o644)
	if err != nil {
		return err
	}
	defer f.Close()
	out := &childOut{f: f, inflight: filepath.Join(c.Out, "inflight")}
	for _, id := range ids {
		if id < 0 || id >= len(pl) {
			return fmt.Errorf("trace id %d outside the plan (%d traces)", id, len(pl))
		}
		os.WriteFile(filepath.Join(c.Out, "current"), []byte(strconv.Itoa(id)), 0o644)
		if err := runTrace(pl[id], out); err != nil {
			return fmt.Errorf("trace %d: %v", id, err)
		}
	}
	os.Remove(filepath.Join(c.Out, "current"))
	return nil
}

type session struct {
	ts    traceSpec
	out   *childOut
	rng   *rand.Rand
	v     *victim
	hon   *peer
	att   *peer
	vc    *conn.Conn // the victim's end of the attacker's connection
	probe []int      // pieces the honest neighbour asks for
}

func hsRec(h hsCase) rec {
	return rec{"ev": "Handshake", "dir": h.Dir, "typ": h.Typ, "body": h.Body, "pid": h.Pid, "ih": h.Ih, "name": h.Name,
		"bits": h.Bits, "rb": h.Rb}
}

func msgRec(c msgCase, pi int, have []int) rec {
	return rec{"ev": "Msg", "typ": c.Typ, "body": c.Body, "idx": c.Idx, "off": c.Off, "len": c.Len, "data": c.Data,
		"code": c.Code, "fin": c.Fin, "pi": pi, "have": have}
}

func totalAlloc() uint64 {
	var m runtime.MemStats
	runtime.ReadMemStats(&m)
	return m.TotalAlloc
}

func runTrace(ts traceSpec, out *childOut) error {
	root, err := os.MkdirTemp("", "kvh-c14-")
	if err != nil {
		return err
	}
	s := &session{ts: ts, out: out, rng: rand.New(rand.NewSource(ts.Seed))}
	s.v, err = newVictim(root, ts.Kind, ts.Have0, ts.Seed)
	if err != nil {
		os.RemoveAll(root)
		return err
	}
	defer s.v.close()
	for _, i := range ts.Have0 { // never the last piece: the neighbour's bitfield never becomes complete
		if i != nPieces-1 {
			s.probe = append(s.probe, i)
		}
	}
	out.emit(ts.ID, rec{"ev": "reset", "cfg": rec{"kind": ts.Kind, "n": nPieces, "have0": ts.Have0, "known": ts.Known, "group": ts.Group}})

	// the honest neighbour: a leecher without pieces that keeps asking for pieces the victim holds
	hp, _, _, err := s.connect(hc("in", "bitfield", "present", "ok", "ok", "ok", "exact_none", "none"), nil)
	if err != nil || hp == nil {
		return fmt.Errorf("honest neighbour could not connect: %v", err)
	}
	s.hon = hp
	defer s.hon.close()
	defer func() {
		if s.att != nil {
			s.att.close()
		}
	}()

	for _, st := range ts.Steps {
		switch st.Op {
		case "hangup":
			s.hangup()
		case "hs":
			s.hangup()
			if stuck := s.handshake(st.H); stuck {
				return nil
			}
		case "msg":
			if s.att == nil {
				if st.IfOpen {
					continue
				}
				h := hc([]string{"in", "out"}[s.rng.Intn(2)], "bitfield", "present", "ok", "ok", "ok",
					[]string{"exact_none", "exact_some", "exact_all"}[s.rng.Intn(3)], []string{"none", "ok"}[s.rng.Intn(2)])
				if stuck := s.handshake(h); stuck {
					return nil
				}
				if s.att == nil {
					return nil // a valid handshake was rejected: recorded, the specification rejects the trace
				}
			}
			if stuck := s.message(st.M); stuck {
				return nil
			}
		}
	}
	return nil
}

func (s *session) hangup() {
	if s.att == nil {
		return
	}
	s.att.close()
	for i := 0; i < 2000 && !s.vc.IsClosed(); i++ { // the victim notices the end of the stream
		time.Sleep(time.Millisecond)
	}
	s.att, s.vc = nil, nil
	s.out.emit(s.ts.ID, rec{"ev": "Hangup"})
}

// connect performs one handshake of class h. Returns the remote peer's socket (reader running) and the victim's
// Conn when established. before is called right before the first byte is sent.
func (s *session) connect(h hsCase, before func()) (p *peer, vc *conn.Conn, stuck bool, err error) {
	id, _ := core.RandomPeerID()
	other, _ := core.RandomPeerID()
	data, fin := handshakeBytes(h, s.v, other, id, s.rng)
	var nc *net.TCPConn
	if h.Dir == "in" {
		if nc, err = dialIn(s.v); err != nil {
			return nil, nil, false, err
		}
		if before != nil {
			before()
		}
	} else {
		ln, err := net.ListenTCP("tcp", &net.TCPAddr{IP: net.IPv4(127, 0, 0, 1)})
		if err != nil {
			return nil, nil, false, err
		}
		defer ln.Close()
		if before != nil {
			before()
		}
		go s.v.outgoing(id, s.rng.Intn(2) == 0, ln.Addr().String())
		ln.SetDeadline(time.Now().Add(waitReply))
		if nc, err = ln.AcceptTCP(); err != nil {
			return nil, nil, false, err
		}
		if err := readFrame(nc); err != nil { // the victim's own handshake comes first
			nc.Close()
			return nil, nil, false, err
		}
	}
	nc.SetWriteDeadline(time.Now().Add(waitReply))
	nc.Write(data)
	if fin {
		nc.CloseWrite()
	}
	select {
	case r := <-s.v.results:
		if r.c == nil {
			nc.Close()
			return nil, nil, false, nil
		}
		p = &peer{nc: nc, id: id}
		p.startReader()
		return p, r.c, false, nil
	case <-time.After(waitReply):
		nc.Close()
		return nil, nil, true, nil
	}
}

func (s *session) neighbourServed() bool {
	return s.hon.request(s.probe[s.rng.Intn(len(s.probe))], s.v)
}

func (s *session) handshake(h hsCase) (stuck bool) {
	r := hsRec(h)
	var a0 uint64
	p, vc, stuck, err := s.connect(h, func() {
		s.out.flight(s.ts.ID, r)
		a0 = totalAlloc()
	})
	if err != nil {
		panic(fmt.Sprintf("c14 harness: handshake transport: %v", err))
	}
	alloc := totalAlloc()-a0 > allocLimit
	res := "rejected"
	if p != nil {
		res, s.att, s.vc = "established", p, vc
	}
	r["res"], r["crashed"], r["alloc"], r["stuck"] = res, false, alloc, stuck
	r["blobok"], r["honok"] = s.v.blobOK(), s.neighbourServed()
	s.out.emit(s.ts.ID, r)
	s.out.landed()
	return stuck
}

func (s *session) message(c msgCase) (stuck bool) {
	have := s.v.have()
	pi, ok := concreteIdx(c.Idx, have, s.rng)
	if !ok {
		return false // the class is empty in this piece state
	}
	data := messageBytes(c, pi, s.v, s.rng)
	want := -1
	if c.Typ == "request" {
		want = pi
	}
	r := msgRec(c, pi, have)
	s.out.flight(s.ts.ID, r)
	a0 := totalAlloc()
	o := s.att.exchange(data, c.Fin, want, s.v)
	closed := s.vc.IsClosed()
	for i := 0; o.eof && !closed && i < 2000; i++ {
		time.Sleep(time.Millisecond)
		closed = s.vc.IsClosed()
	}
	if closed && !o.eof && !o.stuck {
		s.att.drain()
	}
	alloc := totalAlloc()-a0 > allocLimit
	connState := "open"
	if closed || o.eof {
		connState = "closed"
		s.att.close()
		s.att, s.vc = nil, nil
	}
	r["conn"], r["have"], r["served"], r["err"], r["badpay"], r["reqs"] = connState, s.v.have(), o.served, o.errs, o.badpay, o.reqs
	r["crashed"], r["alloc"], r["stuck"] = false, alloc, o.stuck
	r["blobok"], r["honok"] = s.v.blobOK(), s.neighbourServed()
	s.out.emit(s.ts.ID, r)
	s.out.landed()
	return o.stuck
}

// ------------------------------------------------------------------------------------------------ parent

func readLines(path string) []rec {
	raw, err := os.ReadFile(path)
	if err != nil {
		return nil
	}
	var out []rec
	for _, ln := range bytes.Split(raw, []byte("\n")) {
		if len(bytes.TrimSpace(ln)) == 0 {
			continue
		}
		var r rec
		if json.Unmarshal(ln, &r) == nil { // a torn last line of a dead child is dropped
			out = append(out, r)
		}
	}
	return out
}

func num(v any) int {
	f, _ := v.(float64)
	return int(f)
}

// crashRecord completes the class in flight with the observation "the process died".
func crashRecord(r rec) rec {
	r["crashed"], r["alloc"], r["stuck"], r["blobok"], r["honok"] = true, false, false, true, true
	if r["ev"] == "Handshake" {
		r["res"] = "rejected"
	} else {
		r["conn"], r["served"], r["err"], r["badpay"], r["reqs"] = "closed", 0, 0, false, []int{}
	}
	return r
}

type worker struct {
	mu      sync.Mutex
	byTrace map[int][]rec
	crashes []string
	spawns  int
}

// runBatch runs trace ids in child processes, resuming after every child that died.
func (w *worker) runBatch(self string, c *eng.Ctx, root string, wid int, ids []int) error {
	for attempt := 0; len(ids) > 0; attempt++ {
		dir := filepath.Join(root, fmt.Sprintf("w%d-%d", wid, attempt))
		if err := os.MkdirAll(dir, 0o755); err != nil {
			return err
		}
		strs := make([]string, len(ids))
		for i, id := range ids {
			strs[i] = strconv.Itoa(id)
		}
		cmd := exec.Command(self, "c14child", "-seed", strconv.FormatInt(c.Seed, 10), "-tier", c.Tier, "-out", dir)
		cmd.Env = append(os.Environ(), "KVH_C14_IDS="+strings.Join(strs, ","), "TMPDIR="+root)
		var outb bytes.Buffer
		cmd.Stdout, cmd.Stderr = &outb, &outb
		if err := cmd.Start(); err != nil {
			return err
		}
		done := make(chan error, 1)
		go func() { done <- cmd.Wait() }()
		var werr error
		select {
		case werr = <-done:
		case <-time.After(20 * time.Minute):
			cmd.Process.Kill()
			<-done
			return fmt.Errorf("child timed out")
		}
		w.mu.Lock()
		w.spawns++
		for _, r := range readLines(filepath.Join(dir, "results.ndjson")) {
			t := num(r["t"])
			w.byTrace[t] = append(w.byTrace[t], r)
		}
		w.mu.Unlock()
		if werr == nil {
			return nil
		}
		text := outb.String()
		if strings.Contains(text, "ENGINE-ERROR") || strings.Contains(text, "c14 harness:") {
			return fmt.Errorf("child failed (not a crash of the code under test):\n%s", tail(text, 3000))
		}
		// the child died: attribute to the class in flight
		cur, err := os.ReadFile(filepath.Join(dir, "current"))
		if err != nil {
			return fmt.Errorf("child died before its first trace:\n%s", tail(text, 3000))
		}
		t, _ := strconv.Atoi(strings.TrimSpace(string(cur)))
		w.mu.Lock()
		if fl := readLines(filepath.Join(dir, "inflight")); len(fl) == 1 && num(fl[0]["t"]) == t {
			r := rec(fl[0]["rec"].(map[string]any))
			r["t"] = t
			w.byTrace[t] = append(w.byTrace[t], crashRecord(r))
		} else if rs := w.byTrace[t]; len(rs) > 1 {
			rs[len(rs)-1]["crashed"] = true // died between two cases: the last delivered class is the suspect
		} else {
			w.mu.Unlock()
			return fmt.Errorf("child died while setting trace %d up:\n%s", t, tail(text, 3000))
		}
		w.crashes = append(w.crashes, fmt.Sprintf("t%d: %s", t, panicLine(text)))
		w.mu.Unlock()
		next := ids[:0:0]
		for _, id := range ids {
			if id > t {
				next = append(next, id)
			}
		}
		ids = next
		if attempt > 5000 {
			return fmt.Errorf("too many child restarts")
		}
	}
	return nil
}

func tail(s string, n int) string {
	if len(s) > n {
		return s[len(s)-n:]
	}
	return s
}

func panicLine(text string) string {
	for _, ln := range strings.Split(text, "\n") {
		if strings.HasPrefix(ln, "panic:") || strings.HasPrefix(ln, "fatal error:") {
			if len(ln) > 160 {
				ln = ln[:160]
			}
			return ln
		}
	}
	return "died"
}

func run(c *eng.Ctx) error {
	pl := plan(c.Seed, c.Tier)
	var ids []int
	for _, t := range pl {
		if c.Only < 0 || t.ID == c.Only {
			ids = append(ids, t.ID)
		}
	}
	root, err := os.MkdirTemp("", "kvh-c14p-")
	if err != nil {
		return err
	}
	defer os.RemoveAll(root)
	self, err := os.Executable()
	if err != nil {
		return err
	}
	nw := 4
	if len(ids) < nw {
		nw = 1
	}
	w := &worker{byTrace: map[int][]rec{}}
	errs := make([]error, nw)
	var wg sync.WaitGroup
	for k := 0; k < nw; k++ {
		var mine []int
		for i, id := range ids {
			if i%nw == k {
				mine = append(mine, id)
			}
		}
		wg.Add(1)
		go func(k int, mine []int) {
			defer wg.Done()
			errs[k] = w.runBatch(self, c, root, k, mine)
		}(k, mine)
	}
	wg.Wait()
	for _, e := range errs {
		if e != nil {
			return e
		}
	}
	groups := map[string]int{}
	cases, hsN, msgN := 0, 0, 0
	for _, id := range ids {
		rs := w.byTrace[id]
		if len(rs) == 0 || rs[0]["ev"] != "reset" {
			return fmt.Errorf("trace %d has no records", id)
		}
		cfg, _ := rs[0]["cfg"].(map[string]any)
		c.W.Reset(id, cfg)
		groups[pl[id].Group]++
		for _, r := range rs[1:] {
			ev, _ := r["ev"].(string)
			var kv []any
			keys := make([]string, 0, len(r))
			for k := range r {
				if k != "ev" && k != "t" {
					keys = append(keys, k)
				}
			}
			sort.Strings(keys)
			for _, k := range keys {
				v := r[k]
				if f, ok := v.(float64); ok {
					v = int(f)
				}
				kv = append(kv, k, v)
			}
			c.W.Ev(ev, kv...)
			switch ev {
			case "Handshake":
				hsN++
				cases++
			case "Msg":
				msgN++
				cases++
			}
		}
	}
	c.Stats["traces_by_group"] = groups
	c.Stats["cases"] = cases
	c.Stats["handshake_cases"] = hsN
	c.Stats["message_cases"] = msgN
	c.Stats["message_classes"] = len(allMsgCases())
	c.Stats["handshake_classes"] = len(allHsCases())
	c.Stats["child_spawns"] = w.spawns
	c.Stats["child_deaths"] = w.crashes
	// thorough: every handshake class and every message class of the grammar outside the known-defect classes was
	// delivered to every victim kind (concrete values inside a class are sampled); the known-defect classes are
	// covered by representative dedicated scenarios only
	c.Stats["exhaustive"] = c.Tier == "thorough" && c.Only < 0
	c.Stats["exhaustive_scope"] = "case grammar minus KnownDefectH/KnownDefectM classes, x 3 victim kinds"
	if len(w.crashes) > 0 {
		fmt.Printf("NOTE c14: %d child process(es) died on an input; first: %s\n", len(w.crashes), w.crashes[0])
	}
	return nil
}
