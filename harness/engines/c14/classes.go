package c14

// The case grammar of spec/p2p/PeerInput.tla in Go: message classes, handshake classes, the predicate that
// names the input classes of known findings F14a-c (same as KnownDefectM / KnownDefectH), and the plan
// (which classes go into which trace) as a pure function of (seed, tier).

import (
	"math/rand"
	"sort"
)

const (
	nPieces  = 4  // N of PeerInputTrace.cfg
	pieceLen = 64 // bytes; the last piece is shorter
	blobLen  = 3*pieceLen + 17
)

const na = "na"

type msgCase struct {
	Typ, Body, Idx, Off, Len, Data, Code string
	Fin                                  bool
}

type hsCase struct {
	Dir, Typ, Body, Pid, Ih, Name, Bits, Rb string
}

type step struct {
	Op     string // "hs" | "msg" | "hangup"
	H      hsCase
	M      msgCase
	IfOpen bool // msg: only when the attacker's connection is open (otherwise a valid handshake is made first)
}

type traceSpec struct {
	ID    int
	Kind  string // leech | seed | origin
	Have0 []int
	Known string // id of the known finding this trace is the dedicated scenario of ("" for bulk traces)
	Group string // msg | hs | seq | known (statistics only)
	Steps []step
	Seed  int64 // run-time choices (concrete indices, bitfield contents, dial direction of implicit handshakes)
}

var (
	idxC  = []string{"have", "miss", "eqN", "gtN", "neg1", "min"}
	offC  = []string{"zero", "pos", "neg"}
	lenC  = []string{"exact", "zero", "short", "long", "big", "max", "neg1", "min"}
	bitsC = []string{"exact_none", "exact_some", "exact_all", "exact_stray", "short", "empty", "long_clear", "long_set", "hugehdr", "absurdhdr", "trunc"}
	rbC   = []string{"none", "ok", "badpid", "badbytes", "hugehdr", "long_set", "stray"}
	kinds = []string{"leech", "seed", "origin"}
)

func mc(t, b, i, o, l, d, k string, f bool) msgCase { return msgCase{t, b, i, o, l, d, k, f} }

// allMsgCases = MsgCases.
func allMsgCases() []msgCase {
	var out []msgCase
	out = append(out, mc("request", "missing", na, na, na, na, na, false))
	for _, i := range idxC {
		for _, o := range offC {
			for _, l := range lenC {
				out = append(out, mc("request", "present", i, o, l, na, na, false))
			}
		}
	}
	out = append(out, mc("payload", "missing", na, na, na, na, na, false))
	for _, i := range idxC {
		for _, o := range offC {
			for _, l := range lenC {
				fin := l == "big" || l == "max"
				if (i == "have" || i == "miss") && l == "exact" {
					out = append(out, mc("payload", "present", i, o, l, "good", na, fin), mc("payload", "present", i, o, l, "bad", na, fin))
				} else {
					out = append(out, mc("payload", "present", i, o, l, na, na, fin))
				}
			}
		}
	}
	for _, t := range []string{"announce", "cancel"} {
		out = append(out, mc(t, "missing", na, na, na, na, na, false))
		for _, i := range idxC {
			out = append(out, mc(t, "present", i, na, na, na, na, false))
		}
	}
	out = append(out, mc("error", "missing", na, na, na, na, na, false))
	for _, i := range idxC {
		for _, k := range []string{"failed", "other"} {
			out = append(out, mc("error", "present", i, na, na, na, k, false))
		}
	}
	for _, t := range []string{"complete", "bitfield"} {
		for _, b := range []string{"missing", "present"} {
			out = append(out, mc(t, b, na, na, na, na, na, false))
		}
	}
	out = append(out, mc("unknown", "missing", na, na, na, na, na, false))
	for _, t := range []string{"empty", "garbage", "oversize", "trunc"} {
		out = append(out, mc(t, na, na, na, na, na, na, t == "trunc" || t == "oversize"))
	}
	return out
}

func negIdx(i string) bool { return i == "neg1" || i == "min" }

// knownDefectM = KnownDefectM (pi < 0 <=> idx class neg1 / min).
func knownDefectM(c msgCase, kind string) string {
	switch {
	case c.Typ == "payload" && c.Body == "missing":
		return "F14a1"
	case c.Typ == "payload" && c.Body == "present" && (c.Len == "neg1" || c.Len == "min"):
		return "F14a2"
	case c.Typ == "payload" && c.Body == "present" && (c.Len == "big" || c.Len == "max"):
		return "F14a3"
	case (c.Typ == "request" || c.Typ == "announce" || c.Typ == "error") && c.Body == "missing":
		return "F14b1"
	case c.Typ == "announce" && c.Body == "present" && negIdx(c.Idx):
		return "F14b2"
	case c.Typ == "request" && c.Body == "present" && negIdx(c.Idx) && c.Off == "zero" && c.Len == "zero":
		return "F14b3"
	case c.Typ == "payload" && c.Body == "present" && negIdx(c.Idx) && c.Off == "zero" && c.Len == "zero" && kind != "origin":
		return "F14b4"
	}
	return ""
}

func hc(d, t, b, p, i, n, bi, r string) hsCase { return hsCase{d, t, b, p, i, n, bi, r} }

// allHsCases = HsCases.
func allHsCases() []hsCase {
	var out []hsCase
	for _, d := range []string{"in", "out"} {
		for _, t := range []string{"other", "empty", "garbage", "oversize", "trunc"} {
			out = append(out, hc(d, t, na, na, na, na, na, na))
		}
		out = append(out, hc(d, "bitfield", "missing", na, na, na, na, na))
		for _, p := range []string{"ok", "bad", "mismatch"} {
			if p == "mismatch" && d != "out" {
				continue
			}
			for _, i := range []string{"ok", "other", "bad"} {
				for _, n := range []string{"ok", "other", "bad"} {
					for _, bi := range bitsC {
						for _, r := range rbC {
							out = append(out, hc(d, "bitfield", "present", p, i, n, bi, r))
						}
					}
				}
			}
		}
	}
	return out
}

func parsePrefixOK(h hsCase) bool {
	return h.Typ == "bitfield" && h.Body == "present" && h.Pid != "bad" && h.Ih != "bad" && h.Name != "bad"
}

// knownDefectH = KnownDefectH.
func knownDefectH(h hsCase) string {
	if !parsePrefixOK(h) {
		return ""
	}
	switch {
	case h.Bits == "hugehdr":
		return "F14c2"
	case h.Bits != "trunc" && h.Bits != "absurdhdr" && h.Rb == "hugehdr":
		return "F14c3"
	case (h.Bits == "long_set" || h.Bits == "exact_stray") && h.Rb != "badpid" && h.Rb != "badbytes" &&
		(h.Dir != "out" || h.Pid != "mismatch") && (h.Dir != "in" || (h.Name == "ok" && h.Ih == "ok")):
		if h.Bits == "exact_stray" {
			return "F14d"
		}
		return "F14c1"
	}
	return ""
}

var leechHaves = [][]int{{0}, {0, 1}, {0, 2}, {0, 3}, {0, 1, 2}, {0, 1, 3}, {0, 2, 3}}

func have0(kind string, rng *rand.Rand) []int {
	if kind != "leech" {
		return []int{0, 1, 2, 3}
	}
	return leechHaves[rng.Intn(len(leechHaves))]
}

func usableM(c msgCase, kind string) bool {
	return !(kind != "leech" && c.Idx == "miss") // a complete torrent misses no piece
}

// plan is deterministic in (seed, tier).
//
//	msg    every message class outside the known-defect classes, for every victim kind, ~10 per trace
//	hs     handshake classes outside the known-defect classes: all of them (thorough) / a seeded sample (quick);
//	       an established connection gets one message and is hung up
//	seq    random sequences (victim piece state evolves: correct payloads, completion, reconnects)
//	known  the dedicated scenarios of known findings F14a-c: a valid handshake and ONE message of the class
//	       (or the one handshake of the class); the only traces that contain those classes
func plan(seed int64, tier string) []traceSpec {
	thorough := tier == "thorough"
	rng := rand.New(rand.NewSource(seed*1000003 + 1414))
	var out []traceSpec
	add := func(t traceSpec) {
		t.ID = len(out)
		t.Seed = rng.Int63()
		out = append(out, t)
	}
	msgs, hss := allMsgCases(), allHsCases()

	// ---- known-finding scenarios first (stable ids, cheap to replay)
	type kn struct {
		id    string
		m     *msgCase
		h     *hsCase
		kinds []string
	}
	agent := []string{"leech", "seed"}
	m := func(c msgCase) *msgCase { return &c }
	h := func(c hsCase) *hsCase { return &c }
	vb := func(d, bits, rb string) hsCase { return hc(d, "bitfield", "present", "ok", "ok", "ok", bits, rb) }
	kns := []kn{
		{"F14a1", m(mc("payload", "missing", na, na, na, na, na, false)), nil, kinds},
		{"F14a2", m(mc("payload", "present", "have", "zero", "neg1", na, na, false)), nil, kinds},
		{"F14a2", m(mc("payload", "present", "gtN", "pos", "min", na, na, false)), nil, kinds},
		{"F14a3", m(mc("payload", "present", "have", "zero", "big", na, na, true)), nil, kinds},
		{"F14a3", m(mc("payload", "present", "eqN", "zero", "max", na, na, true)), nil, kinds},
		{"F14b1", m(mc("request", "missing", na, na, na, na, na, false)), nil, kinds},
		{"F14b1", m(mc("announce", "missing", na, na, na, na, na, false)), nil, kinds},
		{"F14b1", m(mc("error", "missing", na, na, na, na, na, false)), nil, kinds},
		{"F14b2", m(mc("announce", "present", "neg1", na, na, na, na, false)), nil, kinds},
		{"F14b2", m(mc("announce", "present", "min", na, na, na, na, false)), nil, kinds},
		{"F14b3", m(mc("request", "present", "neg1", "zero", "zero", na, na, false)), nil, kinds},
		{"F14b3", m(mc("request", "present", "min", "zero", "zero", na, na, false)), nil, kinds},
		{"F14b4", m(mc("payload", "present", "neg1", "zero", "zero", na, na, false)), nil, agent},
		{"F14b4", m(mc("payload", "present", "min", "zero", "zero", na, na, false)), nil, agent},
		{"F14c1", nil, h(vb("in", "long_set", "none")), kinds},
		{"F14c1", nil, h(vb("out", "long_set", "ok")), kinds},
		{"F14c2", nil, h(vb("in", "hugehdr", "none")), kinds},
		{"F14c2", nil, h(vb("out", "hugehdr", "ok")), kinds},
		{"F14c3", nil, h(vb("in", "exact_some", "hugehdr")), kinds},
		{"F14c3", nil, h(vb("out", "exact_all", "hugehdr")), kinds},
		{"F14d", nil, h(vb("in", "exact_stray", "none")), kinds},
		{"F14d", nil, h(vb("out", "exact_stray", "stray")), kinds},
	}
	seen := map[string]int{}
	for i, k := range kns {
		ks := k.kinds
		if !thorough { // quick: every scenario (both directions of each handshake class) with one victim kind, rotating with the seed
			ks = []string{k.kinds[int(seed+int64(i))%len(k.kinds)]}
		}
		seen[k.id]++
		for _, kind := range ks {
			t := traceSpec{Kind: kind, Have0: have0(kind, rng), Known: k.id, Group: "known"}
			if k.m != nil {
				t.Steps = []step{{Op: "hs", H: vb([]string{"in", "out"}[(i+len(out))%2], "exact_some", "none")}, {Op: "msg", M: *k.m}}
			} else {
				t.Steps = []step{{Op: "hs", H: *k.h}}
			}
			add(t)
		}
	}

	// ---- every message class
	for _, kind := range kinds {
		var cs []msgCase
		for _, c := range msgs {
			if knownDefectM(c, kind) == "" && usableM(c, kind) {
				cs = append(cs, c)
			}
		}
		rng.Shuffle(len(cs), func(i, j int) { cs[i], cs[j] = cs[j], cs[i] })
		for len(cs) > 0 {
			n := 10
			if n > len(cs) {
				n = len(cs)
			}
			t := traceSpec{Kind: kind, Have0: have0(kind, rng), Group: "msg"}
			for _, c := range cs[:n] {
				t.Steps = append(t.Steps, step{Op: "msg", M: c})
			}
			cs = cs[n:]
			add(t)
		}
	}

	// ---- handshake classes
	okM := func(kind string) []msgCase {
		var cs []msgCase
		for _, c := range msgs {
			if knownDefectM(c, kind) == "" && usableM(c, kind) {
				cs = append(cs, c)
			}
		}
		return cs
	}
	okMsgs := map[string][]msgCase{}
	for _, k := range kinds {
		okMsgs[k] = okM(k)
	}
	var hok []hsCase
	for _, c := range hss {
		if knownDefectH(c) == "" {
			hok = append(hok, c)
		}
	}
	for ki, kind := range kinds {
		cs := append([]hsCase{}, hok...)
		rng.Shuffle(len(cs), func(i, j int) { cs[i], cs[j] = cs[j], cs[i] })
		if !thorough {
			// seeded sample; classes that parse far enough to matter are kept preferentially
			sort.SliceStable(cs, func(i, j int) bool { return parsePrefixOK(cs[i]) && !parsePrefixOK(cs[j]) })
			cs = cs[:220]
			rng.Shuffle(len(cs), func(i, j int) { cs[i], cs[j] = cs[j], cs[i] })
		}
		_ = ki
		for len(cs) > 0 {
			n := 20
			if n > len(cs) {
				n = len(cs)
			}
			t := traceSpec{Kind: kind, Have0: have0(kind, rng), Group: "hs"}
			for _, c := range cs[:n] {
				// after an established handshake: one message, then the attacker hangs up (both skipped at
				// run time when the handshake was rejected)
				mm := okMsgs[kind][rng.Intn(len(okMsgs[kind]))]
				t.Steps = append(t.Steps, step{Op: "hs", H: c}, step{Op: "msg", M: mm, IfOpen: true}, step{Op: "hangup"})
			}
			cs = cs[n:]
			add(t)
		}
	}

	// ---- sequences
	nseq := 45
	if thorough {
		nseq = 2000
	}
	for s := 0; s < nseq; s++ {
		kind := kinds[s%3]
		if s%2 == 1 {
			kind = "leech" // the kind with a piece state
		}
		t := traceSpec{Kind: kind, Have0: have0(kind, rng), Group: "seq"}
		cs := okMsgs[kind]
		for i, n := 0, 8+rng.Intn(8); i < n; i++ {
			switch r := rng.Intn(20); {
			case r == 0:
				t.Steps = append(t.Steps, step{Op: "hangup"})
			case r <= 2:
				c := hok[rng.Intn(len(hok))]
				t.Steps = append(t.Steps, step{Op: "hangup"}, step{Op: "hs", H: c})
			case r <= 8 && kind == "leech": // drive the download forward: a correct payload for a missing piece
				t.Steps = append(t.Steps, step{Op: "msg", M: mc("payload", "present", "miss", "zero", "exact", "good", na, false)})
			case r <= 10: // a servable request
				t.Steps = append(t.Steps, step{Op: "msg", M: mc("request", "present", "have", "zero", "exact", na, na, false)})
			default:
				t.Steps = append(t.Steps, step{Op: "msg", M: cs[rng.Intn(len(cs))]})
			}
		}
		add(t)
	}
	return out
}
