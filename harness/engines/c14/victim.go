package c14

// The victim: a REAL conn.Handshaker + dispatch.Dispatcher over a REAL agent torrent (agentstorage, leeching or
// complete) or origin torrent (originstorage), listening on TCP loopback.  The few lines between them replicate
// what lib/torrent/scheduler does with a handshake (listenLoop -> Handshaker.Accept -> torrentArchive.Stat ->
// Handshaker.Establish -> conns.MovePendingToActive -> Conn.Start -> Dispatcher.AddPeer, and
// Handshaker.Initialize -> Conn.Start -> Dispatcher.AddPeer); a panic on any of these goroutines kills the
// process exactly as it would kill an agent / origin.

import (
	"bytes"
	"crypto/sha256"
	"encoding/hex"
	"errors"
	"fmt"
	"io"
	"math/rand"
	"net"
	"os"
	"path/filepath"

	"github.com/andres-erbsen/clock"
	"github.com/uber-go/tally"
	"go.uber.org/zap"

	"github.com/uber/kraken/core"
	"github.com/uber/kraken/lib/store"
	"github.com/uber/kraken/lib/store/metadata"
	"github.com/uber/kraken/lib/torrent/networkevent"
	"github.com/uber/kraken/lib/torrent/scheduler/conn"
	"github.com/uber/kraken/lib/torrent/scheduler/dispatch"
	"github.com/uber/kraken/lib/torrent/scheduler/torrentlog"
	"github.com/uber/kraken/lib/torrent/storage"
	"github.com/uber/kraken/lib/torrent/storage/agentstorage"
	"github.com/uber/kraken/lib/torrent/storage/originstorage"
	"github.com/uber/kraken/lib/torrent/storage/piecereader"
	"github.com/uber/kraken/tracker/metainfoclient"
)

type nopProducer struct{}

func (nopProducer) Produce(*networkevent.Event) {}
func (nopProducer) Close() error                { return nil }

type nopEvents struct{}

func (nopEvents) ConnClosed(*conn.Conn)                  {}
func (nopEvents) DispatcherComplete(*dispatch.Dispatcher) {}
func (nopEvents) PeerRemoved(core.PeerID, core.InfoHash)  {}

// hsResult is what became of one handshake on the victim's side.
type hsResult struct {
	c   *conn.Conn // non-nil iff established
	err error
}

type victim struct {
	kind   string
	dir    string
	blob   []byte
	digest core.Digest
	mi     *core.MetaInfo
	peerID core.PeerID

	cads *store.CADownloadStore
	cas  *store.CAStore
	ta   storage.TorrentArchive
	t    storage.Torrent
	d    *dispatch.Dispatcher
	hs   *conn.Handshaker
	ln   net.Listener

	results chan hsResult
}

func makeBlob(seed int64) ([]byte, core.Digest, *core.MetaInfo) {
	b := make([]byte, blobLen)
	rand.New(rand.NewSource(seed)).Read(b)
	for i := range b { // never a zero byte: an unwritten (zero-filled) region is never "correct" by accident
		if b[i] == 0 {
			b[i] = 1
		}
	}
	sum := sha256.Sum256(b)
	d, err := core.NewSHA256DigestFromHex(hex.EncodeToString(sum[:]))
	if err != nil {
		panic(err)
	}
	mi, err := core.NewMetaInfoFromBytes(d, b, pieceLen)
	if err != nil {
		panic(err)
	}
	if mi.NumPieces() != nPieces {
		panic("blob shape")
	}
	return b, d, mi
}

func (v *victim) piece(i int) []byte {
	off := int64(i) * v.mi.PieceLength()
	return v.blob[off : off+v.mi.GetPieceLength(i)]
}

func newVictim(root, kind string, have0 []int, seed int64) (*victim, error) {
	v := &victim{kind: kind, dir: root, results: make(chan hsResult, 16)}
	v.blob, v.digest, v.mi = makeBlob(seed)
	var err error
	if v.peerID, err = core.RandomPeerID(); err != nil {
		return nil, err
	}
	switch kind {
	case "leech", "seed":
		v.cads, err = store.NewCADownloadStore(store.CADownloadStoreConfig{
			DownloadDir: filepath.Join(root, "download"), CacheDir: filepath.Join(root, "cache")}, tally.NoopScope)
		if err != nil {
			return nil, err
		}
		tc := metainfoclient.NewTestClient()
		if err := tc.Upload(v.mi); err != nil {
			return nil, err
		}
		ta := agentstorage.NewTorrentArchive(tally.NoopScope, v.cads, tc)
		v.ta = ta
		if v.t, err = ta.CreateTorrent("ns", v.digest); err != nil {
			return nil, err
		}
		for _, i := range have0 {
			if err := v.t.WritePiece(piecereader.NewBuffer(append([]byte{}, v.piece(i)...)), i); err != nil {
				return nil, fmt.Errorf("setup write piece %d: %v", i, err)
			}
		}
		if (kind == "seed") != v.t.Complete() {
			return nil, errors.New("setup: completeness does not match the victim kind")
		}
	case "origin":
		v.cas, err = store.NewCAStore(store.CAStoreConfig{
			UploadDir: filepath.Join(root, "upload"), CacheDir: filepath.Join(root, "cache")}, tally.NoopScope)
		if err != nil {
			return nil, err
		}
		if err := v.cas.CreateCacheFile(v.digest.Hex(), bytes.NewReader(v.blob)); err != nil {
			return nil, err
		}
		if _, err := v.cas.SetCacheFileMetadata(v.digest.Hex(), metadata.NewTorrentMeta(v.mi)); err != nil {
			return nil, err
		}
		ta := originstorage.NewTorrentArchive(v.cas, nil)
		v.ta = ta
		if v.t, err = ta.GetTorrent("ns", v.digest); err != nil {
			return nil, err
		}
	default:
		return nil, fmt.Errorf("kind %q", kind)
	}
	logger := zap.NewNop().Sugar()
	ev := nopEvents{}
	// a mock clock that never advances: no piece-request expiry / resend during a trace
	v.d, err = dispatch.New(dispatch.Config{}, tally.NoopScope, clock.NewMock(), nopProducer{}, ev, v.peerID, v.t,
		logger, torrentlog.NewNopLogger())
	if err != nil {
		return nil, err
	}
	v.hs, err = conn.NewHandshaker(conn.Config{}, tally.NoopScope, clock.New(), nopProducer{}, v.peerID, ev, logger)
	if err != nil {
		return nil, err
	}
	if v.ln, err = net.Listen("tcp", "127.0.0.1:0"); err != nil {
		return nil, err
	}
	go v.listenLoop()
	return v, nil
}

// stat is scheduler.establishIncomingHandshake's torrentArchive.Stat. The origin archive would start a blob
// refresh (backend download) for an unknown digest; the harness has no backend and answers "not found" itself.
func (v *victim) stat(namespace string, d core.Digest) (*storage.TorrentInfo, error) {
	if v.kind == "origin" && d != v.digest {
		return nil, os.ErrNotExist
	}
	return v.ta.Stat(namespace, d)
}

func (v *victim) listenLoop() {
	for {
		nc, err := v.ln.Accept()
		if err != nil {
			return
		}
		go v.incoming(nc)
	}
}

// incoming = scheduler.listenLoop's goroutine + incomingHandshakeEvent + establishIncomingHandshake + addIncomingConn.
func (v *victim) incoming(nc net.Conn) {
	pc, err := v.hs.Accept(nc)
	if err != nil {
		nc.Close()
		v.results <- hsResult{nil, err}
		return
	}
	info, err := v.stat(pc.Namespace(), pc.Digest())
	if err != nil {
		pc.Close()
		v.results <- hsResult{nil, err}
		return
	}
	c, err := v.hs.Establish(pc, info, v.d.RemoteBitfields())
	if err != nil {
		pc.Close()
		v.results <- hsResult{nil, err}
		return
	}
	if pc.InfoHash() != c.InfoHash() { // conns.MovePendingToActive: no pending slot for (peer, torrent hash)
		c.Close()
		v.results <- hsResult{nil, errors.New("move pending to active")}
		return
	}
	c.Start()
	if err := v.d.AddPeer(pc.PeerID(), false, pc.Bitfield(), c); err != nil {
		c.Close()
		v.results <- hsResult{nil, err}
		return
	}
	v.results <- hsResult{c, nil}
}

// outgoing = scheduler.initializeOutgoingHandshake + addOutgoingConn.
func (v *victim) outgoing(peerID core.PeerID, origin bool, addr string) {
	r, err := v.hs.Initialize(peerID, origin, addr, v.t.Stat(), v.d.RemoteBitfields(), "ns")
	if err != nil {
		v.results <- hsResult{nil, err}
		return
	}
	r.Conn.Start()
	if err := v.d.AddPeer(r.Conn.PeerID(), r.Conn.IsPeerOrigin(), r.Bitfield, r.Conn); err != nil {
		r.Conn.Close()
		v.results <- hsResult{nil, err}
		return
	}
	v.results <- hsResult{r.Conn, nil}
}

// have projects the victim's piece state.
func (v *victim) have() []int {
	out := []int{}
	b := v.t.Bitfield()
	for i := 0; i < nPieces; i++ {
		if b.Test(uint(i)) {
			out = append(out, i)
		}
	}
	return out
}

// blobOK: the blob file has the blob's length and every piece the victim claims to hold has the blob's bytes.
func (v *victim) blobOK() bool {
	var r io.ReadCloser
	var err error
	if v.cads != nil {
		r, err = v.cads.Any().GetFileReader(v.digest.Hex())
	} else {
		r, err = v.cas.GetCacheFileReader(v.digest.Hex())
	}
	if err != nil {
		return false
	}
	defer r.Close()
	b, err := io.ReadAll(r)
	if err != nil || len(b) != len(v.blob) {
		return false
	}
	for _, i := range v.have() {
		off := i * pieceLen
		if !bytes.Equal(b[off:off+len(v.piece(i))], v.piece(i)) {
			return false
		}
	}
	return true
}

func (v *victim) close() {
	v.ln.Close()
	v.d.TearDown()
	if v.cads != nil {
		v.cads.Close()
	}
	if v.cas != nil {
		v.cas.Close()
	}
	os.RemoveAll(v.dir)
}
