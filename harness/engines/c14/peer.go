package c14

// Raw-wire remote peers (attacker and honest neighbour): they speak the kraken p2p framing (4-byte big-endian
// length, protobuf p2p.Message, raw piece bytes after a PIECE_PAYLOAD header) directly on a TCP socket, so any
// byte sequence can be sent.  Nothing here uses kraken's conn package.

import (
	"encoding/binary"
	"errors"
	"io"
	"math"
	"math/rand"
	"net"
	"time"

	"github.com/golang/protobuf/proto"
	"github.com/willf/bitset"

	"github.com/uber/kraken/core"
	"github.com/uber/kraken/gen/go/proto/p2p"
)

const (
	maxMsg     = 32 * 1024 // conn.maxMessageSize
	markerIdx  = 1000003   // index of the end-of-case marker request (never a class representative)
	bigLen     = 128 << 20
	hugeBits   = 1 << 30 // bitfield length header of class hugehdr: 128 MiB of words, 8 bytes supplied
	waitReply  = 20 * time.Second
	waitDrain  = 5 * time.Second
	allocLimit = 64 << 20 // "unbounded" = more than 64 MiB (+ piece length, + 32 KiB message cap) for one input
)

func frame(body []byte) []byte {
	out := make([]byte, 4+len(body))
	binary.BigEndian.PutUint32(out, uint32(len(body)))
	copy(out[4:], body)
	return out
}

func enc(m *p2p.Message) []byte {
	b, err := proto.Marshal(m)
	if err != nil {
		panic(err)
	}
	return frame(b)
}

// garbage: bytes that are not a protobuf message (field 1, length-delimited, with an overlong length varint).
var garbage = []byte{0x0a, 0xff, 0xff, 0xff, 0xff, 0xff, 0xff, 0xff, 0xff, 0xff, 0xff, 0x7f, 0x01, 0x02}

func init() {
	if proto.Unmarshal(garbage, new(p2p.Message)) == nil {
		panic("c14: garbage bytes decode as a p2p message")
	}
}

type reply struct {
	m       *p2p.Message
	payload []byte
}

// peer is one socket of a remote peer with a reader goroutine.
type peer struct {
	nc     *net.TCPConn
	id     core.PeerID
	frames chan reply // closed on EOF / any read error
}

func (p *peer) startReader() {
	p.frames = make(chan reply, 1024)
	go func() {
		defer close(p.frames)
		for {
			var l [4]byte
			if _, err := io.ReadFull(p.nc, l[:]); err != nil {
				return
			}
			n := binary.BigEndian.Uint32(l[:])
			if n > 1<<20 {
				return
			}
			b := make([]byte, n)
			if _, err := io.ReadFull(p.nc, b); err != nil {
				return
			}
			m := new(p2p.Message)
			if err := proto.Unmarshal(b, m); err != nil {
				return
			}
			r := reply{m: m}
			if m.Type == p2p.Message_PIECE_PAYLOAD {
				pp := m.GetPiecePayload()
				if pp == nil || pp.Length < 0 || pp.Length > 1<<20 {
					p.frames <- r // reported as a bad payload by the caller
					return
				}
				r.payload = make([]byte, pp.Length)
				if _, err := io.ReadFull(p.nc, r.payload); err != nil {
					return
				}
			}
			p.frames <- r
		}
	}()
}

func (p *peer) close() {
	if p.nc != nil {
		p.nc.Close()
	}
}

func marshalBits(b *bitset.BitSet) []byte {
	out, err := b.MarshalBinary()
	if err != nil {
		panic(err)
	}
	return out
}

func bitsOf(n uint, set ...uint) *bitset.BitSet {
	b := bitset.New(n)
	for _, i := range set {
		b.Set(i)
	}
	return b
}

func hdrBits(length uint64) []byte {
	out := make([]byte, 16)
	binary.BigEndian.PutUint64(out, length)
	return out
}

// bitfieldBytes concretises a bits class.
func bitfieldBytes(class string, rng *rand.Rand) []byte {
	switch class {
	case "exact_none":
		return marshalBits(bitsOf(nPieces))
	case "exact_some":
		b := bitsOf(nPieces)
		for b.Count() == 0 || b.Count() == nPieces {
			b.ClearAll()
			for i := uint(0); i < nPieces; i++ {
				if rng.Intn(2) == 0 {
					b.Set(i)
				}
			}
		}
		return marshalBits(b)
	case "exact_all":
		return marshalBits(bitsOf(nPieces).Complement())
	case "exact_stray":
		// the length header says exactly nPieces bits, the (only) word also has a bit beyond them set
		word := uint64(rng.Intn(1<<nPieces)) | 1<<uint([]int{nPieces, nPieces + 1 + rng.Intn(50), 63}[rng.Intn(3)])
		out := make([]byte, 16)
		binary.BigEndian.PutUint64(out, nPieces)
		binary.BigEndian.PutUint64(out[8:], word)
		return out
	case "short":
		return marshalBits(bitsOf(nPieces-2, uint(rng.Intn(nPieces-2))))
	case "empty":
		return marshalBits(bitset.New(0))
	case "long_clear":
		return marshalBits(bitsOf(nPieces+70, uint(rng.Intn(nPieces))))
	case "long_set":
		return marshalBits(bitsOf(nPieces+70, uint(rng.Intn(nPieces)), nPieces+3, nPieces+69))
	case "hugehdr":
		return hdrBits(hugeBits)
	case "absurdhdr":
		return hdrBits(math.MaxUint64)
	case "trunc":
		return []byte{0, 0, 0, 0, 4}
	}
	panic("bits class " + class)
}

func otherHex(n int, rng *rand.Rand) string {
	const hexd = "0123456789abcdef"
	b := make([]byte, n)
	for i := range b {
		b[i] = hexd[rng.Intn(16)]
	}
	return string(b)
}

// handshakeBytes concretises a handshake class into the bytes of the first message on the connection and
// says whether the stream ends after them (fin).
func handshakeBytes(h hsCase, v *victim, self, expected core.PeerID, rng *rand.Rand) (data []byte, fin bool) {
	switch h.Typ {
	case "other":
		return enc(&p2p.Message{Type: p2p.Message_COMPLETE, Complete: &p2p.CompleteMessage{}}), false
	case "empty":
		return frame(nil), false
	case "garbage":
		return frame(garbage), false
	case "oversize":
		return oversizePrefix(v, rng), true
	case "trunc":
		return frame(make([]byte, 100))[:14], true
	}
	if h.Body == "missing" {
		return enc(&p2p.Message{Type: p2p.Message_BITFIELD}), false
	}
	bf := &p2p.BitfieldMessage{Namespace: "ns"}
	switch h.Pid {
	case "ok":
		bf.PeerID = expected.String()
	case "bad":
		bf.PeerID = "not-a-hex-peer-id"
	case "mismatch":
		bf.PeerID = self.String() // a valid id, but not the one the dialler expects
	}
	switch h.Ih {
	case "ok":
		bf.InfoHash = v.mi.InfoHash().String()
	case "other":
		bf.InfoHash = otherHex(40, rng)
	case "bad":
		bf.InfoHash = "zz" + otherHex(10, rng)
	}
	switch h.Name {
	case "ok":
		bf.Name = v.digest.Hex()
	case "other":
		bf.Name = otherHex(64, rng)
	case "bad":
		bf.Name = "not-a-digest"
	}
	bf.BitfieldBytes = bitfieldBytes(h.Bits, rng)
	third, _ := core.RandomPeerID()
	switch h.Rb {
	case "ok":
		bf.RemoteBitfieldBytes = map[string][]byte{third.String(): bitfieldBytes("exact_some", rng)}
	case "badpid":
		bf.RemoteBitfieldBytes = map[string][]byte{"nothex": bitfieldBytes("exact_some", rng)}
	case "badbytes":
		bf.RemoteBitfieldBytes = map[string][]byte{third.String(): {1, 2, 3}}
	case "hugehdr":
		bf.RemoteBitfieldBytes = map[string][]byte{third.String(): hdrBits(hugeBits)}
	case "long_set":
		bf.RemoteBitfieldBytes = map[string][]byte{third.String(): bitfieldBytes("long_set", rng)}
	case "stray":
		bf.RemoteBitfieldBytes = map[string][]byte{third.String(): bitfieldBytes("exact_stray", rng)}
	}
	return enc(&p2p.Message{Type: p2p.Message_BITFIELD, Bitfield: bf}), false
}

// oversizePrefix is a length prefix above the 32 KiB message cap: just above it (leech victims), far above it
// (256 MiB, seed victims) or somewhere in the next MiB (origins).
func oversizePrefix(v *victim, rng *rand.Rand) []byte {
	n := uint32(maxMsg + 1)
	switch v.kind {
	case "seed":
		n = 256 << 20
	case "origin":
		n += uint32(rng.Intn(1 << 20))
	}
	l := make([]byte, 4)
	binary.BigEndian.PutUint32(l, n)
	return l
}

// concrete index of an idx class in the victim's current piece state; ok=false when the class is empty.
func concreteIdx(class string, have []int, rng *rand.Rand) (int, bool) {
	in := map[int]bool{}
	for _, i := range have {
		in[i] = true
	}
	switch class {
	case "have":
		if len(have) == 0 {
			return 0, false
		}
		return have[rng.Intn(len(have))], true
	case "miss":
		var miss []int
		for i := 0; i < nPieces; i++ {
			if !in[i] {
				miss = append(miss, i)
			}
		}
		if len(miss) == 0 {
			return 0, false
		}
		return miss[rng.Intn(len(miss))], true
	case "eqN":
		return nPieces, true
	case "gtN":
		return []int{nPieces + 1, nPieces + 2, 100, 65536, math.MaxInt32}[rng.Intn(5)], true
	case "neg1":
		return -1, true
	case "min":
		return math.MinInt32, true
	}
	return 0, true
}

// messageBytes concretises a message class with concrete index pi.
func messageBytes(c msgCase, pi int, v *victim, rng *rand.Rand) []byte {
	nominal := pieceLen
	if pi >= 0 && pi < nPieces {
		nominal = len(v.piece(pi))
	}
	ln := map[string]int{"exact": nominal, "zero": 0, "short": 1, "long": nominal + 3, "big": bigLen,
		"max": math.MaxInt32, "neg1": -1, "min": math.MinInt32, na: 0}[c.Len]
	if c.Len == "short" && nominal > 2 && rng.Intn(2) == 0 {
		ln = nominal - 1
	}
	off := map[string]int{"zero": 0, "pos": 1 + rng.Intn(pieceLen), "neg": -1 - rng.Intn(3), na: 0}[c.Off]
	switch c.Typ {
	case "empty":
		return frame(nil)
	case "garbage":
		return frame(garbage)
	case "oversize":
		return oversizePrefix(v, rng)
	case "trunc":
		return frame(make([]byte, 200))[:4+rng.Intn(100)]
	case "unknown":
		return enc(&p2p.Message{Type: p2p.Message_Type(7 + rng.Intn(90))})
	case "complete":
		m := &p2p.Message{Type: p2p.Message_COMPLETE}
		if c.Body == "present" {
			m.Complete = &p2p.CompleteMessage{}
		}
		return enc(m)
	case "bitfield":
		m := &p2p.Message{Type: p2p.Message_BITFIELD}
		if c.Body == "present" {
			m.Bitfield = &p2p.BitfieldMessage{PeerID: v.peerID.String(), InfoHash: v.mi.InfoHash().String(),
				Name: v.digest.Hex(), BitfieldBytes: bitfieldBytes("exact_all", rng)}
		}
		return enc(m)
	case "request":
		m := &p2p.Message{Type: p2p.Message_PIECE_REQUEST}
		if c.Body == "present" {
			m.PieceRequest = &p2p.PieceRequestMessage{Index: int32(pi), Offset: int32(off), Length: int32(ln)}
		}
		return enc(m)
	case "announce":
		m := &p2p.Message{Type: p2p.Message_ANNOUCE_PIECE}
		if c.Body == "present" {
			m.AnnouncePiece = &p2p.AnnouncePieceMessage{Index: int32(pi)}
		}
		return enc(m)
	case "cancel":
		m := &p2p.Message{Type: p2p.Message_CANCEL_PIECE}
		if c.Body == "present" {
			m.CancelPiece = &p2p.CancelPieceMessage{Index: int32(pi)}
		}
		return enc(m)
	case "error":
		m := &p2p.Message{Type: p2p.Message_ERROR}
		if c.Body == "present" {
			code := p2p.ErrorMessage_PIECE_REQUEST_FAILED
			if c.Code == "other" {
				code = p2p.ErrorMessage_ErrorCode(3 + rng.Intn(50))
			}
			m.Error = &p2p.ErrorMessage{Index: int32(pi), Code: code, Error: "injected"}
		}
		return enc(m)
	case "payload":
		m := &p2p.Message{Type: p2p.Message_PIECE_PAYLOAD}
		if c.Body != "present" {
			return enc(m)
		}
		m.PiecePayload = &p2p.PiecePayloadMessage{Index: int32(pi), Offset: int32(off), Length: int32(ln)}
		out := enc(m)
		if ln <= 0 || ln > 1<<16 {
			return out // nothing follows (the stream ends for big / max)
		}
		body := make([]byte, ln)
		rng.Read(body)
		switch c.Data {
		case "good":
			copy(body, v.piece(pi))
		case "bad":
			copy(body, v.piece(pi))
			body[rng.Intn(len(body))] ^= 0x5a
		}
		return append(out, body...)
	}
	panic("message class " + c.Typ)
}

var markerBytes = enc(&p2p.Message{Type: p2p.Message_PIECE_REQUEST,
	PieceRequest: &p2p.PieceRequestMessage{Index: markerIdx}})

func isMarkerReply(m *p2p.Message) bool {
	return m.Type == p2p.Message_ERROR && m.GetError() != nil && m.GetError().Index == markerIdx
}

// exchange sends one case on an established connection and collects what the victim sends back until the
// marker's reply, the end of the stream, or a timeout (stuck).
type exchangeObs struct {
	served, errs int
	badpay       bool
	reqs         []int
	eof, stuck   bool
}

func (p *peer) exchange(data []byte, fin bool, want int, v *victim) exchangeObs {
	var o exchangeObs
	o.reqs = []int{}
	p.nc.SetWriteDeadline(time.Now().Add(waitReply))
	p.nc.Write(data) // a write error means the victim already closed: observed below as eof
	if fin {
		p.nc.CloseWrite()
	} else {
		p.nc.Write(markerBytes)
	}
	timeout := time.After(waitReply)
	for {
		select {
		case r, ok := <-p.frames:
			if !ok {
				o.eof = true
				return o
			}
			p.classify(r, want, v, &o)
			if isMarkerReply(r.m) {
				return o
			}
		case <-timeout:
			o.stuck = true
			return o
		}
	}
}

func (p *peer) classify(r reply, want int, v *victim, o *exchangeObs) {
	switch r.m.Type {
	case p2p.Message_PIECE_PAYLOAD:
		pp := r.m.GetPiecePayload()
		if pp == nil {
			o.badpay = true
			return
		}
		i := int(pp.Index)
		if i < 0 || i >= nPieces || (want >= 0 && i != want) || string(r.payload) != string(v.piece(i)) ||
			pp.Offset != 0 || int(pp.Length) != len(v.piece(i)) {
			o.badpay = true // bytes that are not the (requested) piece of the blob
		} else {
			o.served++
		}
	case p2p.Message_ERROR:
		if !isMarkerReply(r.m) {
			o.errs++
		}
	case p2p.Message_PIECE_REQUEST:
		if pr := r.m.GetPieceRequest(); pr != nil {
			o.reqs = append(o.reqs, int(pr.Index))
		} else {
			o.reqs = append(o.reqs, -99)
		}
	}
}

// drain waits for the end of the stream after the victim closed its side.
func (p *peer) drain() bool {
	timeout := time.After(waitDrain)
	for {
		select {
		case _, ok := <-p.frames:
			if !ok {
				return true
			}
		case <-timeout:
			return false
		}
	}
}

// request is the honest neighbour's probe: ask for piece i, expect exactly its bytes.
func (p *peer) request(i int, v *victim) bool {
	p.nc.SetWriteDeadline(time.Now().Add(waitReply))
	if _, err := p.nc.Write(enc(&p2p.Message{Type: p2p.Message_PIECE_REQUEST,
		PieceRequest: &p2p.PieceRequestMessage{Index: int32(i), Length: int32(len(v.piece(i)))}})); err != nil {
		return false
	}
	timeout := time.After(waitReply)
	for {
		select {
		case r, ok := <-p.frames:
			if !ok {
				return false
			}
			switch r.m.Type {
			case p2p.Message_PIECE_PAYLOAD:
				return r.m.GetPiecePayload() != nil && int(r.m.GetPiecePayload().Index) == i && string(r.payload) == string(v.piece(i))
			case p2p.Message_ERROR:
				return false
			}
		case <-timeout:
			return false
		}
	}
}

// dialIn: the remote peer dials the victim and sends first. Returns the socket (reader not started).
func dialIn(v *victim) (*net.TCPConn, error) {
	nc, err := net.DialTimeout("tcp", v.ln.Addr().String(), waitReply)
	if err != nil {
		return nil, err
	}
	return nc.(*net.TCPConn), nil
}

// readFrame reads one framed message (the victim's own handshake when it dials out).
func readFrame(nc net.Conn) error {
	nc.SetReadDeadline(time.Now().Add(waitReply))
	defer nc.SetReadDeadline(time.Time{})
	var l [4]byte
	if _, err := io.ReadFull(nc, l[:]); err != nil {
		return err
	}
	n := binary.BigEndian.Uint32(l[:])
	if n > 1<<20 {
		return errors.New("frame too large")
	}
	_, err := io.ReadFull(nc, make([]byte, n))
	return err
}
