// Package c20 records histories of the real announcequeue.QueueImpl (property C20).
package c20

import (
	"fmt"
	"math/rand"

	"github.com/uber/kraken/core"
	"github.com/uber/kraken/lib/torrent/scheduler/announcequeue"

	"kvh/internal/eng"
)

func init() { eng.Register("c20", run) }

func run(c *eng.Ctx) error {
	n := c.N(300, 6000)
	const nh = 5
	hashes := make([]core.InfoHash, nh)
	names := map[core.InfoHash]string{}
	for i := range hashes {
		hashes[i] = core.InfoHashFixture()
		names[hashes[i]] = fmt.Sprintf("h%d", i+1)
	}
	c.Traces(n, func(t int, rng *rand.Rand) {
		q := announcequeue.New()
		in := map[int]bool{} // generator precondition only: Add(h) is issued for torrents not in the queue
		c.W.Reset(t, nil)
		steps := 20 + rng.Intn(40)
		next := func() {
			h, ok := q.Next()
			res := "none"
			if ok {
				res = names[h]
				if res == "" {
					res = "unknown"
				}
			}
			c.W.Ev("Next", "res", res)
		}
		for s := 0; s < steps; s++ {
			i := rng.Intn(nh)
			switch k := rng.Intn(10); {
			case k < 3:
				if in[i] {
					next()
					continue
				}
				q.Add(hashes[i])
				in[i] = true
				c.W.Ev("Add", "h", names[hashes[i]])
			case k < 6:
				next()
			case k < 8:
				q.Ready(hashes[i])
				c.W.Ev("Ready", "h", names[hashes[i]])
			default:
				q.Eject(hashes[i])
				in[i] = false
				c.W.Ev("Eject", "h", names[hashes[i]])
			}
		}
		// drain: makes the hidden ready queue observable at the end of every history
		for d := 0; d < nh+1; d++ {
			next()
		}
	})
	return nil
}
