// Package c20 records histories of the real announcequeue.QueueImpl (property C20).
package c20

import (
	"crypto/sha256"
	"encoding/hex"
	"fmt"
	"math/rand"
	"net"
	"os"
	"time"

	"github.com/andres-erbsen/clock"
	"github.com/uber-go/tally"

	"github.com/uber/kraken/core"
	"github.com/uber/kraken/lib/store"
	"github.com/uber/kraken/lib/torrent/networkevent"
	"github.com/uber/kraken/lib/torrent/scheduler"
	"github.com/uber/kraken/lib/torrent/scheduler/announcequeue"
	"github.com/uber/kraken/lib/torrent/scheduler/conn"
	"github.com/uber/kraken/lib/torrent/storage"
	"github.com/uber/kraken/lib/torrent/storage/agentstorage"
	"github.com/uber/kraken/tracker/metainfoclient"

	"kvh/internal/eng"
)

// recQ records every call the scheduler makes on its announce queue as one trace event.
type recQ struct {
	q     *announcequeue.QueueImpl
	c     *eng.Ctx
	names map[core.InfoHash]string
}

func (r *recQ) Next() (core.InfoHash, bool) {
	h, ok := r.q.Next()
	res := "none"
	if ok {
		res = r.names[h]
	}
	r.c.W.Ev("Next", "res", res)
	return h, ok
}
func (r *recQ) Add(h core.InfoHash)   { r.c.W.Ev("Add", "h", r.names[h]); r.q.Add(h) }
func (r *recQ) Ready(h core.InfoHash) { r.c.W.Ev("Ready", "h", r.names[h]); r.q.Ready(h) }
func (r *recQ) Eject(h core.InfoHash) { r.c.W.Ev("Eject", "h", r.names[h]); r.q.Eject(h) }

// system family: the scheduler's own events (add torrent, announce tick with saturated torrents, announce
// result / error, removal) applied to a real scheduler state; the queue call stream must be a legal history.
func system(c *eng.Ctx, t int, rng *rand.Rand, dir string) {
	defer os.RemoveAll(dir)
	cads, err := store.NewCADownloadStore(store.CADownloadStoreConfig{DownloadDir: dir + "/download", CacheDir: dir + "/cache"}, tally.NoopScope)
	if err != nil {
		panic(err)
	}
	defer cads.Close()
	tc := metainfoclient.NewTestClient()
	ta := agentstorage.NewTorrentArchive(tally.NoopScope, cads, tc)
	const nt = 3
	var torrents []storage.Torrent
	var infos []*storage.TorrentInfo
	names := map[core.InfoHash]string{}
	for i := 0; i < nt; i++ {
		blob := make([]byte, 8+i)
		rng.Read(blob)
		sum := sha256.Sum256(blob)
		d, _ := core.NewSHA256DigestFromHex(hex.EncodeToString(sum[:]))
		mi, err := core.NewMetaInfoFromBytes(d, blob, 4)
		if err != nil {
			panic(err)
		}
		tc.Upload(mi)
		tor, err := ta.CreateTorrent("ns", d)
		if err != nil {
			panic(err)
		}
		torrents = append(torrents, tor)
		names[tor.InfoHash()] = fmt.Sprintf("h%d", i+1)
		info, err := ta.Stat("ns", d)
		if err != nil {
			panic(err)
		}
		infos = append(infos, info)
	}
	c.W.Reset(t, map[string]any{"family": "system"})
	rq := &recQ{q: announcequeue.New(), c: c, names: names}
	clk := clock.NewMock()
	clk.Set(time.Unix(1700000000, 0))
	cfg := scheduler.Config{SeederTTI: time.Hour, LeecherTTI: time.Hour, ConnTTI: time.Hour, ConnTTL: time.Hour,
		DisablePreemption: true, EmitStatsInterval: time.Hour, PreemptionInterval: time.Hour, ProbeTimeout: time.Second}
	cfg.ConnState.MaxOpenConnectionsPerTorrent = 1 + rng.Intn(2)
	pctx := core.PeerContextFixture()
	vs, err := scheduler.NewVerifState(cfg, ta, pctx, clk, rq, networkevent.NewTestProducer())
	if err != nil {
		panic(err)
	}
	defer vs.Close()
	hs := conn.HandshakerFixture(conn.Config{})
	type slot struct {
		p core.PeerID
		c *conn.Conn
	}
	pend := map[int][]slot{}
	steps := 15 + rng.Intn(25)
	for s := 0; s < steps; s++ {
		i := rng.Intn(nt)
		h := torrents[i].InfoHash()
		switch k := rng.Intn(12); {
		case k < 3:
			if !vs.HasControl(h) {
				// a removed (leeching) torrent was deleted from the archive: create it again, as a new download would
				if tor, err := ta.CreateTorrent("ns", torrents[i].Digest()); err == nil {
					vs.AddTorrent("ns", tor)
				}
			}
		case k < 6:
			vs.AnnounceTick()
		case k < 7:
			vs.AnnounceResult(h)
		case k < 8:
			vs.AnnounceErr(h)
		case k < 9:
			if vs.HasControl(h) {
				vs.RemoveTorrent(h)
			}
		case k < 11: // saturate: fill every connection slot of the torrent with an ACTIVE conn
			for len(pend[i]) < cfg.ConnState.MaxOpenConnectionsPerTorrent {
				p := core.PeerIDFixture()
				if vs.AddPending(p, h) != nil {
					break
				}
				near, far := net.Pipe()
				defer near.Close()
				defer far.Close()
				cn, err := conn.VerifC16NewConn(hs, near, p, infos[i], false)
				if err != nil {
					panic(err)
				}
				if vs.MoveToActive(cn) != nil {
					vs.DeletePending(p, h)
					break
				}
				pend[i] = append(pend[i], slot{p, cn})
			}
		default:
			for _, sl := range pend[i] {
				vs.DeleteActive(sl.c)
			}
			pend[i] = nil
		}
	}
	for d := 0; d < nt+2; d++ { // drain
		rq.Next()
	}
}

func init() { eng.Register("c20", run) }

func run(c *eng.Ctx) error {
	n := c.N(300, 6000)
	const nh = 5
	hashes := make([]core.InfoHash, nh)
	names := map[core.InfoHash]string{}
	for i := range hashes {
		hashes[i] = core.InfoHashFixture()
		names[hashes[i]] = fmt.Sprintf("h%d", i+1)
	}
	root, err := os.MkdirTemp("", "kvh-c20-")
	if err != nil {
		return err
	}
	defer os.RemoveAll(root)
	c.Traces(n, func(t int, rng *rand.Rand) {
		if t%4 == 3 {
			system(c, t, rng, fmt.Sprintf("%s/t%d", root, t))
			return
		}
		q := announcequeue.New()
		in := map[int]bool{} // generator precondition only: Add(h) is issued for torrents not in the queue
		c.W.Reset(t, nil)
		steps := 20 + rng.Intn(40)
		next := func() {
			h, ok := q.Next()
			res := "none"
			if ok {
				res = names[h]
				if res == "" {
					res = "unknown"
				}
			}
			c.W.Ev("Next", "res", res)
		}
		for s := 0; s < steps; s++ {
			i := rng.Intn(nh)
			switch k := rng.Intn(10); {
			case k < 3:
				if in[i] {
					next()
					continue
				}
				q.Add(hashes[i])
				in[i] = true
				c.W.Ev("Add", "h", names[hashes[i]])
			case k < 6:
				next()
			case k < 8:
				q.Ready(hashes[i])
				c.W.Ev("Ready", "h", names[hashes[i]])
			default:
				q.Eject(hashes[i])
				in[i] = false
				c.W.Ev("Eject", "h", names[hashes[i]])
			}
		}
		// drain: makes the hidden ready queue observable at the end of every history
		for d := 0; d < nh+1; d++ {
			next()
		}
	})
	return nil
}
