// Package c27 records histories of the real peerstore.LocalStore (property C27) for validation
// against spec/tracker/PeerStore.tla.
//
// Three kinds of traces (cfg.mode):
//
//	seq    one goroutine: UpdatePeer / GetPeers / clock advance / entries pass / groups pass,
//	       every record with a projection of the real store (through the export-only shim).
//	conc   rounds of 2-4 goroutines (announcers, readers, one cleaner) released together; call and
//	       return records; cleanup's clock reads are slowed so that announcements land inside the
//	       pass.  Between rounds: projection, full reads, clock advance (never during a round).
//	window the entries pass is parked at its first clock read (it then holds the group's read lock),
//	       announcements for that group are started (they queue on the write lock and therefore run
//	       exactly between the pass's scan and its removal phase), then the pass is released.
package c27

import (
	"fmt"
	"math/rand"
	"sync"
	"time"

	"github.com/uber/kraken/core"
	"github.com/uber/kraken/tracker/peerstore"

	"kvh/engines/trk"
	"kvh/internal/eng"
)

func init() { eng.Register("c27", run) }

const (
	nh, np, na = 3, 5, 3
)

var ttls = []int{2, 3, 5}
var asks = []int{-1, 0, 1, 2, 3, 5, 50}

type drv struct {
	c   *eng.Ctx
	w   *trk.World
	clk *trk.GateClock
	s   *peerstore.LocalStore
	rng *rand.Rand
}

type upd struct {
	h, p, a int
	c       bool
}

func (d *drv) randUpd(hmax int) upd {
	return upd{d.rng.Intn(hmax), d.rng.Intn(np), d.rng.Intn(na), d.rng.Intn(3) == 0}
}

func (d *drv) doUpdate(u upd) {
	a := d.w.Addrs[u.a]
	_ = d.s.UpdatePeer(d.w.Hashes[u.h], core.NewPeerInfo(d.w.Peers[u.p], a.IP, a.Port, false, u.c))
}

func (d *drv) updArgs(u upd) []any {
	return []any{"h", fmt.Sprintf("h%d", u.h+1), "p", fmt.Sprintf("p%d", u.p+1), "a", fmt.Sprintf("a%d", u.a+1), "c", u.c}
}

func (d *drv) getArgs(h, n int) (res []any) {
	ps, err := d.s.GetPeers(d.w.Hashes[h], n)
	ids, addrs, _, cs := d.w.Reply(ps)
	return []any{"ids", ids, "addrs", addrs, "cs", cs, "err", err != nil}
}

func (d *drv) obs() []any { return d.w.Obs(d.s, d.clk.Mock.Now()) }

func cat(a ...[]any) []any {
	var out []any
	for _, x := range a {
		out = append(out, x...)
	}
	return out
}

// ---- sequential records
func (d *drv) seqUpdate(u upd) {
	d.doUpdate(u)
	d.c.W.Ev("Update", cat([]any{"g", 0}, d.updArgs(u), d.obs())...)
}
func (d *drv) seqGet(h, n int) {
	r := d.getArgs(h, n)
	d.c.W.Ev("Get", cat([]any{"g", 0, "h", fmt.Sprintf("h%d", h+1), "n", n}, r, d.obs())...)
}
func (d *drv) seqTick(k int) {
	d.clk.Add(time.Duration(k) * time.Second)
	d.c.W.Ev("Tick", cat([]any{"g", 0, "d", k}, d.obs())...)
}
func (d *drv) seqCleanE() {
	d.s.VerifCleanupEntries()
	d.c.W.Ev("CleanEntries", cat([]any{"g", 0}, d.obs())...)
}
func (d *drv) seqCleanG() {
	d.s.VerifCleanupGroups()
	d.c.W.Ev("CleanGroups", cat([]any{"g", 0}, d.obs())...)
}
func (d *drv) snap() { d.c.W.Ev("Snap", cat([]any{"g", 0}, d.obs())...) }

// ---- concurrent records
func (d *drv) concUpdate(g int, u upd) {
	d.c.W.Ev("call:Update", cat([]any{"g", g}, d.updArgs(u))...)
	d.doUpdate(u)
	d.c.W.Ev("ret:Update", "g", g)
}
func (d *drv) concGet(g, h, n int) {
	d.c.W.Ev("call:Get", "g", g, "h", fmt.Sprintf("h%d", h+1), "n", n)
	r := d.getArgs(h, n)
	d.c.W.Ev("ret:Get", cat([]any{"g", g}, r)...)
}
func (d *drv) concCleanE(g int) {
	d.c.W.Ev("call:CleanEntries", "g", g)
	d.s.VerifCleanupEntries()
	d.c.W.Ev("ret:CleanEntries", "g", g)
}
func (d *drv) concCleanG(g int) {
	d.c.W.Ev("call:CleanGroups", "g", g)
	d.s.VerifCleanupGroups()
	d.c.W.Ev("ret:CleanGroups", "g", g)
}

func run(c *eng.Ctx) error {
	w := trk.NewWorld(nh, np, na, 0)
	nSeq, nConc, nWin, nLag := c.N(110, 1200), c.N(40, 400), c.N(24, 240), c.N(16, 160)
	forced, hit, lagged := 0, 0, 0
	c.Traces(nSeq+nConc+nWin+nLag, func(t int, rng *rand.Rand) {
		ttl := ttls[rng.Intn(len(ttls))]
		clk := trk.NewGateClock(w.Base)
		s := peerstore.NewLocalStore(peerstore.LocalConfig{TTL: time.Duration(ttl) * time.Second}, clk)
		defer s.Close()
		d := &drv{c: c, w: w, clk: clk, s: s, rng: rng}
		switch {
		case t < nSeq:
			c.W.Reset(t, map[string]any{"ttl": ttl, "mode": "seq"})
			d.sequential(30 + rng.Intn(40))
		case t < nSeq+nConc:
			c.W.Reset(t, map[string]any{"ttl": ttl, "mode": "conc"})
			d.concurrent()
		case t < nSeq+nConc+nWin:
			c.W.Reset(t, map[string]any{"ttl": ttl, "mode": "window"})
			f, h := d.window(ttl)
			forced += f
			hit += h
		default:
			c.W.Reset(t, map[string]any{"ttl": ttl, "mode": "lag"})
			lagged += d.lag(ttl)
		}
	})
	c.Stats["lagged_announcers"] = lagged
	if c.Only < 0 && nLag > 0 && lagged < nLag {
		return fmt.Errorf("dead driver: only %d announcers were parked at their clock read in %d lag histories", lagged, nLag)
	}
	c.Stats["windows_forced"] = forced
	c.Stats["windows_hit"] = hit
	if c.Only < 0 && forced > 0 && hit*2 < forced {
		// the gate no longer lands announcements inside the entries pass (function renamed? lock order changed?)
		return fmt.Errorf("dead driver: only %d of %d forced cleanup windows were hit", hit, forced)
	}
	return nil
}

func (d *drv) sequential(steps int) {
	rng := d.rng
	hmax := 1 + rng.Intn(nh)
	for i := 0; i < steps; i++ {
		switch k := rng.Intn(20); {
		case k < 7:
			d.seqUpdate(d.randUpd(hmax))
		case k < 12:
			d.seqGet(rng.Intn(hmax), asks[rng.Intn(len(asks))])
		case k < 16:
			d.seqTick(1 + rng.Intn(3))
		case k < 18:
			d.seqCleanE()
		default:
			d.seqCleanG()
		}
	}
	for h := 0; h < hmax; h++ {
		d.seqGet(h, 50)
	}
}

// between concurrent phases: projection, a full read of every torrent
func (d *drv) settle() {
	d.snap()
	for h := 0; h < nh; h++ {
		d.seqGet(h, 50)
	}
}

func (d *drv) concurrent() {
	rng := d.rng
	hmax := 1 + rng.Intn(2)
	for i := 0; i < 4+rng.Intn(4); i++ {
		d.seqUpdate(d.randUpd(hmax))
		if rng.Intn(3) == 0 {
			d.seqTick(1 + rng.Intn(2))
		}
	}
	d.clk.SlowCleanup(time.Duration(20+rng.Intn(60)) * time.Microsecond)
	defer d.clk.Disarm()
	rounds := 3 + rng.Intn(3)
	for r := 0; r < rounds; r++ {
		d.seqTick(1 + rng.Intn(3))
		type op struct {
			kind int
			u    upd
			h, n int
		}
		ng := 2 + rng.Intn(3)
		plans := make([][]op, ng)
		for g := range plans {
			nops := 1 + rng.Intn(2)
			for j := 0; j < nops; j++ {
				switch {
				case g == 0: // the cleaner
					plans[g] = append(plans[g], op{kind: 2 + rng.Intn(2)})
				case rng.Intn(4) == 0:
					plans[g] = append(plans[g], op{kind: 1, h: rng.Intn(hmax), n: asks[2+rng.Intn(len(asks)-2)]})
				default:
					plans[g] = append(plans[g], op{kind: 0, u: d.randUpd(hmax)})
				}
			}
		}
		start := make(chan struct{})
		var wg sync.WaitGroup
		for g := range plans {
			wg.Add(1)
			go func(g int) {
				defer wg.Done()
				<-start
				for _, o := range plans[g] {
					switch o.kind {
					case 0:
						d.concUpdate(g+1, o.u)
					case 1:
						d.concGet(g+1, o.h, o.n)
					case 2:
						d.concCleanE(g + 1)
					case 3:
						d.concCleanG(g + 1)
					}
				}
			}(g)
		}
		close(start)
		wg.Wait()
		d.settle()
	}
}

// window forces announcements into the gap between the scan and the removal phase of one entries pass.
func (d *drv) window(ttl int) (forced, hit int) {
	rng := d.rng
	// one torrent, 2-4 entries, some of them about to expire
	k := 2 + rng.Intn(3)
	perm := rng.Perm(np)
	for i := 0; i < k; i++ {
		d.seqUpdate(upd{0, perm[i], rng.Intn(na), rng.Intn(3) == 0})
		if rng.Intn(2) == 0 {
			d.seqTick(1)
		}
	}
	d.seqTick(ttl + 1) // everything listed so far is expired
	if rng.Intn(2) == 0 {
		d.seqUpdate(upd{0, perm[k], rng.Intn(na), false}) // plus one fresh entry
	}
	rounds := 1 + rng.Intn(2)
	for r := 0; r < rounds; r++ {
		// announcements to land in the window: renewals of listed peers and/or a newcomer
		var us []upd
		for i := 0; i < 1+rng.Intn(2); i++ {
			us = append(us, upd{0, perm[rng.Intn(np)], rng.Intn(na), rng.Intn(3) == 0})
		}
		if us[len(us)-1].p == us[0].p && len(us) > 1 {
			us = us[:1]
		}
		reached, hold := d.clk.Arm(trk.KEntries)
		var wg sync.WaitGroup
		wg.Add(1)
		go func() { defer wg.Done(); d.concCleanE(1); d.clk.Mark('r') }()
		parked := false
		select {
		case <-reached:
			parked = true
		case <-time.After(2 * time.Second):
		}
		if parked {
			forced++
			started := make(chan struct{}, len(us))
			for i, u := range us {
				wg.Add(1)
				go func(g int, u upd) {
					defer wg.Done()
					d.c.W.Ev("call:Update", cat([]any{"g", g}, d.updArgs(u))...)
					started <- struct{}{}
					d.doUpdate(u)
					d.c.W.Ev("ret:Update", "g", g)
				}(i+2, u)
			}
			for range us {
				<-started
			}
			time.Sleep(400 * time.Microsecond) // let them queue on the group's write lock
		}
		close(hold)
		wg.Wait()
		if parked && d.clk.Between(trk.KEntries, trk.KUpdate, 'r') {
			hit++
		}
		d.clk.Disarm()
		d.settle()
		// the double index must still be coherent: renew everybody once more and read again
		for i := 0; i < np; i++ {
			if i == 0 || rng.Intn(2) == 0 {
				d.seqUpdate(upd{0, i, rng.Intn(na), false})
			}
		}
		d.seqGet(0, 50)
		d.seqTick(ttl + 1)
	}
	d.seqCleanE()
	d.seqGet(0, 50)
	return
}

// lag: an announcer is slow between reading the clock and the rest of its call (parked inside the clock dependency,
// answered with the time at which it arrived); meanwhile the clock moves and a second announcement is made.  Whatever the
// store does, the history must be linearizable: afterwards, at an instant at which the first announcement has expired and
// the second has not, cleanup passes must keep the second.
func (d *drv) lag(ttl int) (parkedN int) {
	rng := d.rng
	perm := rng.Perm(np)
	for i := 0; i < 1+rng.Intn(3); i++ {
		d.seqUpdate(upd{0, perm[i], rng.Intn(na), false})
		if rng.Intn(2) == 0 {
			d.seqTick(1)
		}
	}
	for r := 0; r < 1+rng.Intn(2); r++ {
		u1 := upd{0, perm[rng.Intn(np)], rng.Intn(na), rng.Intn(3) == 0}
		u2 := upd{0, perm[rng.Intn(np)], rng.Intn(na), rng.Intn(3) == 0}
		if rng.Intn(3) == 0 {
			u2.p = u1.p // the same peer announces twice
		}
		reached, hold := d.clk.ArmStale(trk.KUpdate)
		var wg sync.WaitGroup
		wg.Add(1)
		go func() { defer wg.Done(); d.concUpdate(1, u1) }()
		parked := false
		select {
		case <-reached:
			parked = true
		case <-time.After(2 * time.Second):
		}
		if parked {
			parkedN++
			dt := 1 + rng.Intn(2)
			d.clk.Add(time.Duration(dt) * time.Second)
			d.c.W.Ev("TickBusy", "g", 0, "d", dt)
			done2 := make(chan struct{})
			wg.Add(1)
			go func() { defer wg.Done(); d.concUpdate(2, u2); close(done2) }()
			select { // an announcer that holds the group lock while it reads the clock keeps the second one waiting
			case <-done2:
			case <-time.After(30 * time.Millisecond):
			}
		}
		close(hold)
		wg.Wait()
		d.clk.Disarm()
		d.snap()
		d.seqTick(ttl) // the parked announcement has expired by now, the second one has not
		if rng.Intn(2) == 0 {
			d.seqCleanG()
			d.seqCleanE()
		} else {
			d.seqCleanE()
			d.seqCleanG()
		}
		d.seqGet(0, 50)
		d.seqUpdate(upd{0, perm[rng.Intn(np)], rng.Intn(na), false})
	}
	return
}
