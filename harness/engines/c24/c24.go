// Package c24 records histories of the real healthcheck.PassiveFilter and healthcheck.Passive on a
// clock.Mock (property C24) for validation against spec/health/PassiveHealth.tla.
//
// Families of traces (ids in this order):
//
//	A  exhaustive timelines: at every time point 0..T-1 host h1 fails n_t times, every (n_t) in {0..amax}^T,
//	   for every Fails in 1..3 and FailTimeout in 1..3 ticks; h2 runs the mirrored timeline, h3 never fails.
//	   After the failures of every time point: PassiveFilter.Run on all hosts and Passive.Resolve on {h1,h2}.
//	A2 (thorough) the same with at most one failure per time point over a longer clock
//	B  seeded random: 3 hosts, 25-45 calls of Failed / Tick(1..4) / Run(subset) / Resolve / SetList
package c24

import (
	"math/rand"
	"sort"
	"time"

	"github.com/andres-erbsen/clock"

	"github.com/uber/kraken/lib/healthcheck"
	"github.com/uber/kraken/utils/stringset"

	"kvh/internal/eng"
)

func init() { eng.Register("c24", run) }

const tick = time.Minute

var hosts = []string{"h1", "h2", "h3"}

// mutableList is the hostlist.List wrapped by Passive.
type mutableList struct{ cur stringset.Set }

func (m *mutableList) Resolve() stringset.Set { return m.cur.Copy() }

func sorted(s stringset.Set) []string {
	r := make([]string, 0, len(s))
	for x := range s {
		r = append(r, x)
	}
	sort.Strings(r)
	return r
}

type driver struct {
	c     *eng.Ctx
	clk   *clock.Mock
	start time.Time
	f     healthcheck.PassiveFilter
	p     *healthcheck.Passive
	l     *mutableList
	nf    int
}

func newDriver(c *eng.Ctx, t int, fails, ft int, fam string) *driver {
	clk := clock.NewMock()
	d := &driver{c: c, clk: clk, start: clk.Now(), l: &mutableList{cur: stringset.New()}}
	d.f = healthcheck.NewPassiveFilter(healthcheck.PassiveFilterConfig{Fails: fails, FailTimeout: time.Duration(ft) * tick}, clk)
	d.p = healthcheck.NewPassive(d.l, d.f)
	c.W.Reset(t, map[string]any{"fails": fails, "ft": ft, "fam": fam})
	return d
}

func (d *driver) failed(h string) {
	d.nf++
	via := "filter"
	if d.nf%2 == 0 {
		via = "passive"
		d.p.Failed(h)
	} else {
		d.f.Failed(h)
	}
	d.c.W.Ev("Failed", "h", h, "via", via)
}

func (d *driver) tickBy(n int) {
	d.clk.Add(time.Duration(n) * tick)
	d.c.W.Ev("Tick", "d", n, "now", int(d.clk.Now().Sub(d.start)/tick))
}

func (d *driver) runOn(addrs []string) {
	res := d.f.Run(stringset.New(addrs...))
	d.c.W.Ev("Run", "addrs", addrs, "res", sorted(res))
}

func (d *driver) setList(hs []string) {
	d.l.cur = stringset.New(hs...)
	d.c.W.Ev("SetList", "hosts", hs)
}

func (d *driver) resolve() {
	d.c.W.Ev("Resolve", "res", sorted(d.p.Resolve()))
}

func pow(b, e int) int {
	r := 1
	for ; e > 0; e-- {
		r *= b
	}
	return r
}

func run(c *eng.Ctx) error {
	T1, a1 := c.N(4, 5), 3 // family A: time points, alphabet size (0..2 failures per point)
	nA := 9 * pow(a1, T1)
	T2, a2 := 8, 2
	nA2 := 0
	if !c.Quick() {
		nA2 = 9 * pow(a2, T2)
	}
	nB := c.N(200, 1500)
	c.Stats["exhaustive"] = true
	c.Stats["families"] = map[string]int{"A_exhaustive_timelines": nA, "A2_exhaustive_long": nA2, "B_random": nB}

	timeline := func(t, per, T, a int, fam string) {
		cfg, seq := t/per, t%per
		d := newDriver(c, t, cfg/3+1, cfg%3+1, fam)
		mir := per - 1 - seq
		d.setList([]string{"h1", "h2"})
		for i := 0; i < T; i++ {
			n1, n2 := seq%a, mir%a
			seq, mir = seq/a, mir/a
			for k := 0; k < n1 || k < n2; k++ { // interleave same-instant failures of the two hosts
				if k < n1 {
					d.failed("h1")
				}
				if k < n2 {
					d.failed("h2")
				}
			}
			d.runOn([]string{"h1", "h2", "h3"})
			d.resolve()
			d.tickBy(1)
		}
		// let everything expire: three more observations one FailTimeout apart
		d.runOn([]string{"h1", "h2", "h3"})
		d.tickBy(cfg%3 + 1)
		d.runOn([]string{"h1", "h2", "h3"})
		d.resolve()
	}

	c.Traces(nA+nA2+nB, func(t int, rng *rand.Rand) {
		switch {
		case t < nA:
			timeline(t, pow(a1, T1), T1, a1, "A")
		case t < nA+nA2:
			timeline(t-nA, pow(a2, T2), T2, a2, "A2")
			return
		default:
			d := newDriver(c, t, 1+rng.Intn(3), 1+rng.Intn(3), "B")
			sub := func() []string {
				s := []string{}
				for _, h := range hosts {
					if rng.Intn(3) > 0 {
						s = append(s, h)
					}
				}
				return s
			}
			d.setList(sub())
			// one or two "flaky" hosts fail much more often, so that windows fill up
			w := []int{1 + rng.Intn(6), 1 + rng.Intn(6), 1 + rng.Intn(3)}
			pick := func() string {
				x := rng.Intn(w[0] + w[1] + w[2])
				switch {
				case x < w[0]:
					return "h1"
				case x < w[0]+w[1]:
					return "h2"
				}
				return "h3"
			}
			n := 25 + rng.Intn(21)
			for i := 0; i < n; i++ {
				switch k := rng.Intn(100); {
				case k < 40:
					d.failed(pick())
				case k < 62:
					d.tickBy(1 + rng.Intn(4))
				case k < 80:
					d.runOn(sub())
				case k < 94:
					d.resolve()
				default:
					d.setList(sub())
				}
			}
			d.runOn([]string{"h1", "h2", "h3"})
			d.resolve()
		}
	})
	return nil
}
