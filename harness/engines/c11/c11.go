// Package c11 drives client-supplied names (tags, upload ids, file names) through the real build-index
// tagserver, the real origin blobserver and the store API, inside a per-trace sandbox that is seeded with
// canary files outside the store roots, and records reply classes and outside effects (property C11).
//
// The names are the token sequences of spec/store/StoreNames.tla (same token alphabet); a token's wire
// text is the token itself. HTTP requests are written byte by byte on a raw TCP connection so that no
// client-side normalisation of the path takes place. The engine never decides anything: it logs
// res / chg / newout / served and the trace specification recomputes the decoded name, the resolved
// path and Inside from the logged tokens.
package c11

import (
	"bufio"
	"bytes"
	"crypto/sha256"
	"encoding/hex"
	"fmt"
	"io"
	"io/fs"
	"math/rand"
	"net"
	"net/http"
	"net/http/httptest"
	"net/url"
	"os"
	"path/filepath"
	"strings"
	"time"

	"github.com/andres-erbsen/clock"
	"github.com/uber-go/tally"
	"go.opentelemetry.io/otel/trace/noop"

	"github.com/uber/kraken/build-index/tagclient"
	"github.com/uber/kraken/build-index/tagserver"
	"github.com/uber/kraken/build-index/tagstore"
	"github.com/uber/kraken/core"
	"github.com/uber/kraken/lib/backend"
	"github.com/uber/kraken/lib/backend/backenderrors"
	"github.com/uber/kraken/lib/blobrefresh"
	"github.com/uber/kraken/lib/hashring"
	"github.com/uber/kraken/lib/healthcheck"
	"github.com/uber/kraken/lib/metainfogen"
	"github.com/uber/kraken/lib/persistedretry"
	"github.com/uber/kraken/lib/persistedretry/tagreplication"
	"github.com/uber/kraken/lib/store"
	"github.com/uber/kraken/lib/store/metadata"
	"github.com/uber/kraken/origin/blobclient"
	"github.com/uber/kraken/origin/blobserver"
	"github.com/uber/kraken/utils/stringset"

	"kvh/internal/eng"
)

func init() { eng.Register("c11", run) }

// tokens of StoreNames.tla (Tokens); wire text of a token = the token.
var tokens = []string{"x", "y", ".", "..", "/", "%2E", "%2e", "%2F", "%2f", "%252E", "%252F", "%25", "%"}

// wiresOfLen enumerates all token sequences of exactly n tokens in index order.
func wiresOfLen(n int) [][]string {
	out := [][]string{{}}
	for i := 0; i < n; i++ {
		var nx [][]string
		for _, w := range out {
			for _, t := range tokens {
				v := make([]string, len(w)+1)
				copy(v, w)
				v[len(w)] = t
				nx = append(nx, v)
			}
		}
		out = nx
	}
	return out
}

func flat(toks []string) string { return strings.Join(toks, "") }

// decodeHTTP is an INSTRUMENT (not the oracle): which name do net/url + a chi-like segment split + one
// PathUnescape produce for this wire text. Used only to keep the F11 name class (decoded "..") out of the
// bulk traces, to pick encodings for the dedicated F11 traces and to log dname for the known-finding signature.
func decodeHTTP(w string) (string, string) {
	u, err := url.ParseRequestURI("/p/" + w + "/q")
	if err != nil {
		return "", "badreq"
	}
	rp := u.RawPath
	if rp == "" {
		rp = u.Path
	}
	if !strings.HasPrefix(rp, "/p/") || !strings.HasSuffix(rp, "/q") || len(rp) < 5 {
		return "", "noroute"
	}
	seg := rp[3 : len(rp)-2]
	if strings.Contains(seg, "/") {
		return "", "noroute"
	}
	if seg == "" {
		return "", "empty"
	}
	n, err := url.PathUnescape(seg)
	if err != nil {
		return "", "badparam"
	}
	return n, "name"
}

func decode(via string, toks []string) (string, string) {
	if via == "api" {
		return flat(toks), "name"
	}
	return decodeHTTP(flat(toks))
}

var httpOps = map[string]bool{"TagPut": true, "TagDupPut": true, "TagGet": true, "TagReplicate": true, "TagHead": true,
	"UpPatch": true, "UpIPatch": true, "UpCommit": true, "UpICommit": true, "UpDupCommit": true}

func via(op string) string {
	if httpOps[op] {
		return "http"
	}
	return "api"
}

type kase struct {
	op          string
	toks, toks2 []string
}

func (k kase) f11() bool {
	n, kd := decode(via(k.op), k.toks)
	if kd == "name" && n == ".." {
		return true
	}
	if k.op == "StMove" {
		n2, _ := decode("api", k.toks2)
		return n2 == ".."
	}
	return false
}

type tracePlan struct {
	kind  string // "tag" | "origin" | "api"
	f11   bool
	cases []kase
}

var (
	tY      = []string{"y"}
	preOrig = [][]string{{"y"}, {"x", "/", "y"}, {"%2E", "%2E"}, {"..", "."}} // literal upload names pre-created on the origin
)

func tagFull(w []string) []kase {
	return []kase{{"TagGet", w, nil}, {"TagHead", w, nil}, {"TagPut", w, nil}, {"TagGet", w, nil}, {"TagReplicate", w, nil}, {"TagDupPut", w, nil}}
}
func tagLight(w []string) []kase { return []kase{{"TagPut", w, nil}, {"TagGet", w, nil}} }
func origFull(w []string) []kase {
	return []kase{{"UpPatch", w, nil}, {"UpIPatch", w, nil}, {"UpCommit", w, nil}, {"UpICommit", w, nil}, {"UpDupCommit", w, nil}}
}
func origLight(w []string) []kase { return []kase{{"UpPatch", w, nil}, {"UpCommit", w, nil}} }
func apiFull(w []string) []kase {
	return []kase{
		{"StGetCache", w, nil}, {"StCreateCache", w, nil}, {"StGetCache", w, nil}, {"StStatCache", w, nil},
		{"StSetMeta", w, nil}, {"StDeleteCache", w, nil}, {"StGetCache", w, nil},
		{"StCreateUpload", w, nil}, {"StCreateUpload", w, nil}, {"StWriteUpload", w, nil}, {"StMove", w, w},
		{"StStatCache", w, nil}, {"StDeleteCache", w, nil},
		{"StCreateUpload", w, nil}, {"StDeleteUpload", w, nil}, {"StDeleteUpload", w, nil},
		{"StCreateUpload", w, nil}, {"StMove", w, tY}, {"StDeleteCache", tY, nil}, {"StDeleteUpload", w, nil},
		{"StCreateUpload", tY, nil}, {"StMove", tY, w}, {"StDeleteCache", w, nil}, {"StDeleteUpload", tY, nil},
	}
}
func apiLight(w []string) []kase { return []kase{{"StCreateCache", w, nil}, {"StDeleteCache", w, nil}} }

const maxEv = 240 // events per trace (keeps TLC states and error traces small)

func buildPlan(c *eng.Ctx) ([]tracePlan, map[string]int) {
	prng := rand.New(rand.NewSource(c.Seed*7919 + 5))
	stat := map[string]int{}
	var w2, w3, w4 [][]string
	for n := 0; n <= 2; n++ {
		w2 = append(w2, wiresOfLen(n)...)
	}
	w3 = wiresOfLen(3)
	fullW, lightW := w2, w3
	var sample [][]string
	if c.Quick() {
		for _, i := range prng.Perm(len(w3))[:60] {
			sample = append(sample, w3[i])
		}
	} else {
		fullW = append(append([][]string{}, w2...), w3...)
		w4 = wiresOfLen(4)
		lightW = w4
	}
	stat["wires_full"] = len(fullW) + len(sample)
	stat["wires_light"] = len(lightW)

	var plan []tracePlan
	// ---- dedicated F11 traces FIRST (each is rejected by the strict spec; see known_findings.d/C11.json)
	var enc [][]string // all wire encodings (<= 2 tokens) that an HTTP server decodes to ".."
	for _, w := range w2 {
		if n, k := decodeHTTP(flat(w)); k == "name" && n == ".." {
			enc = append(enc, w)
		}
	}
	lit := [][]string{{".."}, {".", "."}}
	f11ops := []struct{ kind, op string }{{"tag", "TagPut"}, {"origin", "UpPatch"}, {"api", "StCreateCache"}}
	if !c.Quick() {
		f11ops = append(f11ops, []struct{ kind, op string }{
			{"tag", "TagGet"}, {"tag", "TagReplicate"}, {"tag", "TagDupPut"},
			{"origin", "UpIPatch"}, {"origin", "UpCommit"}, {"origin", "UpICommit"}, {"origin", "UpDupCommit"},
			{"api", "StGetCache"}, {"api", "StStatCache"}, {"api", "StSetMeta"}, {"api", "StDeleteCache"},
			{"api", "StCreateUpload"}, {"api", "StWriteUpload"}, {"api", "StDeleteUpload"},
			{"api", "StMoveFrom"}, {"api", "StMoveTo"}}...)
	}
	for _, fo := range f11ops {
		e := enc[prng.Intn(len(enc))]
		l := lit[prng.Intn(len(lit))]
		var cs []kase
		switch fo.kind {
		case "tag":
			cs = []kase{{"TagPut", []string{"x"}, nil}, {"TagGet", []string{"x"}, nil}, {fo.op, e, nil}}
		case "origin":
			cs = []kase{{"UpPatch", tY, nil}, {fo.op, e, nil}}
		default:
			cs = []kase{{"StCreateCache", []string{"x"}, nil}, {"StCreateUpload", tY, nil}}
			switch fo.op {
			case "StMoveFrom":
				cs = append(cs, kase{"StMove", l, []string{"x", "y"}})
			case "StMoveTo":
				cs = append(cs, kase{"StMove", tY, l})
			default:
				cs = append(cs, kase{fo.op, l, nil})
			}
		}
		plan = append(plan, tracePlan{kind: fo.kind, f11: true, cases: cs})
	}
	stat["f11_traces"] = len(plan)

	// ---- bulk traces: every wire, F11 name class excluded
	add := func(kind string, gen func([]string) []kase, ws [][]string) {
		var cur []kase
		flush := func() {
			if len(cur) > 0 {
				plan = append(plan, tracePlan{kind: kind, cases: cur})
				cur = nil
			}
		}
		for _, w := range ws {
			for _, k := range gen(w) {
				if k.f11() {
					stat["f11_cases_excluded"]++
					continue
				}
				cur = append(cur, k)
			}
			if len(cur) >= maxEv {
				flush()
			}
		}
		flush()
	}
	// structured traversal names longer than the exhaustive bound (both tiers): a leading or embedded ".."
	// followed by two or more further elements, with literal and encoded separators
	deep := [][]string{
		{"..", "/", "x", "/", "y"}, {"..", "%2F", "x", "%2F", "y"}, {"..", "%2f", "x", "%2f", "y"},
		{"..", "/", "..", "/", "x"}, {"..", "%2F", "..", "%2F", "x"}, {"..", "%2F", "..", "%2F", "x", "%2F", "y"},
		{"x", "/", "..", "/", "..", "/", "y"}, {"x", "%2F", "..", "%2F", "..", "%2F", "y"},
		{".", "%2F", "..", "%2F", "x", "%2F", "y"}, {"%2E", "%2E", "%2F", "x", "%2F", "y"}, {"%2e", "%2e", "%2f", "x", "%2f", "y"},
		{"..", "%252F", "x", "%252F", "y"}, {"x", "%2F", "y", "%2F", ".."}, {"x", "%2F", "..", "%2F", "y"},
		{"x", "%2F", "y", "%2F", "..", "%2F", ".."}, {"..", "%2F", "x", "%2F", "..", "%2F", "y"},
		// siblings of the store roots whose names START WITH the root's name (a containment check on path strings instead of
		// path elements accepts them); "cachex" / "uploadx" are ordinary name tokens for the specification
		{"..", "/", "cachex", "/", "y"}, {"..", "%2F", "cachex", "%2F", "y"}, {"..", "%2f", "cachex"},
		{"..", "/", "uploadx", "/", "y"}, {"..", "%2F", "uploadx", "%2F", "y"}, {"..", "%2F", "uploadx"},
		{"x", "%2F", "..", "%2F", "..", "%2F", "cachex", "%2F", "y"},
	}
	stat["wires_deep"] = len(deep)
	add("tag", tagFull, deep)
	add("origin", origFull, deep)
	add("api", apiFull, deep)
	add("tag", tagFull, fullW)
	add("tag", tagFull, sample)
	add("tag", tagLight, lightW)
	add("origin", origFull, fullW)
	add("origin", origFull, sample)
	add("origin", origLight, lightW)
	add("api", apiFull, fullW)
	add("api", apiFull, sample)
	add("api", apiLight, lightW)
	return plan, stat
}

func run(c *eng.Ctx) error {
	plan, stat := buildPlan(c)
	for k, v := range stat {
		c.Stats[k] = v
	}
	c.Stats["exhaustive"] = true
	var firstErr error
	c.Traces(len(plan), func(t int, rng *rand.Rand) {
		if firstErr != nil {
			return
		}
		if err := runTrace(c, t, plan[t], rng); err != nil {
			firstErr = fmt.Errorf("trace %d (%s): %v", t, plan[t].kind, err)
		}
	})
	return firstErr
}

// ---------------------------------------------------------------- sandbox

type sandbox struct {
	root, base, cache, upload string
	canary                    []string // contents of the planted canaries (each a valid digest string)
	prev                      map[string]string
	hash                      map[string]string // stat signature -> content hash, per path (re-read only when stat changes)
}

func newSandbox() (*sandbox, error) {
	root, err := os.MkdirTemp("", "c11-")
	if err != nil {
		return nil, err
	}
	root, err = filepath.EvalSymlinks(root)
	if err != nil {
		return nil, err
	}
	sb := &sandbox{root: root, hash: map[string]string{}}
	sb.base = filepath.Join(root, "l1", "l2", "l3", "l4", "srv")
	sb.cache = filepath.Join(sb.base, "cache")
	sb.upload = filepath.Join(sb.base, "upload")
	for _, d := range []string{sb.cache, sb.upload} {
		if err := os.MkdirAll(d, 0o775); err != nil {
			return nil, err
		}
	}
	// canary farm: the data files of plausible outside names, in every ancestor of the store roots up to the sandbox root
	anc := sb.base
	for i := 0; i < 5; i++ {
		rels := []string{"data", "x/data", "y/data", "x/y/data", "y/x/data"}
		if i == 0 { // next to the store roots: directories whose names extend the roots' names
			rels = append(rels, "cachex/data", "cachex/y/data", "uploadx/data", "uploadx/y/data")
		}
		for _, rel := range rels {
			p := filepath.Join(anc, rel)
			if err := os.MkdirAll(filepath.Dir(p), 0o775); err != nil {
				return nil, err
			}
			h := sha256.Sum256([]byte(p))
			content := "sha256:" + hex.EncodeToString(h[:])
			if err := os.WriteFile(p, []byte(content), 0o664); err != nil {
				return nil, err
			}
			old := time.Unix(1500000000, 0)
			if err := os.Chtimes(p, old, old); err != nil {
				return nil, err
			}
			sb.canary = append(sb.canary, content)
		}
		anc = filepath.Dir(anc)
	}
	return sb, nil
}

func (sb *sandbox) close() {
	if sb.root != "" && strings.Contains(filepath.Base(sb.root), "c11-") {
		os.RemoveAll(sb.root)
	}
}

// snapshot of everything in the sandbox OUTSIDE the two store roots.
func (sb *sandbox) snapshot() map[string]string {
	m := map[string]string{}
	filepath.WalkDir(sb.root, func(p string, d fs.DirEntry, err error) error {
		if err != nil {
			return nil
		}
		if p == sb.cache || p == sb.upload { // the store roots belong to the stores
			return filepath.SkipDir
		}
		if d.IsDir() {
			m[p] = "dir"
			return nil
		}
		info, err := d.Info()
		if err != nil {
			m[p] = "?"
			return nil
		}
		st := fmt.Sprintf("%v:%d:%d", info.Mode(), info.Size(), info.ModTime().UnixNano())
		key := p + "|" + st
		hs, ok := sb.hash[key]
		if !ok {
			b, _ := os.ReadFile(p)
			h := sha256.Sum256(b)
			hs = hex.EncodeToString(h[:8])
			sb.hash[key] = hs
		}
		m[p] = st + ":" + hs
		return nil
	})
	return m
}

// observe returns (#pre-existing outside entries changed or removed, #new outside entries) since the last call.
func (sb *sandbox) observe() (int, int) {
	cur := sb.snapshot()
	chg, nw := 0, 0
	for p, s := range sb.prev {
		if cs, ok := cur[p]; !ok || cs != s {
			chg++
		}
	}
	for p := range cur {
		if _, ok := sb.prev[p]; !ok {
			nw++
		}
	}
	sb.prev = cur
	return chg, nw
}

func (sb *sandbox) servedIn(b []byte) bool {
	for _, c := range sb.canary {
		if bytes.Contains(b, []byte(c)) {
			return true
		}
	}
	return false
}

// ---------------------------------------------------------------- fakes (dependencies that are not under test)

type fakeBackend struct{}

func (fakeBackend) Stat(ns, name string) (*core.BlobInfo, error) {
	return nil, backenderrors.ErrBlobNotFound
}
func (fakeBackend) Upload(ns, name string, src io.Reader) error { return nil }
func (fakeBackend) Download(ns, name string, dst io.Writer) error {
	return backenderrors.ErrBlobNotFound
}
func (fakeBackend) List(prefix string, opts ...backend.ListOption) (*backend.ListResult, error) {
	return &backend.ListResult{}, nil
}
func (fakeBackend) Close() error { return nil }

type fakeRetry struct{}

func (fakeRetry) Add(persistedretry.Task) error                   { return nil }
func (fakeRetry) SyncExec(persistedretry.Task) error              { return nil }
func (fakeRetry) Close()                                          {}
func (fakeRetry) Find(interface{}) ([]persistedretry.Task, error) { return nil, nil }

type fakeHosts struct{ s stringset.Set }

func (f fakeHosts) Resolve() stringset.Set { return f.s.Copy() }

type fakeDeps struct{}

func (fakeDeps) Resolve(tag string, d core.Digest) (core.DigestList, error) { return nil, nil }

type fakeCluster struct{ blobclient.ClusterClient } // never reached: no dependencies, no replication

type fakeTagProvider struct{}

func (fakeTagProvider) Provide(addr string) tagclient.Client { return nil }

type fakeBlobProvider struct{}

func (fakeBlobProvider) Provide(addr string) blobclient.Client { return nil }

type fakeClusterProvider struct{}

func (fakeClusterProvider) Provide(dns string) (blobclient.ClusterClient, error) {
	return nil, fmt.Errorf("no remote clusters")
}

// ---------------------------------------------------------------- raw HTTP client

type rawClient struct {
	addr string
	conn net.Conn
	br   *bufio.Reader
}

func (c *rawClient) close() {
	if c.conn != nil {
		c.conn.Close()
		c.conn = nil
	}
}

func (c *rawClient) once(method, path string, hdr [][2]string, body []byte) (int, []byte, error) {
	if c.conn == nil {
		conn, err := net.DialTimeout("tcp", c.addr, 5*time.Second)
		if err != nil {
			return 0, nil, err
		}
		c.conn, c.br = conn, bufio.NewReader(conn)
	}
	c.conn.SetDeadline(time.Now().Add(20 * time.Second))
	var b bytes.Buffer
	fmt.Fprintf(&b, "%s %s HTTP/1.1\r\nHost: c11\r\n", method, path)
	for _, h := range hdr {
		fmt.Fprintf(&b, "%s: %s\r\n", h[0], h[1])
	}
	fmt.Fprintf(&b, "Content-Length: %d\r\n\r\n", len(body))
	b.Write(body)
	if _, err := c.conn.Write(b.Bytes()); err != nil {
		c.close()
		return 0, nil, err
	}
	resp, err := http.ReadResponse(c.br, &http.Request{Method: method})
	if err != nil {
		c.close()
		return 0, nil, err
	}
	rb, err := io.ReadAll(resp.Body)
	resp.Body.Close()
	if err != nil || resp.Close {
		c.close()
	}
	return resp.StatusCode, rb, nil
}

// do sends the request with the path bytes exactly as given.
func (c *rawClient) do(method, path string, hdr [][2]string, body []byte) (int, []byte, error) {
	st, rb, err := c.once(method, path, hdr, body)
	if err != nil { // stale keep-alive connection: one retry on a fresh connection
		st, rb, err = c.once(method, path, hdr, body)
	}
	return st, rb, err
}

// ---------------------------------------------------------------- one trace

type world struct {
	sb   *sandbox
	ss   *store.SimpleStore // tag / api kinds
	cas  *store.CAStore     // origin kind
	srv  *httptest.Server
	cl   *rawClient
	rng  *rand.Rand
	kind string
	// origin: every live upload file holds `content`, so that a commit of whichever file the server picks
	// passes CAStore's digest verification with digest `cur`; renewed after every successful commit
	content []byte
	cur     string
}

func (w *world) close() {
	if w.cl != nil {
		w.cl.close()
	}
	if w.srv != nil {
		w.srv.Close()
	}
	if w.ss != nil {
		w.ss.Close()
	}
	if w.cas != nil {
		w.cas.Close()
	}
	w.sb.close()
}

func newWorld(kind string, rng *rand.Rand) (*world, error) {
	sb, err := newSandbox()
	if err != nil {
		return nil, err
	}
	w := &world{sb: sb, rng: rng, kind: kind}
	off := store.CleanupConfig{Disabled: true}
	backends := backend.ManagerFixture()
	if err := backends.Register(".*", fakeBackend{}, false); err != nil {
		w.close()
		return nil, err
	}
	var h http.Handler
	switch kind {
	case "tag", "api":
		ss, err := store.NewSimpleStore(store.SimpleStoreConfig{UploadDir: sb.upload, CacheDir: sb.cache, UploadCleanup: off, CacheCleanup: off}, tally.NoopScope)
		if err != nil {
			w.close()
			return nil, err
		}
		w.ss = ss
		if kind == "tag" {
			ts := tagstore.New(tagstore.Config{}, ss, backends, fakeRetry{})
			remotes, err := tagreplication.RemotesConfig{}.Build()
			if err != nil {
				w.close()
				return nil, err
			}
			h = tagserver.New(tagserver.Config{}, tally.NoopScope, backends, "c11-origin", fakeCluster{},
				fakeHosts{stringset.New()}, ts, remotes, fakeRetry{}, fakeTagProvider{}, fakeDeps{},
				noop.NewTracerProvider().Tracer("c11")).Handler()
		}
	case "origin":
		cas, err := store.NewCAStore(store.CAStoreConfig{UploadDir: sb.upload, CacheDir: sb.cache, UploadCleanup: off, CacheCleanup: off}, tally.NoopScope)
		if err != nil {
			w.close()
			return nil, err
		}
		w.cas = cas
		const addr = "c11-origin:80"
		ring := hashring.New(hashring.Config{}, fakeHosts{stringset.New(addr)}, healthcheck.IdentityFilter{}, tally.NoopScope)
		mg := metainfogen.Fixture(cas, 4)
		br := blobrefresh.New(blobrefresh.Config{}, tally.NoopScope, cas, backends, mg)
		s, err := blobserver.New(blobserver.Config{}, tally.NoopScope, clock.New(), addr, ring, cas,
			fakeBlobProvider{}, fakeClusterProvider{}, core.PeerContextFixture(), backends, br, mg, fakeRetry{})
		if err != nil {
			w.close()
			return nil, err
		}
		h = s.Handler()
	default:
		w.close()
		return nil, fmt.Errorf("unknown kind %q", kind)
	}
	if h != nil {
		w.srv = httptest.NewServer(h)
		w.cl = &rawClient{addr: w.srv.Listener.Addr().String()}
	}
	sb.prev = sb.snapshot()
	return w, nil
}

func (w *world) digest() string {
	b := make([]byte, 32)
	w.rng.Read(b)
	return "sha256:" + hex.EncodeToString(b)
}

func classErr(err error) string {
	switch {
	case err == nil:
		return "ok"
	case os.IsExist(err):
		return "exists"
	case os.IsNotExist(err):
		return "notfound"
	default:
		return "rejected"
	}
}

func classStatus(st int) string {
	switch {
	case st >= 200 && st < 300:
		return "ok"
	case st == http.StatusNotFound:
		return "notfound"
	default:
		return "rejected"
	}
}

type outcome struct {
	res    string
	status int
	path   string
	body   []byte
}

var dupBody = []byte(`{"delay":0}`)

var debug = os.Getenv("C11_DEBUG") != ""

func (w *world) exec(k kase) (outcome, error) {
	name := flat(k.toks)
	http1 := func(method, path string, hdr [][2]string, body []byte) (outcome, error) {
		st, rb, err := w.cl.do(method, path, hdr, body)
		if err != nil {
			return outcome{}, fmt.Errorf("%s %s: %v", method, path, err)
		}
		if debug && st >= 500 {
			fmt.Fprintf(os.Stderr, "C11_DEBUG %s %s -> %d %q\n", method, path, st, rb)
		}
		return outcome{res: classStatus(st), status: st, path: path, body: rb}, nil
	}
	api := func(err error, body []byte) (outcome, error) {
		return outcome{res: classErr(err), body: body}, nil
	}
	cr := [][2]string{{"Content-Range", "0-4"}}
	od := w.cur // origin requests: digest of the current upload content (not in the cache yet)
	switch k.op {
	// ---- build-index tagserver
	case "TagPut":
		return http1("PUT", "/tags/"+name+"/digest/"+w.digest(), nil, nil)
	case "TagDupPut":
		return http1("PUT", "/internal/duplicate/tags/"+name+"/digest/"+w.digest(), nil, dupBody)
	case "TagGet":
		return http1("GET", "/tags/"+name, nil, nil)
	case "TagHead":
		return http1("HEAD", "/tags/"+name, nil, nil)
	case "TagReplicate":
		return http1("POST", "/remotes/tags/"+name, nil, nil)
	// ---- origin blobserver
	case "UpPatch":
		return http1("PATCH", "/namespace/ns/blobs/"+od+"/uploads/"+name, cr, []byte("abcd"))
	case "UpIPatch":
		return http1("PATCH", "/internal/blobs/"+od+"/uploads/"+name, cr, []byte("abcd"))
	case "UpCommit":
		return http1("PUT", "/namespace/ns/blobs/"+od+"/uploads/"+name, nil, nil)
	case "UpICommit":
		return http1("PUT", "/internal/blobs/"+od+"/uploads/"+name, nil, nil)
	case "UpDupCommit":
		return http1("PUT", "/internal/duplicate/namespace/ns/blobs/"+od+"/uploads/"+name, nil, dupBody)
	}
	// ---- store API
	if w.kind == "origin" {
		switch k.op {
		case "StCreateUpload":
			return api(w.cas.CreateUploadFile(name, 0), nil)
		case "StWriteUpload":
			f, err := w.cas.GetUploadFileReadWriter(name)
			if err != nil {
				return api(err, nil)
			}
			_, err = f.Write(w.content)
			f.Close()
			return api(err, nil)
		}
		return outcome{}, fmt.Errorf("op %s not available on origin", k.op)
	}
	switch k.op {
	case "StCreateCache":
		return api(w.ss.CreateCacheFile(name, strings.NewReader(w.digest())), nil)
	case "StGetCache":
		r, err := w.ss.GetCacheFileReader(name)
		if err != nil {
			return api(err, nil)
		}
		b, err := io.ReadAll(r)
		r.Close()
		return api(err, b)
	case "StStatCache":
		_, err := w.ss.GetCacheFileStat(name)
		return api(err, nil)
	case "StSetMeta":
		_, err := w.ss.SetCacheFileMetadata(name, metadata.NewPersist(false)) // persist=true would (legitimately) block Delete
		return api(err, nil)
	case "StDeleteCache":
		return api(w.ss.DeleteCacheFile(name), nil)
	case "StCreateUpload":
		return api(w.ss.CreateUploadFile(name, 0), nil)
	case "StWriteUpload":
		f, err := w.ss.GetUploadFileReadWriter(name)
		if err != nil {
			return api(err, nil)
		}
		_, err = f.Write([]byte("abcd"))
		f.Close()
		return api(err, nil)
	case "StDeleteUpload":
		return api(w.ss.DeleteUploadFile(name), nil)
	case "StMove":
		return api(w.ss.MoveUploadFileToCache(name, flat(k.toks2)), nil)
	}
	return outcome{}, fmt.Errorf("unknown op %s", k.op)
}

func nn(s []string) []string {
	if s == nil {
		return []string{}
	}
	return s
}

func (w *world) step(c *eng.Ctx, k kase) (string, error) {
	o, err := w.exec(k)
	if err != nil {
		return "", err
	}
	chg, nw := w.sb.observe()
	dn, dk := decode(via(k.op), k.toks)
	dn2 := ""
	if k.op == "StMove" {
		dn2, _ = decode("api", k.toks2)
	}
	c.W.Ev(k.op, "toks", nn(k.toks), "toks2", nn(k.toks2), "res", o.res, "chg", chg, "newout", nw,
		"served", w.sb.servedIn(o.body), "status", o.status, "path", o.path, "dname", dn, "dk", dk, "dname2", dn2)
	c.Inc("ev_"+o.res, 1)
	if chg > 0 || nw > 0 {
		c.Inc("outside_effects", 1)
	}
	return o.res, nil
}

func runTrace(c *eng.Ctx, t int, p tracePlan, rng *rand.Rand) error {
	w, err := newWorld(p.kind, rng)
	if err != nil {
		return err
	}
	defer w.close()
	c.W.Reset(t, map[string]any{"kind": p.kind, "f11": p.f11})
	pre := func() error {
		w.content = []byte("abcd" + w.digest()[7:23]) // PATCH rewrites bytes 0-4 with "abcd": content stays
		h := sha256.Sum256(w.content)
		w.cur = "sha256:" + hex.EncodeToString(h[:])
		for _, n := range preOrig {
			for _, op := range []string{"StCreateUpload", "StWriteUpload"} {
				if _, err := w.step(c, kase{op, n, nil}); err != nil {
					return err
				}
			}
		}
		return nil
	}
	if p.kind == "origin" {
		if err := pre(); err != nil {
			return err
		}
	}
	for _, k := range p.cases {
		res, err := w.step(c, k)
		if err != nil {
			return err
		}
		if p.kind == "origin" && res == "ok" && strings.Contains(k.op, "Commit") && !p.f11 {
			if err := pre(); err != nil { // a commit consumed an upload file: make the fixed names available again
				return err
			}
		}
	}
	return nil
}
