package c19

import (
	"bytes"
	"errors"
	"io"
	"sort"
	"sync"
	"sync/atomic"

	"github.com/uber/kraken/core"
	"github.com/uber/kraken/lib/torrent/networkevent"
	"github.com/uber/kraken/lib/torrent/storage"
	"github.com/uber/kraken/lib/torrent/storage/piecereader"
)

// ---- recorder: one per swarm; every record takes a global ticket when it is logged.
type rec struct {
	ticket int64
	kv     []any
	ev     string
}

type recorder struct {
	ticket atomic.Int64
	mu     sync.Mutex
	recs   []rec
	closed bool
	hook   func(ev string, kv []any) // called outside mu, after the record was stored
}

func (r *recorder) log(ev string, kv ...any) int64 { return r.logw(ev, false, kv...) }

// logw optionally stores the record's own ticket as field "w" (write id).
func (r *recorder) logw(ev string, withTicket bool, kv ...any) int64 {
	r.mu.Lock()
	if r.closed {
		r.mu.Unlock()
		return 0
	}
	// the ticket is taken under the lock: slice order = ticket order
	t := r.ticket.Add(1)
	if withTicket {
		kv = append(kv, "w", int(t))
	}
	r.recs = append(r.recs, rec{t, kv, ev})
	h := r.hook
	r.mu.Unlock()
	if h != nil {
		h(ev, kv)
	}
	return t
}

func (r *recorder) close() []rec {
	r.mu.Lock()
	defer r.mu.Unlock()
	r.closed = true
	out := r.recs
	sort.SliceStable(out, func(i, j int) bool { return out[i].ticket < out[j].ticket })
	return out
}

// ---- names: real peer ids -> small alphabet
type names struct {
	mu sync.Mutex
	m  map[string]string
}

func (n *names) set(id core.PeerID, name string) {
	n.mu.Lock()
	n.m[id.String()] = name
	n.mu.Unlock()
}
func (n *names) get(id string) string {
	n.mu.Lock()
	defer n.mu.Unlock()
	if s, ok := n.m[id]; ok {
		return s
	}
	return "unknown"
}

// ---- recording networkevent.Producer (one per peer)
type recProducer struct {
	r    *recorder
	self string
	nm   *names
	np   int
}

func (p *recProducer) Close() error { return nil }
func (p *recProducer) Produce(e *networkevent.Event) {
	switch e.Name {
	case networkevent.AddTorrent:
		n := 0
		for _, b := range e.Bitfield {
			if b {
				n++
			}
		}
		p.r.log("add_torrent", "p", p.self, "bits", len(e.Bitfield), "set", n, "cap", e.ConnCapacity)
	case networkevent.AddActiveConn:
		p.r.log("conn_add", "p", p.self, "q", p.nm.get(e.Peer))
	case networkevent.DropActiveConn:
		p.r.log("conn_drop", "p", p.self, "q", p.nm.get(e.Peer))
	case networkevent.BlacklistConn:
		p.r.log("blacklist", "p", p.self, "q", p.nm.get(e.Peer))
	case networkevent.RequestPiece:
		p.r.log("request", "p", p.self, "q", p.nm.get(e.Peer), "i", e.Piece)
	case networkevent.ReceivePiece:
		p.r.log("receive", "p", p.self, "q", p.nm.get(e.Peer), "i", e.Piece)
	case networkevent.TorrentComplete:
		p.r.log("complete", "p", p.self)
	case networkevent.TorrentCancelled:
		p.r.log("cancelled", "p", p.self)
	default:
		p.r.log("other", "p", p.self, "name", string(e.Name))
	}
}

// ---- recording (and optionally corrupting) storage.TorrentArchive / storage.Torrent decorators
type recArchive struct {
	storage.TorrentArchive
	r       *recorder
	self    string
	blob    []byte
	plen    int
	corrupt map[int]bool // pieces served with a flipped byte (corrupting peer only)
}

func (a *recArchive) wrap(t storage.Torrent, err error) (storage.Torrent, error) {
	if err != nil {
		return nil, err
	}
	return &recTorrent{Torrent: t, a: a}, nil
}
func (a *recArchive) CreateTorrent(ns string, d core.Digest) (storage.Torrent, error) {
	return a.wrap(a.TorrentArchive.CreateTorrent(ns, d))
}
func (a *recArchive) GetTorrent(ns string, d core.Digest) (storage.Torrent, error) {
	return a.wrap(a.TorrentArchive.GetTorrent(ns, d))
}

func (a *recArchive) truth(i int) []byte {
	s := i * a.plen
	if i < 0 || s > len(a.blob) {
		return nil
	}
	e := s + a.plen
	if e > len(a.blob) {
		e = len(a.blob)
	}
	return a.blob[s:e]
}

type recTorrent struct {
	storage.Torrent
	a *recArchive
}

// WritePiece: the payload is read into memory (the conn already delivers an in-memory buffer), compared with
// the true piece (oracle computed here, judged by the spec), logged as WStart BEFORE the real WritePiece is
// entered and as WEnd AFTER it returned.  The real error value is passed through untouched.
func (t *recTorrent) WritePiece(src storage.PieceReader, pi int) error {
	data, rerr := io.ReadAll(src)
	if rerr != nil {
		return t.Torrent.WritePiece(src, pi)
	}
	good := bytes.Equal(data, t.a.truth(pi)) && pi >= 0 && pi < t.NumPieces()
	w := t.a.r.logw("WStart", true, "p", t.a.self, "i", pi, "good", good)
	err := t.Torrent.WritePiece(piecereader.NewBuffer(data), pi)
	res := "rej"
	switch {
	case err == nil:
		res = "ok"
	case errors.Is(err, storage.ErrPieceComplete):
		res = "dup"
	}
	t.a.r.log("WEnd", "p", t.a.self, "i", pi, "good", good, "w", int(w), "res", res)
	return err
}

// GetPieceReader: the piece is read eagerly (same bytes the lazy file reader would deliver), flipped if this
// is the corrupting peer, compared with the true piece and logged as Serve AFTER the real call returned.
func (t *recTorrent) GetPieceReader(pi int) (storage.PieceReader, error) {
	r, err := t.Torrent.GetPieceReader(pi)
	if err != nil {
		t.a.r.log("Serve", "p", t.a.self, "i", pi, "good", false, "res", "err")
		return nil, err
	}
	data, rerr := io.ReadAll(r)
	r.Close()
	if rerr != nil {
		t.a.r.log("Serve", "p", t.a.self, "i", pi, "good", false, "res", "err")
		return nil, rerr
	}
	if t.a.corrupt[pi] && len(data) > 0 {
		data = append([]byte(nil), data...)
		data[(pi*7)%len(data)] ^= 0x5a
	}
	good := bytes.Equal(data, t.a.truth(pi))
	t.a.r.log("Serve", "p", t.a.self, "i", pi, "good", good, "res", "ok")
	return piecereader.NewBuffer(data), nil
}
