// Package c19 runs REAL in-process swarms (property C19): 2-5 leeching agent schedulers, one seeder whose
// cache was pre-populated through its torrent archive, optionally one CORRUPTING peer (a scheduler whose
// torrent archive is decorated to serve pieces with a flipped byte while reporting the torrent complete)
// and optionally one agent that is stopped mid-transfer.  All peers talk over localhost TCP, announce to a
// real in-memory tracker (trackerserver.Fixture) and run the real clock and the real event loop.
//
// Recorded per swarm, ordered by a global atomic ticket: the networkevent stream of every peer, every
// storage.Torrent.WritePiece (start and end, with a Go-computed "payload equals the true piece" flag) and
// GetPieceReader (served bytes good?) through a decorating TorrentArchive, the Download calls/returns and a
// final End record per agent (Download result, cached bytes compared with the blob).
package c19

import (
	"bytes"
	"crypto/sha256"
	"encoding/hex"
	"errors"
	"fmt"
	"io"
	"math/rand"
	"net"
	"net/http/httptest"
	"os"
	"sync"
	"time"

	"github.com/uber-go/tally"

	"github.com/uber/kraken/core"
	"github.com/uber/kraken/lib/hashring"
	"github.com/uber/kraken/lib/hostlist"
	"github.com/uber/kraken/lib/store"
	"github.com/uber/kraken/lib/store/metadata"
	"github.com/uber/kraken/lib/torrent/scheduler"
	"github.com/uber/kraken/lib/torrent/scheduler/conn"
	"github.com/uber/kraken/lib/torrent/storage"
	"github.com/uber/kraken/lib/torrent/storage/agentstorage"
	"github.com/uber/kraken/lib/torrent/storage/originstorage"
	"github.com/uber/kraken/lib/torrent/storage/piecereader"
	"github.com/uber/kraken/tracker/announceclient"
	"github.com/uber/kraken/tracker/metainfoclient"
	"github.com/uber/kraken/tracker/peerhandoutpolicy"
	"github.com/uber/kraken/tracker/peerstore"
	"github.com/uber/kraken/tracker/trackerserver"
	"github.com/uber/kraken/utils/log"

	"kvh/internal/eng"
)

func init() { eng.Register("c19", run) }

const (
	namespace    = "ns"
	swarmTimeout = 120 * time.Second
)

// params of one swarm: everything random is drawn here, from the trace's rng, before anything runs.
type params struct {
	t        int
	nAgents  int
	blob     []byte
	plen     int
	np       int
	pipe     int
	peers    []string // s1, [x1], a1..an
	maxc     map[string]int
	corrupt  []int          // pieces the corrupting peer flips ([] = no corrupting peer)
	hasX     bool
	origin   bool           // the seeder is an ORIGIN peer (originstorage over a CAStore, handed out by the tracker's origin store)
	order    []string       // join order
	delay    map[string]int // ms before a peer joins (after the previous one)
	leaver   string         // "" = nobody leaves
	leaveAt  int            // leave after that many accepted pieces ...
	leaveMs  int            // ... or after that many ms, whichever comes first
}

type result struct {
	p     params
	recs  []rec
	err   error // inconclusive
	wallS float64
}

func run(c *eng.Ctx) error {
	n := c.N(6, 60)
	par := c.N(6, 10)
	root, err := os.MkdirTemp("", "kvh-c19-")
	if err != nil {
		return err
	}
	defer os.RemoveAll(root)

	var ps []params
	c.Traces(n, func(t int, rng *rand.Rand) { ps = append(ps, gen(t, rng)) })

	results := make([]*result, len(ps))
	sem := make(chan struct{}, par)
	var wg sync.WaitGroup
	for k := range ps {
		wg.Add(1)
		sem <- struct{}{}
		go func(k int) {
			defer wg.Done()
			defer func() { <-sem }()
			t0 := time.Now()
			r := swarm(ps[k], fmt.Sprintf("%s/t%d", root, ps[k].t))
			r.wallS = time.Since(t0).Seconds()
			results[k] = r
		}(k)
	}
	wg.Wait()

	var maxWall float64
	for _, r := range results {
		if r.err != nil {
			// a swarm that did not finish (or could not be set up) is INCONCLUSIVE, never a violation
			return fmt.Errorf("swarm t=%d inconclusive: %v", r.p.t, r.err)
		}
		if r.wallS > maxWall {
			maxWall = r.wallS
		}
		emit(c, r)
	}
	c.Stats["swarms"] = len(results)
	c.Stats["max_swarm_wall_ms"] = int(maxWall * 1000)
	return nil
}

func gen(t int, rng *rand.Rand) params {
	p := params{t: t, maxc: map[string]int{}, delay: map[string]int{}}
	p.nAgents = 2 + rng.Intn(4)
	p.plen = 1024 * (1 + rng.Intn(16))
	var size int
	switch k := rng.Intn(10); {
	case k == 0:
		size = 0
	case k == 1:
		size = 1 + rng.Intn(16)
	case k == 2:
		size = p.plen * (1 + rng.Intn(4)) // exact multiple
	case k < 7:
		size = 1 + rng.Intn(p.plen*6)
	default:
		size = 1 + rng.Intn(64*1024)
	}
	if size > 64*1024 {
		size = 64 * 1024
	}
	p.blob = make([]byte, size)
	rng.Read(p.blob)
	p.np = (size + p.plen - 1) / p.plen
	p.pipe = 1 + rng.Intn(3)
	p.peers = []string{"s1"}
	// scenario mix: t%3==1 has a corrupting peer, t%3==2 a leaver, t%6==5 both
	p.hasX = t%3 == 1 || t%6 == 5
	if p.hasX {
		p.peers = append(p.peers, "x1")
	}
	for i := 1; i <= p.nAgents; i++ {
		p.peers = append(p.peers, fmt.Sprintf("a%d", i))
	}
	for _, q := range p.peers {
		p.maxc[q] = 1 + rng.Intn(4)
	}
	p.origin = rng.Intn(4) == 0
	p.corrupt = []int{}
	if p.hasX {
		all := rng.Intn(2) == 0
		for i := 0; i < p.np; i++ {
			if all || rng.Intn(2) == 0 {
				p.corrupt = append(p.corrupt, i)
			}
		}
	}
	// join order = announce order = handout order.  Without a corrupting peer: the seeder first in most swarms,
	// anywhere otherwise.  With one: the corrupter usually announces before the seeder, so that agents meet it.
	var rest []string
	for _, q := range p.peers {
		if q != "s1" && q != "x1" {
			rest = append(rest, q)
		}
	}
	rng.Shuffle(len(rest), func(i, j int) { rest[i], rest[j] = rest[j], rest[i] })
	ins := func(list []string, k int, q string) []string {
		return append(append(append([]string{}, list[:k]...), q), list[k:]...)
	}
	switch k := rng.Intn(4); {
	case !p.hasX && k == 0:
		p.order = ins(rest, rng.Intn(len(rest)+1), "s1")
	case !p.hasX:
		p.order = ins(rest, 0, "s1")
	case k <= 1:
		p.order = append([]string{"x1", "s1"}, rest...)
	case k == 2:
		p.order = ins(ins(rest, rng.Intn(len(rest)+1), "s1"), 0, "x1")
	default:
		p.order = append([]string{"s1", "x1"}, rest...)
	}
	for _, q := range p.order {
		p.delay[q] = []int{0, 0, 5, 30, 150}[rng.Intn(5)]
	}
	if (t%3 == 2 || t%6 == 5) && p.np >= 1 {
		p.leaver = fmt.Sprintf("a%d", 1+rng.Intn(p.nAgents))
		p.leaveAt = 1 + rng.Intn(p.np)
		p.leaveMs = 20 + rng.Intn(600)
	}
	return p
}

type peer struct {
	name    string
	pctx    core.PeerContext
	cads    *store.CADownloadStore
	cas     *store.CAStore
	inner   storage.TorrentArchive
	sched   scheduler.Scheduler
	ac      announceclient.Client
	retc    chan error
	ret     string // "none" until Download returned
	left    bool
	stopped bool
}

func freePort() (int, error) {
	l, err := net.Listen("tcp", "localhost:0")
	if err != nil {
		return 0, err
	}
	defer l.Close()
	return l.Addr().(*net.TCPAddr).Port, nil
}

func schedConfig(p params, name string) scheduler.Config {
	cfg := scheduler.Config{
		SeederTTI:          10 * time.Minute,
		LeecherTTI:         10 * time.Minute,
		ConnTTI:            time.Second,
		ConnTTL:            time.Hour,
		PreemptionInterval: 250 * time.Millisecond,
		EmitStatsInterval:  time.Hour,
		Conn:               conn.ConfigFixture(),
		TorrentLog:         log.Config{Disable: true},
		Log:                log.Config{Disable: true},
	}
	cfg.ConnState.MaxOpenConnectionsPerTorrent = p.maxc[name]
	cfg.ConnState.BlacklistDuration = 1500 * time.Millisecond
	cfg.Dispatch.AgentPipelineLimit = p.pipe
	cfg.Dispatch.OriginPipelineLimit = p.pipe
	cfg.Dispatch.PieceRequestMinTimeout = 2 * time.Second
	return cfg
}

func swarm(p params, dir string) *result {
	res := &result{p: p}
	defer os.RemoveAll(dir)

	sum := sha256.Sum256(p.blob)
	d, err := core.NewSHA256DigestFromHex(hex.EncodeToString(sum[:]))
	if err != nil {
		res.err = err
		return res
	}
	mi, err := core.NewMetaInfoFromBytes(d, p.blob, int64(p.plen))
	if err != nil {
		res.err = err
		return res
	}
	h := mi.InfoHash()
	mic := metainfoclient.NewTestClient()
	mic.Upload(mi)

	// tracker: the repo's in-memory fixture; with an origin seeder the same server wired with a harness origin store
	// (the origin does not announce, the tracker learns it from its origin cluster) and the "completeness" handout policy
	origins := &originList{}
	ts := trackerserver.Fixture()
	if p.origin {
		pol, err := peerhandoutpolicy.NewPriorityPolicy(tally.NoopScope, "completeness")
		if err != nil {
			res.err = err
			return res
		}
		ts = trackerserver.New(trackerserver.Config{AnnounceInterval: 250 * time.Millisecond}, tally.NoopScope, pol,
			peerstore.NewTestStore(), origins, nil)
	}
	tracker := httptest.NewServer(ts.Handler())
	defer tracker.Close()
	trackerAddr := tracker.Listener.Addr().String()

	r := &recorder{}
	nm := &names{m: map[string]string{}}
	peers := map[string]*peer{}
	var pmu sync.Mutex

	stopAll := func() {
		var wg sync.WaitGroup
		pmu.Lock()
		for _, pe := range peers {
			if pe.sched != nil && !pe.stopped {
				pe.stopped = true
				wg.Add(1)
				go func(pe *peer) { defer wg.Done(); pe.sched.Stop() }(pe)
			}
		}
		pmu.Unlock()
		wg.Wait()
		pmu.Lock()
		for _, pe := range peers {
			if pe.cads != nil {
				pe.cads.Close()
				pe.cads = nil
			}
			if pe.cas != nil {
				pe.cas.Close()
				pe.cas = nil
			}
		}
		pmu.Unlock()
	}
	defer stopAll()

	corrupt := map[int]bool{}
	for _, i := range p.corrupt {
		corrupt[i] = true
	}

	// start the peer's scheduler on a free localhost port, its torrent archive decorated by the recorder
	start := func(pe *peer, origin bool) (*peer, error) {
		name := pe.name
		ra := &recArchive{TorrentArchive: pe.inner, r: r, self: name, blob: p.blob, plen: p.plen}
		if name == "x1" {
			ra.corrupt = corrupt
		}
		var lastErr error
		for try := 0; try < 8; try++ {
			port, err := freePort()
			if err != nil {
				lastErr = err
				continue
			}
			pe.pctx = core.PeerContext{PeerID: core.PeerIDFixture(), Zone: "zone1", IP: "localhost", Port: port, Origin: origin}
			nm.set(pe.pctx.PeerID, name)
			if origin {
				pe.ac = announceclient.Disabled()
			} else {
				pe.ac = announceclient.New(pe.pctx, hashring.NoopPassiveRing(hostlist.Fixture(trackerAddr)), nil)
			}
			s, err := scheduler.VerifC19NewStartedScheduler(schedConfig(p, name), ra, pe.pctx, pe.ac,
				&recProducer{r: r, self: name, nm: nm, np: p.np})
			if err == nil {
				pe.sched = s
				if origin {
					origins.set(core.PeerInfoFromContext(pe.pctx, true))
				}
				return pe, nil
			}
			lastErr = err
		}
		return nil, fmt.Errorf("start scheduler %s: %v", name, lastErr)
	}
	// origin seeder: the blob and its metainfo are in the cache of a CAStore, served through originstorage
	buildOrigin := func(pe *peer) (*peer, error) {
		cas, err := store.NewCAStore(store.CAStoreConfig{
			UploadDir: fmt.Sprintf("%s/%s/upload", dir, pe.name), CacheDir: fmt.Sprintf("%s/%s/cache", dir, pe.name)}, tally.NoopScope)
		if err != nil {
			return nil, err
		}
		pe.cas = cas
		if err := cas.CreateCacheFile(d.Hex(), bytes.NewReader(p.blob)); err != nil {
			return nil, err
		}
		if _, err := cas.SetCacheFileMetadata(d.Hex(), metadata.NewTorrentMeta(mi)); err != nil {
			return nil, err
		}
		pe.inner = originstorage.NewTorrentArchive(cas, nil)
		return start(pe, true)
	}
	// build one peer (not yet downloading)
	build := func(name string) (*peer, error) {
		pe := &peer{name: name, retc: make(chan error, 1), ret: "none"}
		if name == "s1" && p.origin {
			return buildOrigin(pe)
		}
		cads, err := store.NewCADownloadStore(store.CADownloadStoreConfig{
			DownloadDir: fmt.Sprintf("%s/%s/download", dir, name), CacheDir: fmt.Sprintf("%s/%s/cache", dir, name)}, tally.NoopScope)
		if err != nil {
			return nil, err
		}
		pe.cads = cads
		pe.inner = agentstorage.NewTorrentArchive(tally.NoopScope, cads, mic)
		if name == "s1" || name == "x1" {
			// pre-populate: every piece written through the (undecorated) torrent archive
			t, err := pe.inner.CreateTorrent(namespace, d)
			if err != nil {
				return nil, err
			}
			for i := 0; i < t.NumPieces(); i++ {
				s := i * p.plen
				e := s + int(t.PieceLength(i))
				if err := t.WritePiece(piecereader.NewBuffer(p.blob[s:e]), i); err != nil {
					return nil, err
				}
			}
			if !t.Complete() {
				return nil, errors.New("pre-populated torrent not complete")
			}
		}
		return start(pe, false)
	}

	classify := func(err error) string {
		switch {
		case err == nil:
			return "ok"
		case errors.Is(err, scheduler.ErrSchedulerStopped):
			return "stopped"
		case errors.Is(err, scheduler.ErrTorrentTimeout):
			return "timeout"
		case errors.Is(err, scheduler.ErrTorrentNotFound):
			return "notfound"
		case errors.Is(err, scheduler.ErrTorrentRemoved):
			return "removed"
		}
		return "err"
	}

	// the leaver is stopped after leaveAt accepted pieces or leaveMs after it started downloading
	finished := false // set (under pmu) once every Download has returned: nobody leaves after that
	leaveOnce := sync.Once{}
	leave := func() {
		leaveOnce.Do(func() {
			go func() {
				pmu.Lock()
				pe := peers[p.leaver]
				if finished || pe == nil || pe.stopped {
					pmu.Unlock()
					return
				}
				pe.left, pe.stopped = true, true
				r.log("Leave", "p", pe.name) // under pmu: ordered before the End records
				pmu.Unlock()
				pe.sched.Stop()
			}()
		})
	}
	if p.leaver != "" {
		var acc int64
		var amu sync.Mutex
		r.hook = func(ev string, kv []any) {
			if ev != "WEnd" || kv[1] != p.leaver || kv[9] != "ok" {
				return
			}
			amu.Lock()
			acc++
			n := acc
			amu.Unlock()
			if int(n) >= p.leaveAt {
				leave()
			}
		}
	}

	var dl sync.WaitGroup
	deadline := time.Now().Add(swarmTimeout)
	for _, name := range p.order {
		time.Sleep(time.Duration(p.delay[name]) * time.Millisecond)
		pe, err := build(name)
		if err != nil {
			res.err = err
			return res
		}
		pmu.Lock()
		peers[name] = pe
		pmu.Unlock()
		role := "agent"
		if name == "s1" {
			role = "seeder"
		} else if name == "x1" {
			role = "corrupter"
		}
		r.log("Join", "p", name, "role", role)
		if name == "s1" && p.origin {
			continue // an origin serves what is in its cache; it never downloads and never announces
		}
		dl.Add(1)
		go func(pe *peer) {
			defer dl.Done()
			r.log("Download", "p", pe.name)
			err := pe.sched.Download(namespace, d)
			cl := classify(err)
			r.log("Ret", "p", pe.name, "res", cl)
			pmu.Lock()
			pe.ret = cl
			pmu.Unlock()
			if cl == "ok" && (pe.name == "s1" || pe.name == "x1") {
				// what the peer's own announce tick would send 5 s from now (announcer default interval):
				// the complete peer registers with the tracker
				pe.ac.Announce(d, h, true, announceclient.V2)
			}
		}(pe)
		if name == p.leaver {
			ms := p.leaveMs
			time.AfterFunc(time.Duration(ms)*time.Millisecond, leave)
		}
	}

	done := make(chan struct{})
	go func() { dl.Wait(); close(done) }()
	select {
	case <-done:
	case <-time.After(time.Until(deadline)):
		var pending []string
		pmu.Lock()
		for _, name := range p.peers {
			if pe := peers[name]; pe != nil && pe.ret == "none" && !(name == "s1" && p.origin) {
				pending = append(pending, name)
			}
		}
		pmu.Unlock()
		// diagnostics only (the partial trace is not judged): what the storage boundary saw before the time bound
		var badServes, badAccepted, rejected int
		for _, e := range r.close() {
			switch {
			case e.ev == "Serve" && e.kv[1] != "x1" && e.kv[5] == false && e.kv[7] == "ok":
				badServes++
			case e.ev == "WEnd" && e.kv[5] == false && e.kv[9] == "ok":
				badAccepted++
			case e.ev == "WEnd" && e.kv[9] == "rej":
				rejected++
			}
		}
		res.err = fmt.Errorf("Download still blocked after %s for %v (np=%d pipe=%d maxc=%v corrupt=%v leaver=%q origin=%v): liveness not "+
			"observed within the time bound [seen so far: %d payloads rejected by storage, %d wrong payloads handed out by honest peers, "+
			"%d wrong payloads accepted]", swarmTimeout, pending, p.np, p.pipe, p.maxc, p.corrupt, p.leaver, p.origin,
			rejected, badServes, badAccepted)
		return res
	}

	pmu.Lock()
	finished = true
	pmu.Unlock()

	// end-state oracle (computed here, judged by the spec)
	for _, name := range p.peers {
		if name == "s1" || name == "x1" {
			continue
		}
		pmu.Lock()
		pe := peers[name]
		ret, left := pe.ret, pe.left
		pmu.Unlock()
		cached := "none"
		if f, err := pe.cads.Cache().GetFileReader(d.Hex()); err == nil {
			b, rerr := io.ReadAll(f)
			f.Close()
			if rerr == nil && bytes.Equal(b, p.blob) {
				cached = "exact"
			} else {
				cached = "wrong"
			}
		}
		r.log("End", "p", name, "present", !left, "ret", ret, "cached", cached)
	}
	res.recs = r.close()
	return res
}

func emit(c *eng.Ctx, r *result) {
	p := r.p
	maxc := make([]int, len(p.peers))
	for i, q := range p.peers {
		maxc[i] = p.maxc[q]
	}
	leaver := p.leaver
	if leaver == "" {
		leaver = "none"
	}
	c.W.Reset(p.t, map[string]any{"np": p.np, "pipe": p.pipe, "peers": p.peers, "maxc": maxc, "corrupt": p.corrupt,
		"size": len(p.blob), "plen": p.plen, "order": p.order, "leaver": leaver, "origin": p.origin})
	for _, e := range r.recs {
		c.W.Ev(e.ev, e.kv...)
	}
	c.Inc("events", len(r.recs))
}

// originList is the tracker's originstore.Store: the origin seeder once it is up.
type originList struct {
	mu sync.Mutex
	l  []*core.PeerInfo
}

func (o *originList) set(pi *core.PeerInfo) {
	o.mu.Lock()
	o.l = []*core.PeerInfo{pi}
	o.mu.Unlock()
}

// GetOrigins implements originstore.Store.
func (o *originList) GetOrigins(core.Digest) ([]*core.PeerInfo, error) {
	o.mu.Lock()
	defer o.mu.Unlock()
	out := make([]*core.PeerInfo, len(o.l))
	for i, pi := range o.l {
		c := *pi
		out[i] = &c
	}
	return out, nil
}
