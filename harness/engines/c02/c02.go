// Package c02 records metainfo generations of the real kraken code (core.NewMetaInfo,
// core.NewMetaInfoFromBytes, Serialize/DeserializeMetaInfo, metadata.TorrentMeta,
// metainfogen.Generator, CAStore.WriteBlobToCacheWithMetaInfo) for validation against
// spec/core/MetaInfo.tla (property C02).  The driver records; verdicts come from the spec.
// crc32 / sha256 oracles are computed with the standard library and logged as booleans.
package c02

import (
	"bytes"
	"crypto/sha256"
	"encoding/hex"
	"errors"
	"fmt"
	"hash/crc32"
	"io"
	"math/rand"
	"sort"
	"testing/iotest"

	"github.com/c2h5oh/datasize"

	"github.com/uber/kraken/core"
	"github.com/uber/kraken/lib/metainfogen"
	"github.com/uber/kraken/lib/store"
	"github.com/uber/kraken/lib/store/metadata"

	"kvh/internal/eng"
)

func init() { eng.Register("c02", run) }

type blob struct {
	data []byte
	d    core.Digest
}

func mkBlob(rng *rand.Rand, n int) blob {
	data := make([]byte, n)
	rng.Read(data)
	sum := sha256.Sum256(data)
	d, err := core.NewSHA256DigestFromHex(hex.EncodeToString(sum[:]))
	if err != nil {
		panic(err)
	}
	return blob{data, d}
}

// chunkReader returns at most k bytes per Read (exercises io.CopyN across short reads).
type chunkReader struct {
	r io.Reader
	k int
}

func (c chunkReader) Read(p []byte) (int, error) {
	if len(p) > c.k {
		p = p[:c.k]
	}
	return c.r.Read(p)
}

// logNew records what mi reports about b for piece length plarg.
func logNew(c *eng.Ctx, via string, plarg int64, b blob, mi *core.MetaInfo, err error) {
	if err != nil || mi == nil {
		c.W.Ev("New", "via", via, "plarg", int(plarg), "ok", false, "len", 0, "pl", 0, "n", 0, "lens", []int{},
			"oob", []int{0, 0}, "starts", []int{}, "ends", []int{}, "sumOK", []bool{}, "ih", "none", "digestOK", false)
		return
	}
	n := mi.NumPieces()
	pl := mi.PieceLength()
	lens := make([]int, n)
	starts := make([]int, n)
	ends := make([]int, n)
	sumOK := make([]bool, n)
	L := int64(len(b.data))
	for i := 0; i < n; i++ {
		lens[i] = int(mi.GetPieceLength(i))
		// the obvious byte range of piece i; the specification checks it is PieceRange(i)
		s, e := int64(i)*plarg, int64(i+1)*plarg
		if e > L {
			e = L
		}
		starts[i], ends[i] = int(s), int(e)
		if s >= 0 && s <= e && e <= L {
			sumOK[i] = crc32.ChecksumIEEE(b.data[s:e]) == mi.GetPieceSum(i)
		}
	}
	c.W.Ev("New", "via", via, "plarg", int(plarg), "ok", true, "len", int(mi.Length()), "pl", int(pl), "n", n, "lens", lens,
		"oob", []int{int(mi.GetPieceLength(-1)), int(mi.GetPieceLength(n))}, "starts", starts, "ends", ends,
		"sumOK", sumOK, "ih", mi.InfoHash().Hex(), "digestOK", mi.Digest() == b.d && mi.Digest().String() == b.d.String())
}

func sameSums(a, b *core.MetaInfo) bool {
	if a.NumPieces() != b.NumPieces() {
		return false
	}
	for i := 0; i < a.NumPieces(); i++ {
		if a.GetPieceSum(i) != b.GetPieceSum(i) {
			return false
		}
	}
	return true
}

func logDeser(c *eng.Ctx, via string, orig *core.MetaInfo, ser []byte, mi *core.MetaInfo, err error) {
	if err != nil || mi == nil {
		c.W.Ev("Deserialize", "via", via, "ok", false, "len", 0, "pl", 0, "n", 0, "lens", []int{}, "ih", "none",
			"digestOK", false, "sumsEq", false, "reser", false)
		return
	}
	n := mi.NumPieces()
	lens := make([]int, n)
	for i := range lens {
		lens[i] = int(mi.GetPieceLength(i))
	}
	ser2, err2 := mi.Serialize()
	c.W.Ev("Deserialize", "via", via, "ok", true, "len", int(mi.Length()), "pl", int(mi.PieceLength()), "n", n, "lens", lens,
		"ih", mi.InfoHash().Hex(), "digestOK", mi.Digest() == orig.Digest(), "sumsEq", sameSums(orig, mi),
		"reser", err2 == nil && bytes.Equal(ser, ser2))
}

// roundTrip serializes mi and parses it back, through core or through metadata.TorrentMeta.
func roundTrip(c *eng.Ctx, mi *core.MetaInfo, viaTM bool) {
	if mi == nil {
		return
	}
	if viaTM {
		ser, err := metadata.NewTorrentMeta(mi).Serialize()
		c.W.Ev("Serialize", "via", "torrentmeta", "ok", err == nil && len(ser) > 0)
		if err != nil {
			return
		}
		var tm metadata.TorrentMeta
		err = tm.Deserialize(ser)
		logDeser(c, "torrentmeta", mi, ser, tm.MetaInfo, err)
		return
	}
	ser, err := mi.Serialize()
	c.W.Ev("Serialize", "via", "core", "ok", err == nil && len(ser) > 0)
	if err != nil {
		return
	}
	mi2, err := core.DeserializeMetaInfo(ser)
	logDeser(c, "core", mi, ser, mi2, err)
}

// generators runs every generator of core on (b, pl).
func generators(c *eng.Ctx, rng *rand.Rand, b blob, pl int64, all bool) *core.MetaInfo {
	c.W.Ev("SetPL", "pl", int(pl))
	if len(b.data) > 0 && pl > 0 && (all || rng.Intn(3) == 0) {
		// a generation whose stream dies with an I/O error somewhere inside the blob (mostly inside a piece) must fail
		// and must leave nothing behind that taints the generations that follow
		at := rng.Intn(len(b.data))
		_, ferr := core.NewMetaInfo(b.d, io.MultiReader(bytes.NewReader(b.data[:at]), iotest.ErrReader(errors.New("stream died"))), pl)
		c.W.Ev("NewFail", "at", at, "ok", ferr == nil)
	}
	mi, err := core.NewMetaInfo(b.d, bytes.NewReader(b.data), pl)
	logNew(c, "stream", pl, b, mi, err)
	if all || rng.Intn(2) == 0 {
		if len(b.data) <= 1<<16 {
			m2, err := core.NewMetaInfo(b.d, iotest.OneByteReader(bytes.NewReader(b.data)), pl)
			logNew(c, "onebyte", pl, b, m2, err)
		} else {
			m2, err := core.NewMetaInfo(b.d, chunkReader{bytes.NewReader(b.data), 1 + rng.Intn(70000)}, pl)
			logNew(c, "chunked", pl, b, m2, err)
		}
	}
	m3, err := core.NewMetaInfoFromBytes(b.d, b.data, pl)
	logNew(c, "bytes", pl, b, m3, err)
	return mi
}

func tableCfg(tbl [][2]int64) metainfogen.Config {
	m := map[datasize.ByteSize]datasize.ByteSize{}
	for _, e := range tbl {
		m[datasize.ByteSize(e[0])] = datasize.ByteSize(e[1])
	}
	return metainfogen.Config{PieceLengths: m}
}

func tableLog(tbl [][2]int64, rng *rand.Rand) [][]int {
	out := make([][]int, len(tbl))
	for i, e := range tbl {
		out[i] = []int{int(e[0]), int(e[1])}
	}
	if rng != nil {
		rng.Shuffle(len(out), func(i, j int) { out[i], out[j] = out[j], out[i] })
	}
	return out
}

func run(c *eng.Ctx) error {
	const maxSmallLen, maxSmallPL = 40, 12
	// ---- (A) exhaustive small domain: every len 0..40 x pl -1..12, every generator, both round trips
	nA := maxSmallLen + 1
	// ---- (B) exhaustive small tables: all tables over {0,1,4,9} x {1,2,5}, sizes 0..11
	thr := []int64{0, 1, 4, 9}
	tls := []int64{1, 2, 5}
	var tables [][][2]int64
	for mask := 1; mask < 1<<len(thr); mask++ {
		var doms []int64
		for i, x := range thr {
			if mask&(1<<i) != 0 {
				doms = append(doms, x)
			}
		}
		total := 1
		for range doms {
			total *= len(tls)
		}
		for k := 0; k < total; k++ {
			var tbl [][2]int64
			kk := k
			for _, x := range doms {
				tbl = append(tbl, [2]int64{x, tls[kk%len(tls)]})
				kk /= len(tls)
			}
			tables = append(tables, tbl)
		}
	}
	nB := 12
	// ---- (C) seeded random large blobs, (D) random large tables, (E) Generate / CAStore paths
	nC := c.N(40, 400)
	nD := c.N(20, 200)
	nE := c.N(8, 60)
	maxLarge := c.N(1<<20, 4<<20)
	c.Stats["exhaustive"] = true
	c.Stats["small_cases"] = nA * (maxSmallPL + 2)
	c.Stats["small_tables"] = len(tables) * nB

	c.Traces(nA+nB+nC+nD+nE, func(t int, rng *rand.Rand) {
		// a panic inside the code under test is recorded as an event no specification action explains (=> rejected, replayable)
		defer func() {
			if e := recover(); e != nil {
				c.W.Ev("Panic", "what", fmt.Sprint(e))
			}
		}()
		switch {
		case t < nA:
			L := t
			c.W.Reset(t, map[string]any{"kind": "small", "len": L})
			b := mkBlob(rng, L)
			c.W.Ev("Blob", "len", L)
			for pl := int64(-1); pl <= maxSmallPL; pl++ {
				mi := generators(c, rng, b, pl, true)
				roundTrip(c, mi, false)
				roundTrip(c, mi, true)
			}
		case t < nA+nB:
			size := int64(t - nA)
			c.W.Reset(t, map[string]any{"kind": "tables", "len": int(size)})
			c.W.Ev("Blob", "len", int(size))
			for _, tbl := range tables {
				g, err := metainfogen.New(tableCfg(tbl), nil)
				if err != nil {
					panic(err)
				}
				c.W.Ev("PieceLength", "table", tableLog(tbl, rng), "size", int(size), "res", int(g.GetPieceLength(size)))
			}
		case t < nA+nB+nC:
			// large blob; piece lengths around exact divisors and a few odd ones
			L := 1 + rng.Intn(maxLarge)
			if rng.Intn(4) == 0 {
				L = (1 + rng.Intn(64)) * (1 << uint(10+rng.Intn(8))) // a round size: many exact multiples
				if L > maxLarge {
					L = maxLarge
				}
			}
			c.W.Reset(t, map[string]any{"kind": "large", "len": L})
			b := mkBlob(rng, L)
			c.W.Ev("Blob", "len", L)
			for k := 0; k < 3; k++ {
				np := 1 + rng.Intn(64)
				pl := int64(L / np)
				switch rng.Intn(5) {
				case 0:
					pl++
				case 1:
					pl--
				case 2:
					pl = int64(L) + int64(rng.Intn(3)) - 1 // single piece: exactly len, len-1, len+1
				}
				if pl < 1 {
					pl = 1
				}
				if int64(L)/pl > 400 {
					pl = int64(L)/400 + 1
				}
				mi := generators(c, rng, b, pl, false)
				roundTrip(c, mi, k%2 == 1)
			}
		case t < nA+nB+nC+nD:
			// random table with large thresholds; sizes at every threshold and its neighbours
			ne := 1 + rng.Intn(6)
			seen := map[int64]bool{}
			var tbl [][2]int64
			for len(tbl) < ne {
				x := int64(rng.Intn(1 << 30))
				if rng.Intn(4) == 0 {
					x = int64(rng.Intn(4)) << 20
				}
				if seen[x] {
					continue
				}
				seen[x] = true
				tbl = append(tbl, [2]int64{x, int64(1 + rng.Intn(1<<24))})
			}
			c.W.Reset(t, map[string]any{"kind": "bigtable", "entries": ne})
			g, err := metainfogen.New(tableCfg(tbl), nil)
			if err != nil {
				panic(err)
			}
			var sizes []int64
			for _, e := range tbl {
				sizes = append(sizes, e[0]-1, e[0], e[0]+1)
			}
			sizes = append(sizes, 0, 1<<30+5, int64(rng.Intn(1<<30)))
			sort.Slice(sizes, func(i, j int) bool { return sizes[i] < sizes[j] })
			for _, s := range sizes {
				if s < 0 {
					continue
				}
				c.W.Ev("Blob", "len", int(s))
				c.W.Ev("PieceLength", "table", tableLog(tbl, rng), "size", int(s), "res", int(g.GetPieceLength(s)))
			}
		default:
			// metainfogen.Generator.Generate and CAStore.WriteBlobToCacheWithMetaInfo on a real CAStore
			cas, cleanup := store.CAStoreFixture()
			defer cleanup()
			ne := 1 + rng.Intn(4)
			seen := map[int64]bool{}
			var tbl [][2]int64
			for len(tbl) < ne {
				x := int64(rng.Intn(5000))
				if len(tbl) == 0 && rng.Intn(2) == 0 {
					x = 0
				}
				if seen[x] {
					continue
				}
				seen[x] = true
				tbl = append(tbl, [2]int64{x, int64(1 + rng.Intn(600))})
			}
			c.W.Reset(t, map[string]any{"kind": "generate", "entries": ne})
			g, err := metainfogen.New(tableCfg(tbl), cas)
			if err != nil {
				panic(err)
			}
			for k := 0; k < 4; k++ {
				L := rng.Intn(6000)
				if k > 0 && rng.Intn(2) == 0 {
					e := tbl[rng.Intn(len(tbl))]
					L = int(e[0]) + rng.Intn(3) - 1
					if L < 0 {
						L = 0
					}
				}
				b := mkBlob(rng, L)
				c.W.Ev("Blob", "len", L)
				pl := g.GetPieceLength(int64(L))
				c.W.Ev("PieceLength", "table", tableLog(tbl, rng), "size", L, "res", int(pl))
				var mi *core.MetaInfo
				var gerr error
				via := "generate"
				if k%2 == 0 {
					if gerr = cas.CreateCacheFile(b.d.Hex(), bytes.NewReader(b.data)); gerr == nil {
						gerr = g.Generate(b.d)
					}
				} else {
					via = "cas"
					gerr = cas.WriteBlobToCacheWithMetaInfo(b.d.Hex(), uint64(L), func(w store.FileReadWriter) error {
						_, err := w.Write(b.data)
						return err
					}, pl)
				}
				if gerr == nil {
					var tm metadata.TorrentMeta
					if gerr = cas.GetCacheFileMetadata(b.d.Hex(), &tm); gerr == nil {
						mi = tm.MetaInfo
					}
				}
				logNew(c, via, pl, b, mi, gerr)
				m3, err := core.NewMetaInfoFromBytes(b.d, b.data, pl)
				logNew(c, "bytes", pl, b, m3, err)
				roundTrip(c, mi, true)
			}
		}
	})
	return nil
}
