// Package c21 records abstract cases of the real lib/hashring.Ring (property C21) for validation against
// spec/ring/HashRing.tla.
//
// One trace = one universe of 1..7 hosts, one MaxReplica setting and up to three rings ("processes"), each
// with its own fake hostlist.List / healthcheck.Filter and a watcher.  The processes are led to the same
// membership along different discovery histories (constructed directly on it, refreshed from a different
// membership, refreshed by Monitor, one through NewPassive); Go's randomised map iteration additionally
// gives every rebuild its own AddNode order.  After every step Ring.Locations is called on every process for
// ALL 65536 shard ids; the ranking of the current members is computed independently (kvh/internal/hrwref)
// and the replies are logged as de-duplicated abstract cases with counts.  The driver asserts nothing.
package c21

import (
	"fmt"
	"math/rand"
	"sort"
	"sync"
	"time"

	"github.com/uber-go/tally"

	"github.com/uber/kraken/core"
	"github.com/uber/kraken/lib/hashring"
	"github.com/uber/kraken/utils/stringset"

	"kvh/internal/eng"
	"kvh/internal/hrwref"
)

func init() { eng.Register("c21", run) }

const (
	workers       = 4
	defaultWeight = 100 // hashring._defaultWeight
)

type fakeList struct {
	mu    sync.Mutex
	set   []string
	calls int
}

func (f *fakeList) Resolve() stringset.Set {
	f.mu.Lock()
	defer f.mu.Unlock()
	f.calls++
	return stringset.FromSlice(f.set)
}
func (f *fakeList) put(s []string) {
	f.mu.Lock()
	f.set = append([]string(nil), s...)
	f.mu.Unlock()
}
func (f *fakeList) ncalls() int {
	f.mu.Lock()
	defer f.mu.Unlock()
	return f.calls
}

// fakeFilter reports the configured hosts (intersected with what it is asked about) as healthy.
type fakeFilter struct {
	mu      sync.Mutex
	healthy map[string]bool
	entered chan struct{} // armed: the next Run announces itself here and waits for release (a slow health check)
	release chan struct{}
}

// arm makes the next Run park until the returned release channel is closed.
func (f *fakeFilter) arm() (entered <-chan struct{}, release chan<- struct{}) {
	f.mu.Lock()
	defer f.mu.Unlock()
	f.entered, f.release = make(chan struct{}), make(chan struct{})
	return f.entered, f.release
}

func (f *fakeFilter) Run(addrs stringset.Set) stringset.Set {
	f.mu.Lock()
	entered, release := f.entered, f.release
	f.entered, f.release = nil, nil
	f.mu.Unlock()
	if entered != nil {
		close(entered)
		<-release
	}
	f.mu.Lock()
	defer f.mu.Unlock()
	out := stringset.New()
	for a := range addrs {
		if f.healthy[a] {
			out.Add(a)
		}
	}
	return out
}
func (f *fakeFilter) Failed(addr string) { // healthcheck.PassiveFilter
	f.mu.Lock()
	delete(f.healthy, addr)
	f.mu.Unlock()
}
func (f *fakeFilter) put(s []string) {
	f.mu.Lock()
	f.healthy = map[string]bool{}
	for _, a := range s {
		f.healthy[a] = true
	}
	f.mu.Unlock()
}

type watcher struct {
	mu    sync.Mutex
	calls int
	last  []string
}

func (w *watcher) Notify(latest stringset.Set) {
	w.mu.Lock()
	w.calls++
	w.last = latest.ToSlice()
	w.mu.Unlock()
}
func (w *watcher) take() (int, []string) {
	w.mu.Lock()
	defer w.mu.Unlock()
	n, l := w.calls, w.last
	w.calls, w.last = 0, nil
	return n, l
}

type proc struct {
	name    string
	list    *fakeList
	filter  *fakeFilter
	w       *watcher
	ring    hashring.Ring
	passive hashring.PassiveRing
	members []int // what the ring currently holds (driver bookkeeping for choosing inputs only)
	healthy []int
}

type world struct {
	c     *eng.Ctx
	addrs []string // real addresses, canonical (sorted) order
	names map[string]string
	score [][]float64 // [shard][host] independent scores
	dig   []core.Digest
}

func (w *world) hn(idx []int) []string {
	out := make([]string, len(idx))
	for i, x := range idx {
		out[i] = fmt.Sprintf("h%d", x+1)
	}
	return out
}
func (w *world) real(idx []int) []string {
	out := make([]string, len(idx))
	for i, x := range idx {
		out[i] = w.addrs[x]
	}
	return out
}
func (w *world) abs(addrs []string) []string {
	out := make([]string, len(addrs))
	for i, a := range addrs {
		if n, ok := w.names[a]; ok {
			out[i] = n
		} else {
			out[i] = "unknown"
		}
	}
	sort.Strings(out)
	return out
}

func randAddr(rng *rand.Rand, used map[string]bool) string {
	for {
		var s string
		switch rng.Intn(3) {
		case 0:
			s = fmt.Sprintf("kraken-origin%02d-%s:%d", rng.Intn(100), []string{"dca1", "phx2", "sjc1"}[rng.Intn(3)], 15000+rng.Intn(10))
		case 1:
			s = fmt.Sprintf("10.%d.%d.%d:%d", rng.Intn(256), rng.Intn(256), rng.Intn(256), 1024+rng.Intn(60000))
		default:
			s = fmt.Sprintf("origin-%d.kraken.svc.cluster.local:%d", rng.Intn(1000), 80+rng.Intn(9000))
		}
		if !used[s] {
			used[s] = true
			return s
		}
	}
}

// subset picks a random subset of from with at least min elements, biased towards large subsets.
func subset(rng *rand.Rand, from []int, min int) []int {
	lo := len(from) / 2
	if lo < min {
		lo = min
	}
	if rng.Intn(4) == 0 {
		lo = min
	}
	k := lo
	if len(from) > lo {
		k = lo + rng.Intn(len(from)-lo+1)
	}
	perm := rng.Perm(len(from))[:k]
	sort.Ints(perm)
	out := make([]int, k)
	for i, j := range perm {
		out[i] = from[j]
	}
	return out
}

// healthChoice picks health subsets that hit all three cases of the statement.
func healthChoice(rng *rand.Rand, members []int) []int {
	switch rng.Intn(8) {
	case 0:
		return nil // nobody healthy
	case 1:
		return append([]int(nil), members...) // everybody
	case 2:
		return []int{members[rng.Intn(len(members))]} // exactly one
	default:
		if len(members) < 2 {
			return append([]int(nil), members...)
		}
		k := 1 + rng.Intn(len(members)-1) // a proper, non-empty subset
		perm := rng.Perm(len(members))[:k]
		sort.Ints(perm)
		out := make([]int, k)
		for i, j := range perm {
			out[i] = members[j]
		}
		return out
	}
}

func (w *world) logInstall(ev string, p *proc, r int, latest, healthy []int) {
	n, last := p.w.take()
	kv := []any{"p", p.name, "latest", w.hn(latest), "healthy", w.hn(healthy), "ncalls", n, "nset", w.abs(last)}
	if ev == "New" {
		kv = append(kv, "r", r)
	}
	w.c.W.Ev(ev, kv...)
	p.members, p.healthy = latest, healthy
}

// sweep calls Locations for every shard on p and logs the abstract cases.
func (w *world) sweep(p *proc) {
	mem := p.members
	type cls struct {
		rank []int
		res  []string
		cnt  int
	}
	parts := make([]map[string]*cls, workers)
	isHealthy := map[int]bool{}
	for _, h := range p.healthy {
		isHealthy[h] = true
	}
	var wg sync.WaitGroup
	var panicMu sync.Mutex
	panicked := ""
	for wk := 0; wk < workers; wk++ {
		wg.Add(1)
		go func(wk int) {
			defer wg.Done()
			defer func() { // a crash of the code under test inside a worker is recorded, not fatal for the run
				if r := recover(); r != nil {
					panicMu.Lock()
					panicked = fmt.Sprint(r)
					panicMu.Unlock()
				}
			}()
			m := map[string]*cls{}
			order := make([]int, len(mem))
			for s := wk; s < 65536; s += workers {
				got := p.ring.Locations(w.dig[s])
				// independent ranking of the current members (stable on canonical order)
				copy(order, mem)
				row := w.score[s]
				sort.SliceStable(order, func(a, b int) bool { return row[order[a]] > row[order[b]] })
				key := make([]byte, 0, 2*len(order)+len(got)+2)
				for _, h := range order {
					if isHealthy[h] {
						key = append(key, '1')
					} else {
						key = append(key, '0')
					}
				}
				if len(order) <= 4 {
					for _, h := range order {
						key = append(key, byte('A'+h))
					}
				}
				key = append(key, '|')
				for _, g := range got {
					pos := byte('?')
					for i, h := range order {
						if w.addrs[h] == g {
							pos = byte('a' + i)
						}
					}
					key = append(key, pos)
				}
				k := string(key)
				c := m[k]
				if c == nil {
					res := make([]string, len(got))
					for i, g := range got {
						if n, ok := w.names[g]; ok {
							res[i] = n
						} else {
							res[i] = "unknown"
						}
					}
					c = &cls{rank: append([]int(nil), order...), res: res}
					m[k] = c
				}
				c.cnt++
			}
			parts[wk] = m
		}(wk)
	}
	wg.Wait()
	if panicked != "" { // re-raised on the driver's goroutine, where it becomes a "Panic" record of the trace
		panic("code under test panicked during concurrent Locations calls: " + panicked)
	}
	all := map[string]*cls{}
	for _, m := range parts {
		for k, c := range m {
			if a := all[k]; a != nil {
				a.cnt += c.cnt
			} else {
				all[k] = c
			}
		}
	}
	keys := make([]string, 0, len(all))
	for k := range all {
		keys = append(keys, k)
	}
	sort.Strings(keys)
	for _, k := range keys {
		c := all[k]
		w.c.W.Ev("Loc", "p", p.name, "rank", w.hn(c.rank), "res", c.res, "cnt", c.cnt, "case", k)
	}
	w.c.Inc("sweeps", 1)
	w.c.Inc("locations_calls", 65536)
}

func (w *world) reads(p *proc, rng *rand.Rand) {
	ms := p.ring.Members().ToSlice()
	w.c.W.Ev("Members", "p", p.name, "res", w.abs(ms))
	a := rng.Intn(len(w.addrs))
	w.c.W.Ev("Contains", "p", p.name, "a", fmt.Sprintf("h%d", a+1), "res", p.ring.Contains(w.addrs[a]))
}

func trace(c *eng.Ctx, t int, rng *rand.Rand, n int) {
	used := map[string]bool{}
	w := &world{c: c, names: map[string]string{}}
	for i := 0; i < n; i++ {
		w.addrs = append(w.addrs, randAddr(rng, used))
	}
	sort.Strings(w.addrs)
	for i, a := range w.addrs {
		w.names[a] = fmt.Sprintf("h%d", i+1)
	}
	r := []int{0, 1, 2, 3, 3, 4, 5}[rng.Intn(7)]
	if t < 6 {
		r = []int{0, 1, 2, 3, 4, 2}[t]
	}
	nproc := 2 + rng.Intn(2)
	c.W.Reset(t, map[string]any{"hosts": n, "r": r, "procs": nproc})

	// independent scores and digests for all shards
	w.score = make([][]float64, 65536)
	w.dig = make([]core.Digest, 65536)
	tail := make([]byte, 30)
	for s := 0; s < 65536; s++ {
		shard := fmt.Sprintf("%04x", s)
		row := make([]float64, n)
		for i, a := range w.addrs {
			row[i], _ = hrwref.Score(shard, a, defaultWeight)
		}
		w.score[s] = row
		rng.Read(tail)
		d, err := core.NewSHA256DigestFromHex(fmt.Sprintf("%s%x", shard, tail))
		if err != nil {
			panic(err)
		}
		w.dig[s] = d
	}

	all := make([]int, n)
	for i := range all {
		all[i] = i
	}
	procs := make([]*proc, nproc)
	for i := range procs {
		procs[i] = &proc{name: fmt.Sprintf("p%d", i+1), list: &fakeList{}, filter: &fakeFilter{}, w: &watcher{}}
	}
	cfg := hashring.Config{MaxReplica: r, RefreshInterval: time.Millisecond,
		MembershipWaitTimeout: 40 * time.Millisecond, MembershipWaitInterval: 2 * time.Millisecond}
	create := func(p *proc, mem, hs []int) {
		p.list.put(w.real(mem))
		p.filter.put(w.real(hs))
		if p.name == "p3" {
			p.passive = hashring.NewPassive(cfg, p.list, p.filter, hashring.WithWatcher(p.w))
			p.ring = p.passive
		} else {
			p.ring = hashring.New(cfg, p.list, p.filter, tally.NoopScope, hashring.WithWatcher(p.w))
		}
		w.logInstall("New", p, r, mem, hs)
	}
	refresh := func(p *proc, mem, hs []int, viaMonitor bool) {
		p.list.put(w.real(mem))
		p.filter.put(w.real(hs))
		if viaMonitor {
			before := p.list.ncalls()
			stop := make(chan struct{})
			done := make(chan struct{})
			go func() { p.ring.Monitor(stop); close(done) }()
			deadline := time.Now().Add(10 * time.Second)
			for p.list.ncalls() < before+2 && time.Now().Before(deadline) {
				time.Sleep(200 * time.Microsecond)
			}
			close(stop)
			<-done
			// one more direct refresh makes the post-state certain even if Monitor was stopped mid-way
			p.ring.Refresh()
		} else if rng.Intn(3) == 0 {
			// a slow health check: while Refresh is inside the filter, every read still answers for the PREVIOUS
			// membership and health (the ring installs members, hash and healthy set together, after the check)
			entered, release := p.filter.arm()
			done := make(chan struct{})
			go func() { p.ring.Refresh(); close(done) }()
			select {
			case <-entered:
				w.reads(p, rng)
				w.sweep(p)
				w.c.Inc("mid_refresh_sweeps", 1)
			case <-done:
			}
			close(release)
			<-done
		} else {
			p.ring.Refresh()
		}
		w.logInstall("Refresh", p, r, mem, hs)
	}

	steps := c.N(3, 4) + rng.Intn(2)
	for s := 0; s < steps; s++ {
		mem := subset(rng, all, 1)
		if s == 0 && rng.Intn(2) == 0 {
			mem = all
		}
		hs := healthChoice(rng, mem)
		for i, p := range procs {
			phs := hs
			if rng.Intn(5) == 0 {
				phs = healthChoice(rng, mem) // this process sees a different health picture
			}
			switch {
			case p.ring == nil && (i == 0 || rng.Intn(2) == 0):
				create(p, mem, phs)
			case p.ring == nil:
				// discover a different membership first, then converge by refresh
				m0 := subset(rng, all, 1)
				create(p, m0, healthChoice(rng, m0))
				refresh(p, mem, phs, false)
			default:
				if rng.Intn(3) == 0 {
					m0 := subset(rng, all, 1)
					refresh(p, m0, healthChoice(rng, m0), false)
				}
				refresh(p, mem, phs, rng.Intn(4) == 0)
			}
			w.reads(p, rng)
			w.sweep(p)
		}
		// passive failure report on p3: the host becomes unhealthy at the next refresh
		if len(procs) == 3 && procs[2].passive != nil && len(procs[2].healthy) > 0 && rng.Intn(2) == 0 {
			p := procs[2]
			x := p.healthy[rng.Intn(len(p.healthy))]
			p.passive.Failed(w.addrs[x])
			var hs2 []int
			for _, h := range p.healthy {
				if h != x {
					hs2 = append(hs2, h)
				}
			}
			p.ring.Refresh()
			w.logInstall("Refresh", p, r, p.members, hs2)
			w.sweep(p)
		}
	}
	// WaitForContains: one present, one absent address (if any)
	p := procs[0]
	in := map[int]bool{}
	for _, h := range p.members {
		in[h] = true
	}
	wait := func(h int) {
		res := "ok"
		if err := p.ring.WaitForContains(w.addrs[h]); err != nil {
			res = "timeout"
		}
		c.W.Ev("Wait", "p", p.name, "a", fmt.Sprintf("h%d", h+1), "res", res)
	}
	wait(p.members[0])
	for h := 0; h < n; h++ {
		if !in[h] {
			wait(h)
			break
		}
	}
}

func run(c *eng.Ctx) error {
	var sizes []int
	if c.Quick() {
		sizes = []int{1, 2, 3, 4, 5, 7}
	} else {
		for rep := 0; rep < 6; rep++ {
			sizes = append(sizes, 1, 2, 3, 4, 5, 6, 7)
		}
	}
	c.Traces(len(sizes), func(t int, rng *rand.Rand) { trace(c, t, rng, sizes[t]) })
	c.Stats["exhaustive"] = true
	return nil
}
