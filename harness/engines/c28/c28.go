// Package c28 records histories of the real peerstore.RedisStore (property C28) against an
// in-process Redis (github.com/alicebob/miniredis) for validation against spec/tracker/RedisPeers.tla.
//
// The store runs on a mock clock; miniredis' notion of time is kept in step with it (SetTime before
// every command, FastForward on every advance), so window expiry is deterministic.
//
// Every store history announces IPv4 addresses, host names and IPv6 addresses (full, compressed, zoned,
// v4-mapped).  Until /repo commit 3bed7ac the store dropped every peer whose address contains ':'
// (finding F28); cfg.v6 and the v6 fields remain in the records because the signature in
// known_findings.d/C28.json refers to them.  Two more histories exercise the member codec alone: one over
// host names and odd strings, one over every address of 1..8 tokens over an empty and a non-empty token
// (0..7 colons).
package c28

import (
	"fmt"
	"math/rand"
	"strings"
	"time"

	"github.com/alicebob/miniredis"

	"github.com/uber/kraken/core"
	"github.com/uber/kraken/tracker/peerstore"

	"kvh/engines/trk"
	"kvh/internal/eng"
)

func init() { eng.Register("c28", run) }

const nh, np = 2, 5

var plain = []string{"10.0.1.11", "192.168.0.254", "host-1.example.com", "localhost", "0.0.0.0", "agent_7"}
var v6 = []string{"::1", "2001:db8::1", "2001:0db8:0000:0000:0000:0000:0000:0001", "fe80::1%eth0",
	"::ffff:10.0.0.1", "::", "1::", "2001:db8:0:0:1:0:0:1"}
var ports = []int{1, 80, 7001, 65535}
var wins = []int{2, 3, 10}
var asks = []int{50, 50, 50, 50, 1, 2, 3, 0, -1}

func toks(ip string) []string { return strings.Split(ip, ":") }

func run(c *eng.Ctx) error {
	w := trk.NewWorld(nh, np, 0, 0)
	nBulk, nV6 := 0, c.N(72, 1208)
	total := nBulk + nV6 + 2 // + one codec history per kind
	var fail error
	c.Traces(total, func(t int, rng *rand.Rand) {
		if fail != nil {
			return
		}
		isV6 := (t >= nBulk && t < nBulk+nV6) || t == total-1
		if t >= nBulk+nV6 {
			c.W.Reset(t, map[string]any{"w": 2, "m": 1, "v6": isV6, "mode": "codec"})
			codecHistory(c, w, rng, isV6)
			return
		}
		W, M := wins[rng.Intn(len(wins))], 1+rng.Intn(3)
		mr, err := miniredis.Run()
		if err != nil {
			fail = err
			return
		}
		defer mr.Close()
		clk := trk.NewGateClock(w.Base)
		mr.SetTime(clk.Mock.Now())
		s, err := peerstore.NewRedisStore(peerstore.RedisConfig{
			Addr:              mr.Addr(),
			PeerSetWindowSize: time.Duration(W) * time.Second,
			MaxPeerSetWindows: M,
		}, clk)
		if err != nil {
			fail = err
			return
		}
		c.W.Reset(t, map[string]any{"w": W, "m": M, "v6": isV6, "mode": "store"})
		addrs := plain
		if isV6 {
			addrs = append(append([]string{}, plain...), v6...)
		}
		sawV6 := map[int]bool{}
		hmax := 1 + rng.Intn(nh)
		steps := 25 + rng.Intn(30)
		get := func(hi, n int) {
			mr.SetTime(clk.Mock.Now())
			ps, err := s.GetPeers(w.Hashes[hi], n)
			res := "ok"
			if err != nil {
				res = "err"
			}
			ids, ips, pts, cs := []string{}, [][]string{}, []int{}, []bool{}
			for _, p := range ps {
				ids, ips, pts, cs = append(ids, w.PName(p.PeerID)), append(ips, toks(p.IP)), append(pts, p.Port), append(cs, p.Complete)
			}
			c.W.Ev("Get", "h", fmt.Sprintf("h%d", hi+1), "n", n, "res", res,
				"ids", ids, "ips", ips, "ports", pts, "cs", cs, "v6", sawV6[hi])
		}
		for i := 0; i < steps; i++ {
			switch k := rng.Intn(20); {
			case k < 10:
				hi, pi := rng.Intn(hmax), rng.Intn(np)
				ip, port, complete := addrs[rng.Intn(len(addrs))], ports[rng.Intn(len(ports))], rng.Intn(3) == 0
				if rng.Intn(3) > 0 { // most peers keep one address
					ip, port = addrs[pi%len(addrs)], ports[pi%len(ports)]
				}
				mr.SetTime(clk.Mock.Now())
				err := s.UpdatePeer(w.Hashes[hi], core.NewPeerInfo(w.Peers[pi], ip, port, false, complete))
				res := "ok"
				if err != nil {
					res = "err"
				}
				if strings.Contains(ip, ":") {
					sawV6[hi] = true
				}
				c.W.Ev("Update", "h", fmt.Sprintf("h%d", hi+1), "p", fmt.Sprintf("p%d", pi+1),
					"ip", toks(ip), "port", port, "c", complete, "res", res, "v6", strings.Contains(ip, ":"))
			case k < 16:
				get(rng.Intn(hmax), asks[rng.Intn(len(asks))])
			default:
				d := 1 + rng.Intn(W)
				clk.Add(time.Duration(d) * time.Second)
				mr.FastForward(time.Duration(d) * time.Second)
				mr.SetTime(clk.Mock.Now())
				c.W.Ev("Tick", "d", d)
			}
		}
		for hi := 0; hi < hmax; hi++ {
			get(hi, 50)
		}
	})
	return fail
}

// codecHistory: serializePeer then deserializePeer, alone.
func codecHistory(c *eng.Ctx, w *trk.World, rng *rand.Rand, isV6 bool) {
	var ips []string
	if isV6 {
		ips = append(ips, v6...)
		for k := 1; k <= 8; k++ { // every address of k tokens over {"", "a"}
			for bits := 0; bits < 1<<k; bits++ {
				t := make([]string, k)
				for i := range t {
					if bits>>i&1 == 1 {
						t[i] = "a"
					}
				}
				ips = append(ips, strings.Join(t, ":"))
			}
		}
		c.Stats["codec_token_addresses"] = len(ips)
	} else {
		ips = append(ips, plain...)
		ips = append(ips, "", "a", "256.256.256.256", "xn--bcher-kva.example", "HOST", "a.b.c.d.e.f.g", "[bracket]", "with space", "10.0.0.1/8")
	}
	for _, ip := range ips {
		for _, complete := range []bool{false, true} {
			pi, port := rng.Intn(np), ports[rng.Intn(len(ports))]
			in := core.NewPeerInfo(w.Peers[pi], ip, port, false, complete)
			id, bip, bport, bc, err := peerstore.VerifDeserializePeer(peerstore.VerifSerializePeer(in))
			bp, btoks := "", []string{}
			if err == nil {
				bp, btoks = w.PName(id), toks(bip)
			} else {
				bport, bc = 0, false
			}
			c.W.Ev("Codec", "p", fmt.Sprintf("p%d", pi+1), "ip", toks(ip), "port", port, "c", complete,
				"ok", err == nil, "bp", bp, "bip", btoks, "bport", bport, "bc", bc, "v6", strings.Contains(ip, ":"))
		}
	}
}
