// Package x01 records segment-level histories of the real Docker registry storage driver
// (lib/dockerregistry KrakenStorageDriver + lib/dockerregistry/transfer ReadWrite/ReadOnly transferers) for
// validation against spec/registry/RegistryDriver.tla (extension module X01).
//
// The driver under test is the real one, on a real CAStore (proxy, "rw") or CADownloadStore (agent, "ro").
// Its dependencies -- origin cluster client, build-index tag client, torrent scheduler, image verification hook --
// are harness fakes that PARK the calling goroutine: two or three caller goroutines issue driver calls, but only
// one of them runs at any time, and the harness decides (seeded) which parked dependency call returns next and
// with which outcome (success, not found, failure, corrupt bytes, partial download).  One ndjson record is
// written per SEGMENT (call .. first dependency call, dependency return .. next dependency call / return of the
// driver), carrying the reply when the driver returned in that segment and a projection of the stores afterwards.
// The driver asserts nothing.
package x01

import (
	"bytes"
	"context"
	"crypto/sha256"
	"encoding/hex"
	"errors"
	"fmt"
	"io"
	"math/rand"
	"runtime"
	"sort"
	"strings"
	"sync"
	"time"

	"github.com/docker/distribution/registry/storage/driver"
	"github.com/docker/distribution/uuid"
	"github.com/uber-go/tally"

	"github.com/uber/kraken/build-index/tagclient"
	"github.com/uber/kraken/core"
	"github.com/uber/kraken/lib/dockerregistry"
	"github.com/uber/kraken/lib/dockerregistry/transfer"
	"github.com/uber/kraken/lib/store"
	"github.com/uber/kraken/lib/torrent/scheduler"
	"github.com/uber/kraken/origin/blobclient"

	"kvh/internal/eng"
)

func init() { eng.Register("x01", run) }

const (
	repo = "alpine"
	root = "/docker/registry/v2"
)

var (
	digestIDs = []string{"d1", "d2", "d3"}
	uploadIDs = []string{"u1", "u2"}
	tagIDs    = []string{"t1", "t2"}
	tagNames  = map[string]string{"t1": "latest", "t2": "v2"}
	offIDs    = []string{"o0", "o2"}
	offNames  = map[string]string{"o0": "0", "o2": "2"}
	handleIDs = []string{"w1", "w2", "w3"}
	abstract  = map[string][]int{"d1": {1, 2}, "d2": {1, 2, 3}, "d3": {}}
)

// call is one driver call with abstract arguments (the fields of the specification's call record).
type call struct {
	op, k, k2, u, d, t, oo, w string
	o, hv                     int
	b                         []int
	ap, nr                    bool
}

type reply struct {
	res, vs string
	vq      []int
	vn      int
	vl      []string
}

type thread struct {
	id      string
	resume  chan struct{}
	busy    bool
	parked  bool
	gate    string
	garg    map[string]any
	out     string
	rep     reply
	plan    []call
	cur     call
	paniced string

	// conc family: what this goroutine owns
	rng    *rand.Rand
	u, w   string
	wOpen  bool
	wKnown bool
}

type sys struct {
	c    *eng.Ctx
	rng  *rand.Rand
	mode string
	fam  string
	scD  string // digest of the dedicated scenario

	cas  *store.CAStore
	cads *store.CADownloadStore
	sd   *dockerregistry.KrakenStorageDriver

	perm    [4]byte           // abstract byte -> real byte
	content map[string][]byte // digest id -> real bytes
	dig     map[string]core.Digest
	digID   map[string]string // hex -> id
	uuids   map[string]string
	origin  map[string]bool // digest id -> origin / network has it
	tags    map[string]string
	handles map[string]driver.FileWriter
	hOpen   map[string]string // handle id -> upload id while the harness believes it open
	hKnown  map[string]bool

	threads []*thread
	cur     *thread
	back    chan struct{}

	conc bool       // free-running family: goroutines really run concurrently, nothing parks
	mu   sync.Mutex // conc: outcome + truth + dep record
	smu  sync.Mutex // fake scheduler
	hmu  sync.Mutex // handles map
	gids sync.Map   // goroutine id -> *thread
}

// ---------------------------------------------------------------------------------------------------------
// paths

func (s *sys) path(k, u, d, t, oo string) string {
	up := func() string { return fmt.Sprintf("%s/repositories/%s/_uploads/%s", root, repo, s.uuids[u]) }
	hexd := func() string {
		if dg, ok := s.dig[d]; ok {
			return dg.Hex()
		}
		return strings.Repeat("0", 64)
	}
	switch k {
	case "startedat":
		return up() + "/startedat"
	case "hashstate":
		return up() + "/hashstates/sha256/" + offNames[oo]
	case "hsdir":
		return up() + "/hashstates/sha256"
	case "updata":
		return up() + "/data"
	case "layer":
		return fmt.Sprintf("%s/repositories/%s/_layers/sha256/%s/link", root, repo, hexd())
	case "blob":
		h := hexd()
		return fmt.Sprintf("%s/blobs/sha256/%s/%s/data", root, h[:2], h)
	case "tagcur":
		return fmt.Sprintf("%s/repositories/%s/_manifests/tags/%s/current/link", root, repo, tagNames[t])
	case "tagidx":
		return fmt.Sprintf("%s/repositories/%s/_manifests/tags/%s/index/sha256/%s/link", root, repo, tagNames[t], hexd())
	case "rev":
		return fmt.Sprintf("%s/repositories/%s/_manifests/revisions/sha256/%s/link", root, repo, hexd())
	case "tagsdir":
		return fmt.Sprintf("%s/repositories/%s/_manifests/tags", root, repo)
	}
	return root + "/junk/x"
}

func (s *sys) real(b []int) []byte {
	out := make([]byte, len(b))
	for i, x := range b {
		out[i] = s.perm[x]
	}
	return out
}

func (s *sys) abs(b []byte) []int {
	out := make([]int, len(b))
	for i, x := range b {
		out[i] = 9
		for a := 1; a <= 3; a++ {
			if s.perm[a] == x {
				out[i] = a
			}
		}
	}
	return out
}

func (s *sys) digestID(d core.Digest) string {
	if id, ok := s.digID[d.Hex()]; ok {
		return id
	}
	return "d?"
}

func (s *sys) tagID(tag string) string {
	for id, n := range tagNames {
		if tag == repo+":"+n {
			return id
		}
	}
	return "t?"
}

// ---------------------------------------------------------------------------------------------------------
// gates: a dependency call parks its goroutine until the harness lets it return

// apply performs what the dependency does to the harness' own truth (origin / build-index contents) for the
// chosen outcome.  In the free-running family (conc) nothing parks: outcome, truth update and the "dep" record
// happen in one critical section, so the record order is consistent with what the fakes answered.
func (s *sys) gateAt(name string, arg map[string]any, apply func(out string)) string {
	if s.conc {
		v, _ := s.gids.Load(gid())
		th := v.(*thread)
		// let the other goroutines in: the dependency "takes time"
		time.Sleep(time.Duration(th.rng.Intn(400)) * time.Microsecond)
		s.mu.Lock()
		defer s.mu.Unlock()
		th.gate, th.garg = name, arg
		out := s.outcome(th, th.rng)
		if apply != nil {
			apply(out)
		}
		s.c.W.Ev("dep", "g", th.id, "dep", name, "out", out, "a", arg["a"], "a2", arg["a2"], "ok2", arg["ok2"])
		return out
	}
	th := s.cur
	th.gate, th.garg, th.parked = name, arg, true
	s.back <- struct{}{}
	<-th.resume
	if apply != nil {
		apply(th.out)
	}
	return th.out
}

func gid() uint64 {
	b := make([]byte, 64)
	b = b[:runtime.Stack(b, false)]
	var id uint64
	fmt.Sscanf(string(b), "goroutine %d ", &id)
	return id
}

type fakeTags struct {
	tagclient.Client // every method the driver is not expected to use panics (nil interface)
	s                *sys
}

func (f *fakeTags) Get(tag string) (core.Digest, error) {
	var got core.Digest
	out := f.s.gateAt("tget", map[string]any{"a": f.s.tagID(tag), "a2": "-", "ok2": true}, func(out string) {
		got = f.s.dig[f.s.tags[f.s.tagID(tag)]]
	})
	switch out {
	case "ok":
		return got, nil
	case "nf":
		return core.Digest{}, tagclient.ErrTagNotFound
	}
	return core.Digest{}, errors.New("build-index: 500")
}

func (f *fakeTags) PutAndReplicate(tag string, d core.Digest) error {
	out := f.s.gateAt("tput", map[string]any{"a": f.s.tagID(tag), "a2": f.s.digestID(d), "ok2": true}, func(out string) {
		if out == "ok" {
			f.s.tags[f.s.tagID(tag)] = f.s.digestID(d)
		}
	})
	if out == "ok" {
		return nil
	}
	return errors.New("build-index: 503")
}

// Put is the non-replicating write of the tag client; neither transferer is expected to use it.
func (f *fakeTags) Put(tag string, d core.Digest) error {
	return f.PutAndReplicate(tag, d)
}

func (f *fakeTags) List(prefix string) ([]string, error) {
	want := "/" + repo + "/_manifests/tags"
	var l []string
	out := f.s.gateAt("tlist", map[string]any{"a": "-", "a2": "-", "ok2": prefix == want}, func(out string) {
		for _, id := range tagIDs {
			if f.s.tags[id] != "" {
				l = append(l, repo+":"+tagNames[id])
			}
		}
	})
	if out != "ok" {
		return nil, errors.New("build-index: 500")
	}
	return l, nil
}

type fakeOrigin struct {
	blobclient.ClusterClient
	s *sys
}

func (f *fakeOrigin) Stat(ns string, d core.Digest) (*core.BlobInfo, error) {
	id := f.s.digestID(d)
	out := f.s.gateAt("ost", map[string]any{"a": id, "a2": "-", "ok2": ns == repo}, nil)
	switch out {
	case "ok":
		return core.NewBlobInfo(int64(len(f.s.content[id]))), nil
	case "nf":
		return nil, blobclient.ErrBlobNotFound
	}
	return nil, errors.New("origin: 503")
}

func (f *fakeOrigin) DownloadBlob(ctx context.Context, ns string, d core.Digest, dst io.Writer) error {
	id := f.s.digestID(d)
	out := f.s.gateAt("odl", map[string]any{"a": id, "a2": "-", "ok2": ns == repo}, nil)
	c := f.s.content[id]
	switch out {
	case "ok":
		_, err := dst.Write(c)
		return err
	case "corrupt":
		_, err := dst.Write(append(append([]byte{}, c...), 0x7f))
		return err
	case "nf":
		return blobclient.ErrBlobNotFound
	}
	_, _ = dst.Write(c[:len(c)/2])
	return errors.New("origin: connection reset")
}

func (f *fakeOrigin) UploadBlob(ctx context.Context, ns string, d core.Digest, blob io.ReadSeeker, size uint64) error {
	id := f.s.digestID(d)
	b, err := io.ReadAll(blob)
	sum := sha256.Sum256(b)
	good := err == nil && hex.EncodeToString(sum[:]) == d.Hex() && size == uint64(len(b))
	out := f.s.gateAt("oup", map[string]any{"a": id, "a2": "-", "ok2": good}, func(out string) {
		if out == "ok" {
			f.s.origin[id] = true
		}
	})
	if out == "ok" {
		return nil
	}
	return errors.New("origin: 503")
}

type fakeSched struct {
	scheduler.Scheduler
	s *sys
}

func (f *fakeSched) Download(ns string, d core.Digest) error {
	id := f.s.digestID(d)
	out := f.s.gateAt("sdl", map[string]any{"a": id, "a2": "-", "ok2": ns == repo}, nil)
	c := f.s.content[id]
	cads := f.s.cads
	// the real scheduler runs one download per torrent: serialize the fake's store operations
	f.s.smu.Lock()
	defer f.s.smu.Unlock()
	switch out {
	case "ok", "partial":
		if _, err := cads.Cache().GetFileStat(d.Hex()); err == nil {
			if out == "partial" {
				return scheduler.ErrTorrentTimeout // somebody else completed the torrent meanwhile; this request still timed out
			}
			return nil
		}
		_ = cads.CreateDownloadFile(d.Hex(), int64(len(c)))
		w, err := cads.GetDownloadFileReadWriter(d.Hex())
		if err != nil {
			return err
		}
		if out == "partial" {
			_, _ = w.Write(c[:len(c)/2])
			w.Close()
			return scheduler.ErrTorrentTimeout
		}
		if _, err := w.Write(c); err != nil {
			return err
		}
		w.Close()
		return cads.MoveDownloadFileToCache(d.Hex())
	case "nf":
		return scheduler.ErrTorrentNotFound
	}
	return scheduler.ErrTorrentTimeout
}

func (s *sys) verify(r string, d core.Digest, blob store.FileReader) (dockerregistry.SignatureVerificationDecision, error) {
	id := s.digestID(d)
	b, err := io.ReadAll(blob)
	good := err == nil && r == repo && bytes.Equal(b, s.content[id])
	out := s.gateAt("ver", map[string]any{"a": id, "a2": "-", "ok2": good}, nil)
	switch out {
	case "allow":
		return dockerregistry.DecisionAllow, nil
	case "deny":
		return dockerregistry.DecisionDeny, nil
	case "err":
		return dockerregistry.DecisionSkip, errors.New("verifier down")
	}
	return dockerregistry.DecisionSkip, nil
}

// ---------------------------------------------------------------------------------------------------------
// executing one call on the real driver

func classify(err error, path string) string {
	if err == nil {
		return "ok"
	}
	var pnf driver.PathNotFoundError
	if errors.As(err, &pnf) {
		if pnf.Path == path && pnf.DriverName == dockerregistry.Name {
			return "notfound"
		}
		return "notfound_otherpath"
	}
	var ir dockerregistry.InvalidRequestError
	var irp *dockerregistry.InvalidRequestError
	if errors.As(err, &ir) || errors.As(err, &irp) {
		return "invalid"
	}
	var ip dockerregistry.InvalidRegistryPathError
	if errors.As(err, &ip) {
		return "badpath"
	}
	return "err"
}

func (s *sys) exec(c call) reply {
	ctx := context.Background()
	if !c.nr {
		ctx = context.WithValue(ctx, "vars.name", repo) //nolint:staticcheck // the production code expects a string key
	}
	p := s.path(c.k, c.u, c.d, c.t, c.oo)
	r := reply{vq: []int{}, vl: []string{}}
	s.hmu.Lock()
	h := s.handles[c.w]
	s.hmu.Unlock()
	switch c.op {
	case "GetContent":
		data, err := s.sd.GetContent(ctx, p)
		r.res = classify(err, p)
		if err != nil {
			break
		}
		switch c.k {
		case "layer", "tagcur", "tagidx", "rev":
			r.vs = "d?"
			for id, dg := range s.dig {
				if string(data) == dg.String() {
					r.vs = id
				}
			}
		case "startedat":
			if _, err := time.Parse(time.RFC3339, string(data)); err != nil {
				r.vs = "badtime"
			}
		case "hashstate":
			r.vn = -1
			if len(data) == 1 {
				r.vn = int(data[0])
			}
		default:
			r.vq = s.abs(data)
		}
	case "Reader":
		rc, err := s.sd.Reader(ctx, p, int64(c.o))
		r.res = classify(err, p)
		if err == nil {
			data, rerr := io.ReadAll(rc)
			rc.Close()
			if rerr != nil {
				r.res = "readerr"
			}
			r.vq = s.abs(data)
		}
	case "PutContent":
		var content []byte
		switch c.k {
		case "hashstate":
			content = []byte{byte(c.hv)}
		case "blob":
			content = s.real(c.b)
		}
		r.res = classify(s.sd.PutContent(ctx, p, content), p)
	case "Writer":
		w, err := s.sd.Writer(ctx, p, c.ap)
		r.res = classify(err, p)
		if err == nil {
			s.hmu.Lock()
			s.handles[c.w] = w
			s.hmu.Unlock()
		}
	case "Stat":
		fi, err := s.sd.Stat(ctx, p)
		r.res = classify(err, p)
		if err == nil {
			r.vn = int(fi.Size())
		}
	case "List":
		l, err := s.sd.List(ctx, p)
		r.res = classify(err, p)
		if err == nil {
			for _, e := range l {
				id := "x:" + e
				if c.k == "hashstate" || c.k == "hsdir" {
					pre := "localstore/_uploads/" + s.uuids[c.u] + "/hashstates/sha256/"
					for oid, on := range offNames {
						if e == pre+on {
							id = oid
						}
					}
				} else {
					for tid, tn := range tagNames {
						if e == tn {
							id = tid
						}
					}
				}
				r.vl = append(r.vl, id)
			}
			sort.Strings(r.vl)
		}
	case "Move":
		dst := s.path(c.k2, c.u, c.d, c.t, c.oo)
		r.res = classify(s.sd.Move(ctx, p, dst), p)
	case "Delete":
		r.res = classify(s.sd.Delete(ctx, p), p)
	case "URLFor":
		_, err := s.sd.URLFor(ctx, p, nil)
		r.res = classify(err, p)
	case "Walk":
		r.res = classify(s.sd.Walk(ctx, p, func(driver.FileInfo) error { return nil }), p)
	case "WWrite":
		n, err := h.Write(s.real(c.b))
		r.res, r.vn = classify(err, ""), n
	case "WSize":
		r.res, r.vn = "ok", int(h.Size())
	case "WCommit":
		r.res = classify(h.Commit(), "")
	case "WCancel":
		r.res = classify(h.Cancel(), "")
	case "WClose":
		r.res = classify(h.Close(), "")
	default:
		panic("unknown op " + c.op)
	}
	return r
}

// ---------------------------------------------------------------------------------------------------------
// stepping

// start begins call c on thread th and runs it up to its first gate or its return.
func (s *sys) start(th *thread, c call) {
	th.busy, th.cur, th.parked, th.paniced = true, c, false, ""
	s.cur = th
	go func() {
		defer func() {
			if r := recover(); r != nil {
				th.paniced = fmt.Sprint(r)
			}
			th.busy, th.parked = false, false
			s.back <- struct{}{}
		}()
		th.rep = s.exec(c)
	}()
	s.wait(th)
	s.emit(th, map[string]any{"ev": "call", "op": c.op, "k": dash(c.k), "k2": dash(c.k2), "u": dash(c.u), "d": dash(c.d), "tg": dash(c.t),
		"o": c.o, "oo": dash(c.oo), "b": ints(c.b), "hv": c.hv, "ap": c.ap, "w": dash(c.w), "nr": c.nr})
}

// release lets the dependency call th is parked at return with outcome out, and runs th up to its next gate / return.
func (s *sys) release(th *thread, out string) {
	dep, arg := th.gate, th.garg
	th.out, th.parked = out, false
	s.cur = th
	th.resume <- struct{}{}
	s.wait(th)
	s.emit(th, map[string]any{"ev": "dep", "dep": dep, "out": out, "a": arg["a"], "a2": arg["a2"], "ok2": arg["ok2"]})
}

func (s *sys) wait(th *thread) {
	select {
	case <-s.back:
	case <-time.After(20 * time.Second):
		s.c.W.Ev("Hang", "g", th.id)
		panic("thread did not reach a gate")
	}
}

func dash(x string) string {
	if x == "" {
		return "-"
	}
	return x
}

func ints(b []int) []int {
	if b == nil {
		return []int{}
	}
	return b
}

func (s *sys) emit(th *thread, m map[string]any) {
	m["g"] = th.id
	fin := !th.busy
	m["fin"] = fin
	m["gate"] = "-"
	if !fin {
		m["gate"] = th.gate
	}
	r := reply{res: "-", vq: []int{}, vl: []string{}}
	if fin {
		r = th.rep
		if th.paniced != "" {
			r = reply{res: "panic", vs: th.paniced, vq: []int{}, vl: []string{}}
		}
		s.track(th.cur, r)
	}
	m["res"], m["vs"], m["vq"], m["vn"], m["vl"] = r.res, r.vs, ints(r.vq), r.vn, r.vl
	s.obs(m)
	ev := m["ev"].(string)
	delete(m, "ev")
	kv := make([]any, 0, 2*len(m))
	for k, v := range m {
		kv = append(kv, k, v)
	}
	s.c.W.Ev(ev, kv...)
}

// track keeps the harness' own bookkeeping of handles (used only to respect the caller discipline the
// specification assumes: handle ids are fresh, writers are closed before Move).
func (s *sys) track(c call, r reply) {
	switch c.op {
	case "Writer":
		if r.res == "ok" {
			s.hOpen[c.w], s.hKnown[c.w] = c.u, true
		}
	case "WCommit", "WCancel", "WClose":
		delete(s.hOpen, c.w)
	}
}

// obs projects the stores: visible blobs, blobs whose bytes do not hash to their name, partial downloads, upload sizes.
func (s *sys) obs(m map[string]any) {
	cache, bad, dl := []string{}, []string{}, []string{}
	for _, id := range digestIDs {
		hx := s.dig[id].Hex()
		var r store.FileReader
		var err error
		if s.mode == "rw" {
			r, err = s.cas.GetCacheFileReader(hx)
		} else {
			r, err = s.cads.Cache().GetFileReader(hx)
			if _, derr := s.cads.Download().GetFileStat(hx); derr == nil {
				dl = append(dl, id)
			}
		}
		if err != nil {
			continue
		}
		cache = append(cache, id)
		b, rerr := io.ReadAll(r)
		r.Close()
		if rerr != nil || !bytes.Equal(b, s.content[id]) {
			bad = append(bad, id)
		}
	}
	ups := []int{}
	for _, u := range uploadIDs {
		sz := -1
		if s.mode == "rw" {
			if fi, err := s.cas.GetUploadFileStat(s.uuids[u]); err == nil {
				sz = int(fi.Size())
			}
		}
		ups = append(ups, sz)
	}
	m["cache"], m["bad"], m["dlst"], m["ups"] = cache, bad, dl, ups
}

// ---------------------------------------------------------------------------------------------------------
// outcomes: honest with respect to what the origin / network / build-index hold, plus faults

func (s *sys) outcome(th *thread, rng *rand.Rand) string {
	id, _ := th.garg["a"].(string)
	fault := rng.Intn(100) < 18
	switch th.gate {
	case "tget":
		if fault {
			return "err"
		}
		if s.tags[id] != "" {
			return "ok"
		}
		return "nf"
	case "tput", "tlist":
		if fault {
			return "err"
		}
		return "ok"
	case "ost":
		if fault {
			return "err"
		}
		if s.origin[id] {
			return "ok"
		}
		return "nf"
	case "odl":
		if fault {
			return []string{"err", "corrupt"}[rng.Intn(2)]
		}
		if s.origin[id] {
			return "ok"
		}
		return "nf"
	case "oup":
		// a failing upload leaves the committed blob visible (finding X01-2): injected only in the dedicated family
		if s.fam == "upfail" && rng.Intn(100) < 60 {
			return "err"
		}
		return "ok"
	case "sdl":
		if fault {
			if rng.Intn(2) == 0 {
				if _, err := s.cads.Cache().GetFileStat(s.dig[id].Hex()); err != nil {
					return "partial"
				}
			}
			return "err"
		}
		if s.origin[id] {
			return "ok"
		}
		// the agent answers "torrent not found" with a 500 (finding X01-1): honest "not found" only in the dedicated
		// family, elsewhere the network times out on unknown blobs
		if s.fam == "ronf" {
			return "nf"
		}
		return "err"
	case "ver":
		return []string{"skip", "allow", "deny", "err"}[rng.Intn(4)]
	}
	panic("unknown gate " + th.gate)
}

// ---------------------------------------------------------------------------------------------------------
// call generation

func pick[X any](rng *rand.Rand, xs []X) X { return xs[rng.Intn(len(xs))] }

var chunks = [][]int{{1}, {2}, {3}, {1, 2}, {2, 3}, {1, 2, 3}, {}}

func (s *sys) freeHandle() string {
	for _, w := range handleIDs {
		if _, open := s.hOpen[w]; !open {
			return w
		}
	}
	return ""
}

func (s *sys) knownHandle() string {
	var l []string
	for _, w := range handleIDs {
		if s.hKnown[w] {
			l = append(l, w)
		}
	}
	if len(l) == 0 {
		return ""
	}
	// prefer open handles
	var open []string
	for _, w := range l {
		if _, ok := s.hOpen[w]; ok {
			open = append(open, w)
		}
	}
	if len(open) > 0 && s.rng.Intn(4) > 0 {
		return pick(s.rng, open)
	}
	return pick(s.rng, l)
}

// flows are the call sequences docker's registry issues; steps are revalidated when they are issued.
func (s *sys) flow() []call {
	rng := s.rng
	d, u, t := pick(rng, digestIDs), pick(rng, uploadIDs), pick(rng, tagIDs)
	switch rng.Intn(4) {
	case 0, 1: // push a layer through an upload, resumable
		var f []call
		f = append(f, call{op: "PutContent", k: "startedat", u: u}, call{op: "Writer", k: "updata", u: u, w: "?"})
		c := abstract[d]
		cut := 0
		if len(c) > 1 {
			cut = 1 + rng.Intn(len(c)-1)
		}
		f = append(f, call{op: "WWrite", w: "?", b: c[:cut]})
		if rng.Intn(2) == 0 {
			oo := pick(rng, offIDs)
			f = append(f, call{op: "PutContent", k: "hashstate", u: u, oo: oo, hv: 1 + rng.Intn(2)},
				call{op: "WCommit", w: "?"}, call{op: "List", k: "hsdir", u: u},
				call{op: "GetContent", k: "hashstate", u: u, oo: oo}, call{op: "Stat", k: "updata", u: u},
				call{op: "Writer", k: "updata", u: u, ap: true, w: "?"})
		}
		f = append(f, call{op: "WWrite", w: "?", b: c[cut:]}, call{op: pick(rng, []string{"WCommit", "WClose"}), w: "?"})
		if rng.Intn(3) == 0 {
			f = append(f, call{op: "Reader", k: "updata", u: u, o: rng.Intn(3)})
		}
		f = append(f, call{op: "Stat", k: "blob", d: d}, call{op: "Move", k: "updata", k2: "blob", u: u, d: d},
			call{op: "Stat", k: "blob", d: d}, call{op: "PutContent", k: "layer", d: d})
		return f
	case 2: // put a manifest and tag it
		return []call{{op: "PutContent", k: "blob", d: d, b: abstract[d]}, {op: "PutContent", k: "rev", d: d},
			{op: "PutContent", k: "tagidx", t: t, d: d}, {op: "PutContent", k: "tagcur", t: t},
			{op: "GetContent", k: "tagcur", t: t}, {op: "List", k: "tagsdir"}}
	}
	// pull
	return []call{{op: "Stat", k: "tagcur", t: t}, {op: "GetContent", k: "tagcur", t: t}, {op: "GetContent", k: "rev", d: d},
		{op: "Stat", k: "blob", d: d}, {op: "Reader", k: "blob", d: d, o: rng.Intn(3)}, {op: "GetContent", k: "layer", d: d},
		{op: "GetContent", k: "blob", d: d}}
}

var (
	allKinds = []string{"startedat", "hashstate", "hsdir", "updata", "layer", "blob", "tagcur", "tagidx", "rev", "tagsdir", "bad"}
	pathOps  = []string{"GetContent", "Reader", "PutContent", "Writer", "Stat", "List", "Move", "Delete"}
)

func (s *sys) randomCall() call { return s.randomCallWith(s.rng) }

func (s *sys) randomCallWith(rng *rand.Rand) call {
	c := call{op: pick(rng, pathOps), k: pick(rng, allKinds), u: pick(rng, uploadIDs), d: pick(rng, digestIDs), t: pick(rng, tagIDs),
		oo: pick(rng, offIDs), hv: 1 + rng.Intn(2), ap: rng.Intn(2) == 0, w: "?"}
	switch rng.Intn(12) {
	case 0:
		c.op = pick(rng, []string{"URLFor", "Walk"})
	case 1, 2, 3:
		c.op = pick(rng, []string{"WWrite", "WSize", "WCommit", "WCancel", "WClose"})
		c.k = "-"
	}
	switch c.op {
	case "Reader":
		c.o = rng.Intn(5) - 1
		if rng.Intn(2) == 0 {
			c.k = pick(rng, []string{"updata", "blob"})
		}
	case "Move":
		c.k2 = pick(rng, []string{"blob", "blob", "blob", "layer", "updata", "bad"})
		if rng.Intn(3) > 0 {
			c.k = "updata"
		}
	case "PutContent":
		if c.k == "blob" {
			c.b = abstract[c.d]
			if rng.Intn(3) == 0 {
				c.b = pick(rng, chunks)
			}
		}
	case "WWrite":
		c.b = pick(rng, chunks)
	case "Stat", "GetContent":
		c.nr = c.k == "blob" && rng.Intn(6) == 0
	}
	return c
}

// fix resolves handle placeholders and enforces the caller discipline; ok=false drops the call.
func (s *sys) fix(c call) (call, bool) {
	switch c.op {
	case "Writer":
		c.w = s.freeHandle()
		if c.w == "" {
			return c, false
		}
	case "WWrite", "WSize", "WCommit", "WCancel", "WClose":
		if c.w == "?" || c.w == "" {
			c.w = s.knownHandle()
		}
		if c.w == "" || !s.hKnown[c.w] {
			return c, false
		}
		if c.op == "WWrite" {
			if u, open := s.hOpen[c.w]; open && s.mode == "rw" {
				if fi, err := s.cas.GetUploadFileStat(s.uuids[u]); err == nil && fi.Size()+int64(len(c.b)) > 7 {
					return c, false
				}
			}
		}
	case "Move":
		if KindIsUpload(c.k) {
			for _, u := range s.hOpen {
				if u == c.u {
					return c, false
				}
			}
		}
	}
	if c.w == "?" {
		c.w = "-"
	}
	return c, true
}

// KindIsUpload reports whether the path kind lives under _uploads.
func KindIsUpload(k string) bool {
	return k == "startedat" || k == "hashstate" || k == "hsdir" || k == "updata"
}

// flowHandle binds the "?" handle of a flow step: the handle the flow's last Writer got.
func (s *sys) next(th *thread) (call, bool) {
	if len(th.plan) == 0 {
		if s.rng.Intn(100) < 55 {
			th.plan = s.flow()
		} else {
			th.plan = []call{s.randomCall()}
		}
	}
	c := th.plan[0]
	th.plan = th.plan[1:]
	if c.w == "?" && c.op != "Writer" {
		// the most recently opened handle on the flow's upload, if any
		c.w = ""
		for _, w := range handleIDs {
			if _, open := s.hOpen[w]; open {
				c.w = w
			}
		}
		if c.w == "" {
			c.w = "?"
		}
	}
	return s.fix(c)
}

// ---------------------------------------------------------------------------------------------------------

func (s *sys) setup(t int) func() {
	rng := s.rng
	p := rng.Perm(200)
	s.perm = [4]byte{0, byte(p[0] + 1), byte(p[1] + 1), byte(p[2] + 1)}
	s.content, s.dig, s.digID = map[string][]byte{}, map[string]core.Digest{}, map[string]string{}
	for _, id := range digestIDs {
		b := s.real(abstract[id])
		sum := sha256.Sum256(b)
		dg, err := core.NewSHA256DigestFromHex(hex.EncodeToString(sum[:]))
		if err != nil {
			panic(err)
		}
		s.content[id], s.dig[id], s.digID[dg.Hex()] = b, dg, id
	}
	s.uuids = map[string]string{}
	for _, u := range uploadIDs {
		s.uuids[u] = uuid.Generate().String()
	}
	s.origin, s.tags = map[string]bool{}, map[string]string{}
	s.handles, s.hOpen, s.hKnown = map[string]driver.FileWriter{}, map[string]string{}, map[string]bool{}
	var origin0, tagk, tagv []string
	for _, id := range digestIDs {
		if rng.Intn(2) == 0 {
			s.origin[id] = true
			origin0 = append(origin0, id)
		}
	}
	// the dedicated families need a blob that nobody has yet
	s.scD = pick(rng, digestIDs)
	if (s.fam == "upfail" || s.fam == "ronf") && s.origin[s.scD] {
		delete(s.origin, s.scD)
		var o []string
		for _, id := range origin0 {
			if id != s.scD {
				o = append(o, id)
			}
		}
		origin0 = o
	}
	for _, id := range tagIDs {
		if rng.Intn(2) == 0 {
			s.tags[id] = pick(rng, digestIDs)
			tagk, tagv = append(tagk, id), append(tagv, s.tags[id])
		}
	}
	var cleanup func()
	ft := &fakeTags{s: s}
	if s.mode == "rw" {
		s.cas, cleanup = store.CAStoreFixture()
		tr := transfer.NewReadWriteTransferer(tally.NoopScope, ft, &fakeOrigin{s: s}, s.cas)
		s.sd = dockerregistry.NewReadWriteStorageDriver(dockerregistry.Config{}, s.cas, tr, s.verify)
	} else {
		s.cads, cleanup = store.CADownloadStoreFixture()
		tr := transfer.NewReadOnlyTransferer(tally.NoopScope, s.cads, ft, &fakeSched{s: s})
		s.sd = dockerregistry.NewReadOnlyStorageDriver(dockerregistry.Config{}, s.cads, tr, s.verify)
	}
	strs := func(l []string) []string {
		if l == nil {
			return []string{}
		}
		return l
	}
	cfg := map[string]any{"mode": s.mode, "family": s.fam, "origin": strs(origin0), "tagk": strs(tagk), "tagv": strs(tagv)}
	if s.conc {
		cfg["tracespec"] = "conc"
	}
	s.c.W.Reset(t, cfg)
	return cleanup
}

func (s *sys) evict() bool {
	var vis []string
	for _, id := range digestIDs {
		hx := s.dig[id].Hex()
		var err error
		if s.mode == "rw" {
			_, err = s.cas.GetCacheFileStat(hx)
		} else {
			_, err = s.cads.Cache().GetFileStat(hx)
		}
		if err == nil {
			vis = append(vis, id)
		}
	}
	if len(vis) == 0 {
		return false
	}
	id := pick(s.rng, vis)
	if s.mode == "rw" {
		_ = s.cas.DeleteCacheFile(s.dig[id].Hex())
	} else {
		_ = s.cads.Cache().DeleteFile(s.dig[id].Hex())
	}
	m := map[string]any{"ev": "env", "what": "evict", "d": id}
	s.obs(m)
	delete(m, "ev")
	kv := make([]any, 0, 2*len(m))
	for k, v := range m {
		kv = append(kv, k, v)
	}
	s.c.W.Ev("env", kv...)
	return true
}

func (s *sys) runTrace(t int, steps int) {
	cleanup := s.setup(t)
	defer cleanup()
	if s.fam == "upfail" || s.fam == "ronf" {
		s.scenario()
	}
	for i := 0; i < steps; i++ {
		var idle, parked []*thread
		for _, th := range s.threads {
			if !th.busy {
				idle = append(idle, th)
			} else if th.parked {
				parked = append(parked, th)
			}
		}
		k := s.rng.Intn(100)
		switch {
		case k < 4:
			s.evict()
		case len(parked) > 0 && (len(idle) == 0 || k < 50):
			th := pick(s.rng, parked)
			s.release(th, s.outcome(th, s.rng))
		case len(idle) > 0:
			th := pick(s.rng, idle)
			if c, ok := s.next(th); ok {
				s.start(th, c)
			}
		}
	}
	// drain: every dependency call returns, so every driver call returns
	for {
		var parked []*thread
		for _, th := range s.threads {
			if th.busy && th.parked {
				parked = append(parked, th)
			}
		}
		if len(parked) == 0 {
			break
		}
		th := pick(s.rng, parked)
		s.release(th, s.outcome(th, s.rng))
	}
	for _, w := range s.handles {
		_ = w.Close()
	}
}

// scenario: the short deterministic prefixes of the two dedicated families (known findings X01-1 / X01-2).
func (s *sys) scenario() {
	th := s.threads[0]
	runAll := func(cs ...call) {
		for _, c := range cs {
			c, ok := s.fix(c)
			if !ok {
				continue
			}
			s.start(th, c)
			for th.busy {
				s.release(th, s.outcome(th, s.rng))
			}
		}
	}
	d := s.scD
	if s.fam == "upfail" {
		u := pick(s.rng, uploadIDs)
		if s.rng.Intn(2) == 0 {
			runAll(call{op: "PutContent", k: "startedat", u: u}, call{op: "Writer", k: "updata", u: u, w: "?"})
			runAll(call{op: "WWrite", w: "w1", b: abstract[d]}, call{op: "WCommit", w: "w1"},
				call{op: "Move", k: "updata", k2: "blob", u: u, d: d}, call{op: "Stat", k: "blob", d: d})
		} else {
			runAll(call{op: "PutContent", k: "blob", d: d, b: abstract[d]}, call{op: "Stat", k: "blob", d: d})
		}
		return
	}
	runAll(call{op: pick(s.rng, []string{"Stat", "GetContent"}), k: "blob", d: d}, call{op: "GetContent", k: "rev", d: d})
}

// ---------------------------------------------------------------------------------------------------------
// conc family: the caller goroutines really run concurrently (nothing parks).  Every call is logged when it is
// issued ("call") and when it returned ("ret"), every dependency call when it answered ("dep"); the trace
// specification RegistryDriverConc places each segment somewhere between its two surrounding records
// (linearizability at segment grain).  Each goroutine owns one upload and one writer handle (the driver does
// not promise anything for two callers racing on the same upload); digests, tags and the cache are shared.

func (s *sys) concNext(th *thread) (call, bool) {
	rng := th.rng
	if len(th.plan) == 0 {
		d, t := s.scD, pick(rng, tagIDs)
		if rng.Intn(4) == 0 {
			d = pick(rng, digestIDs)
		}
		switch k := rng.Intn(10); {
		case k < 4 && th.u != "" && s.mode == "rw":
			c := abstract[d]
			cut := 0
			if len(c) > 1 {
				cut = 1 + rng.Intn(len(c)-1)
			}
			th.plan = []call{{op: "PutContent", k: "startedat", u: th.u}, {op: "Writer", k: "updata", u: th.u, w: th.w},
				{op: "WWrite", w: th.w, b: c[:cut]}}
			if rng.Intn(2) == 0 {
				th.plan = append(th.plan, call{op: "PutContent", k: "hashstate", u: th.u, oo: pick(rng, offIDs), hv: 1 + rng.Intn(2)},
					call{op: "WCommit", w: th.w}, call{op: "List", k: "hsdir", u: th.u}, call{op: "Writer", k: "updata", u: th.u, ap: true, w: th.w})
			}
			th.plan = append(th.plan, call{op: "WWrite", w: th.w, b: c[cut:]}, call{op: "WSize", w: th.w}, call{op: "WCommit", w: th.w},
				call{op: "Reader", k: "updata", u: th.u, o: rng.Intn(2)}, call{op: "Stat", k: "blob", d: d},
				call{op: "Move", k: "updata", k2: "blob", u: th.u, d: d}, call{op: "Stat", k: "blob", d: d})
		case k < 6:
			th.plan = []call{{op: "PutContent", k: "blob", d: d, b: abstract[d]}, {op: "PutContent", k: "tagidx", t: t, d: d},
				{op: "GetContent", k: "tagcur", t: t}, {op: "List", k: "tagsdir"}}
		case k < 9:
			th.plan = []call{{op: "Stat", k: "blob", d: d}, {op: "GetContent", k: "blob", d: d}, {op: "GetContent", k: "rev", d: d},
				{op: "Reader", k: "blob", d: d, o: rng.Intn(3)}, {op: "Stat", k: "tagcur", t: t}, {op: "GetContent", k: "tagcur", t: t}}
		default:
			c := s.randomCallWith(rng)
			if KindIsUpload(c.k) {
				c.u = th.u
				if c.u == "" {
					return c, false
				}
			}
			if c.w == "?" || c.op == "Writer" {
				c.w = th.w
			}
			th.plan = []call{c}
		}
	}
	c := th.plan[0]
	th.plan = th.plan[1:]
	switch c.op {
	case "Writer":
		if c.w == "" || th.wOpen {
			return c, false
		}
	case "WWrite", "WSize", "WCommit", "WCancel", "WClose":
		if c.w == "" || !th.wKnown {
			return c, false
		}
	case "Move":
		if KindIsUpload(c.k) && th.wOpen {
			return c, false
		}
	}
	if c.w == "?" {
		c.w = "-"
	}
	return c, true
}

func (s *sys) runConc(t int) {
	cleanup := s.setup(t)
	defer cleanup()
	var wg sync.WaitGroup
	for i, th := range s.threads {
		th.rng = rand.New(rand.NewSource(s.rng.Int63()))
		th.w = handleIDs[i]
		if i < len(uploadIDs) {
			th.u = uploadIDs[i]
		}
	}
	for _, th := range s.threads {
		wg.Add(1)
		go func(th *thread) {
			defer wg.Done()
			s.gids.Store(gid(), th)
			n := 10 + th.rng.Intn(8)
			for i := 0; i < n; i++ {
				c, ok := s.concNext(th)
				if !ok {
					continue
				}
				if th.rng.Intn(3) == 0 {
					time.Sleep(time.Duration(th.rng.Intn(300)) * time.Microsecond)
				} else {
					runtime.Gosched()
				}
				s.c.W.Ev("call", "g", th.id, "op", c.op, "k", dash(c.k), "k2", dash(c.k2), "u", dash(c.u), "d", dash(c.d), "tg", dash(c.t),
					"o", c.o, "oo", dash(c.oo), "b", ints(c.b), "hv", c.hv, "ap", c.ap, "w", dash(c.w), "nr", c.nr)
				var r reply
				func() {
					defer func() {
						if p := recover(); p != nil {
							r = reply{res: "panic", vs: fmt.Sprint(p), vq: []int{}, vl: []string{}}
						}
					}()
					r = s.exec(c)
				}()
				switch c.op {
				case "Writer":
					if r.res == "ok" {
						th.wOpen, th.wKnown = true, true
					}
				case "WCommit", "WCancel", "WClose":
					th.wOpen = false
				}
				s.c.W.Ev("ret", "g", th.id, "res", r.res, "vs", r.vs, "vq", ints(r.vq), "vn", r.vn, "vl", r.vl)
			}
		}(th)
	}
	wg.Wait()
	m := map[string]any{}
	s.obs(m)
	kv := make([]any, 0, 2*len(m))
	for k, v := range m {
		kv = append(kv, k, v)
	}
	s.c.W.Ev("obs", kv...)
	for _, w := range s.handles {
		_ = w.Close()
	}
}

func run(c *eng.Ctx) error {
	n := c.N(96, 700)
	ded := c.N(48, 150) // one dedicated trace of each finding family per this many traces
	c.Traces(n, func(t int, rng *rand.Rand) {
		s := &sys{c: c, rng: rng, back: make(chan struct{}, 8)}
		s.mode = "rw"
		if t%3 == 2 {
			s.mode = "ro"
		}
		s.fam = "bulk"
		// dedicated families for the two recorded findings: few, short, flagged in the reset record
		switch {
		case t%ded == 7:
			s.mode, s.fam = "rw", "upfail"
		case t%ded == 11:
			s.mode, s.fam = "ro", "ronf"
		case t%4 == 1:
			s.fam, s.conc = "conc", true
		}
		nth := 2
		if t%5 == 0 {
			nth = 3
		}
		for i := 0; i < nth; i++ {
			s.threads = append(s.threads, &thread{id: fmt.Sprintf("g%d", i+1), resume: make(chan struct{})})
		}
		if s.conc {
			if len(s.threads) < 3 && rng.Intn(2) == 0 {
				s.threads = append(s.threads, &thread{id: "g3", resume: make(chan struct{})})
			}
			s.runConc(t)
			return
		}
		steps := 30 + rng.Intn(50)
		if s.fam != "bulk" {
			steps = 6 + rng.Intn(10)
		}
		s.runTrace(t, steps)
	})
	return nil
}
