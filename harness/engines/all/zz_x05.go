//go:build kvh_all || kvh_x05

package all

import _ "kvh/engines/x05"
