//go:build kvh_all || kvh_c09

package all

import _ "kvh/engines/c09"
