//go:build kvh_all || kvh_x03

package all

import _ "kvh/engines/x03"
