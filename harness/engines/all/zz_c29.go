//go:build kvh_all || kvh_c29

package all

import _ "kvh/engines/c29"
