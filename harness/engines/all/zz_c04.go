//go:build kvh_all || kvh_c04

package all

import _ "kvh/engines/c04"
