//go:build kvh_all || kvh_x02

package all

import _ "kvh/engines/x02"
