//go:build kvh_all || kvh_c35

package all

import _ "kvh/engines/c35"
