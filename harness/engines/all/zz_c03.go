package all

import _ "kvh/engines/c03"
