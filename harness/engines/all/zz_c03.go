//go:build kvh_all || kvh_c03

package all

import _ "kvh/engines/c03"
