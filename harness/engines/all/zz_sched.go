package all

import _ "kvh/engines/sched"
