//go:build kvh_all || kvh_c17 || kvh_c18

package all

import _ "kvh/engines/sched"
