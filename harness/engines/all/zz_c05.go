//go:build kvh_all || kvh_c05

package all

import _ "kvh/engines/c05"
