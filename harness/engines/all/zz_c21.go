//go:build kvh_all || kvh_c21

package all

import _ "kvh/engines/c21"
