// Package all links every engine into kvh.
package all

import (
	_ "kvh/engines/blobstore"
	_ "kvh/engines/c20"
)
