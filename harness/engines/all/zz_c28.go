//go:build kvh_all || kvh_c28

package all

import _ "kvh/engines/c28"
