//go:build kvh_all || kvh_c22

package all

import _ "kvh/engines/c22"
