//go:build kvh_all || kvh_c26

package all

import _ "kvh/engines/c26"
