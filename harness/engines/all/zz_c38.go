//go:build kvh_all || kvh_c38

package all

import _ "kvh/engines/c38"
