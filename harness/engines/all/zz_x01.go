//go:build kvh_all || kvh_x01

package all

import _ "kvh/engines/x01"
