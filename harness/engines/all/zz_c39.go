//go:build kvh_all || kvh_c39

package all

import _ "kvh/engines/c39"
