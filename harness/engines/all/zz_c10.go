//go:build kvh_all || kvh_c10

package all

import _ "kvh/engines/c10"
