//go:build kvh_all || kvh_c14

package all

import _ "kvh/engines/c14"
