//go:build kvh_all || kvh_x04

package all

import _ "kvh/engines/x04"
