//go:build kvh_all || kvh_c12

package all

import _ "kvh/engines/c12"
