//go:build kvh_all || kvh_c11

package all

import _ "kvh/engines/c11"
