//go:build kvh_all || kvh_c13

package all

import _ "kvh/engines/c13"
