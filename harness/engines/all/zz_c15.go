//go:build kvh_all || kvh_c15

package all

import _ "kvh/engines/c15"
