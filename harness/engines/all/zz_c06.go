//go:build kvh_all || kvh_c06

package all

import _ "kvh/engines/c06"
