//go:build kvh_all || kvh_c16

package all

import _ "kvh/engines/c16"
