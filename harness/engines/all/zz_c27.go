//go:build kvh_all || kvh_c27

package all

import _ "kvh/engines/c27"
