//go:build kvh_all || kvh_c20

package all

import _ "kvh/engines/c20"
