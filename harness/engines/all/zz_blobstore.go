package all

import _ "kvh/engines/blobstore"
