//go:build kvh_all || kvh_c07 || kvh_c08

package all

import _ "kvh/engines/blobstore"
