// Package all links every engine into kvh: one file zz_<engine>.go per engine package, each a single blank import.
package all
