//go:build kvh_all || kvh_c36

package all

import _ "kvh/engines/c36"
