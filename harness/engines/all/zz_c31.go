//go:build kvh_all || kvh_c31

package all

import _ "kvh/engines/c31"
