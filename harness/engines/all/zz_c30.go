//go:build kvh_all || kvh_c30

package all

import _ "kvh/engines/c30"
