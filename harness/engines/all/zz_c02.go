//go:build kvh_all || kvh_c02

package all

import _ "kvh/engines/c02"
