//go:build kvh_all || kvh_c33

package all

import _ "kvh/engines/c33"
