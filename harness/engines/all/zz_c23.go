//go:build kvh_all || kvh_c23

package all

import _ "kvh/engines/c23"
