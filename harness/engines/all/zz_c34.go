//go:build kvh_all || kvh_c34

package all

import _ "kvh/engines/c34"
