//go:build kvh_all || kvh_c25

package all

import _ "kvh/engines/c25"
