package all

import _ "kvh/engines/c01"
