//go:build kvh_all || kvh_c01

package all

import _ "kvh/engines/c01"
