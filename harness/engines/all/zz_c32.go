//go:build kvh_all || kvh_c32

package all

import _ "kvh/engines/c32"
