package all

import _ "kvh/engines/c19"
