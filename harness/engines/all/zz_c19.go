//go:build kvh_all || kvh_c19

package all

import _ "kvh/engines/c19"
