//go:build kvh_all || kvh_c24

package all

import _ "kvh/engines/c24"
