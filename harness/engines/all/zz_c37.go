//go:build kvh_all || kvh_c37

package all

import _ "kvh/engines/c37"
