// Package c15 records histories of the real piecerequest.Manager (property C15) for validation
// against spec/p2p/PieceRequests.tla.
package c15

import (
	"fmt"
	"math/rand"
	"sort"
	"sync"
	"time"

	"github.com/andres-erbsen/clock"
	"github.com/willf/bitset"

	"github.com/uber/kraken/core"
	"github.com/uber/kraken/lib/torrent/scheduler/dispatch/piecerequest"
	"github.com/uber/kraken/utils/syncutil"

	"kvh/internal/eng"
)

func init() { eng.Register("c15", run) }

const (
	np     = 4 // pieces 0..3
	npeers = 3 // peers p1..p3
)

type drv struct {
	c       *eng.Ctx
	m       *piecerequest.Manager
	clk     *clock.Mock
	peers   []core.PeerID
	names   map[core.PeerID]string
	origin  []bool
	timeout int
	// generator bookkeeping (inputs only, never an oracle): how many requests the manager was
	// asked to book for (peer, piece) since the last Clear(piece)/ClearPeer(peer), and which
	// peers were removed and not asked again since.
	booked  [npeers][np]int
	removed [npeers]bool
}

func statusName(s piecerequest.Status) string {
	switch s {
	case piecerequest.StatusPending:
		return "pending"
	case piecerequest.StatusExpired:
		return "expired"
	case piecerequest.StatusUnsent:
		return "unsent"
	case piecerequest.StatusInvalid:
		return "invalid"
	}
	return "unknown"
}

func (d *drv) name(id core.PeerID) string {
	if n, ok := d.names[id]; ok {
		return n
	}
	return "unknown"
}

// ev logs one call plus the observations taken after it.
func (d *drv) ev(ev string, kv ...any) {
	pend := map[string]any{}
	ghost := false
	for k, id := range d.peers {
		pp := d.m.PendingPieces(id)
		if pp == nil {
			pp = []int{}
		}
		pend[d.names[id]] = pp
		if d.removed[k] && len(pp) > 0 {
			ghost = true
		}
	}
	fr := d.m.GetFailedRequests()
	sort.Slice(fr, func(a, b int) bool {
		if fr[a].Piece != fr[b].Piece {
			return fr[a].Piece < fr[b].Piece
		}
		if na, nb := d.name(fr[a].PeerID), d.name(fr[b].PeerID); na != nb {
			return na < nb
		}
		return fr[a].Status < fr[b].Status
	})
	failed := make([]any, 0, len(fr))
	for _, r := range fr {
		failed = append(failed, map[string]any{"i": r.Piece, "p": d.name(r.PeerID), "s": statusName(r.Status)})
		for k, id := range d.peers {
			if id == r.PeerID && d.removed[k] {
				ghost = true
			}
		}
	}
	kv = append(kv, "pend", pend, "failed", failed, "ghost", ghost)
	d.c.W.Ev(ev, kv...)
}

func (d *drv) reserve(p int, cands []int, cnt []int, eg bool) []int {
	b := bitset.New(np)
	for _, i := range cands {
		b.Set(uint(i))
	}
	counters := syncutil.NewCounters(np)
	for i, v := range cnt {
		counters.Set(i, v)
	}
	res, err := d.m.ReservePieces(d.peers[p], d.origin[p], b, counters, eg)
	if err != nil {
		panic(fmt.Sprintf("ReservePieces: %v", err))
	}
	if res == nil {
		res = []int{}
	}
	for _, i := range res {
		if i >= 0 && i < np {
			d.booked[p][i]++
		}
	}
	if len(res) > 0 {
		d.removed[p] = false
	}
	if cands == nil {
		cands = []int{}
	}
	d.ev("Reserve", "p", d.names[d.peers[p]], "origin", d.origin[p], "cands", cands, "cnt", cnt, "eg", eg, "res", res)
	return res
}

func (d *drv) markUnsent(p, i int) {
	d.m.MarkUnsent(d.peers[p], i)
	d.ev("MarkUnsent", "p", d.names[d.peers[p]], "i", i)
}

func (d *drv) markInvalid(p, i int) {
	d.m.MarkInvalid(d.peers[p], i)
	d.ev("MarkInvalid", "p", d.names[d.peers[p]], "i", i)
}

func (d *drv) clear(i int) {
	d.m.Clear(i)
	for p := range d.booked {
		d.booked[p][i] = 0
	}
	d.ev("Clear", "i", i)
}

func (d *drv) dupPiece(p int) int {
	for i, n := range d.booked[p] {
		if n >= 2 {
			return i
		}
	}
	return -1
}

func (d *drv) clearPeer(p int) {
	dup := d.dupPiece(p) >= 0
	d.m.ClearPeer(d.peers[p])
	d.booked[p] = [np]int{}
	d.removed[p] = true
	d.ev("ClearPeer", "p", d.names[d.peers[p]], "dup", dup)
}

func (d *drv) tick(n int) {
	d.clk.Add(time.Duration(n) * time.Second)
	d.ev("Tick", "d", n)
}

func randCands(rng *rand.Rand) []int {
	var cands []int
	switch k := rng.Intn(10); {
	case k < 2: // all
		for i := 0; i < np; i++ {
			cands = append(cands, i)
		}
	case k < 4: // one
		cands = append(cands, rng.Intn(np))
	default:
		for i := 0; i < np; i++ {
			if rng.Intn(2) == 0 {
				cands = append(cands, i)
			}
		}
	}
	return cands
}

func randCnt(rng *rand.Rand) []int {
	cnt := make([]int, np)
	for i := range cnt {
		cnt[i] = rng.Intn(4)
	}
	return cnt
}

// step issues one random call. It keeps away from the input class of known finding F15 (ClearPeer
// of a peer holding two requests for one piece): such a ClearPeer is replaced by Clear of that piece.
func (d *drv) step(rng *rand.Rand) {
	p := rng.Intn(npeers)
	i := rng.Intn(np)
	if rng.Intn(10) < 7 { // prefer a (peer, piece) that has something booked
		var have [][2]int
		for pp := range d.booked {
			for ii, n := range d.booked[pp] {
				if n > 0 {
					have = append(have, [2]int{pp, ii})
				}
			}
		}
		if len(have) > 0 {
			x := have[rng.Intn(len(have))]
			p, i = x[0], x[1]
		}
	}
	switch k := rng.Intn(20); {
	case k < 8:
		d.reserve(rng.Intn(npeers), randCands(rng), randCnt(rng), rng.Intn(10) < 3)
	case k < 10:
		d.markUnsent(p, i)
	case k < 12:
		d.markInvalid(p, i)
	case k < 14:
		d.clear(i)
	case k < 16:
		q := rng.Intn(npeers)
		if j := d.dupPiece(q); j >= 0 {
			d.clear(j)
		} else {
			d.clearPeer(q)
		}
	default:
		d.tick(1 + rng.Intn(d.timeout+1))
	}
}

// f15 is the dedicated scenario for known finding F15: a piece is re-reserved for the same peer
// after its first request failed, then the peer is removed.
func (d *drv) f15(rng *rand.Rand) {
	p := rng.Intn(npeers)
	i := rng.Intn(np)
	q := (p + 1 + rng.Intn(npeers-1)) % npeers
	var others []int
	for j := 0; j < np; j++ {
		if j != i {
			others = append(others, j)
		}
	}
	if rng.Intn(2) == 0 {
		d.reserve(q, others, randCnt(rng), false)
	}
	if rng.Intn(2) == 0 {
		d.tick(1)
	}
	d.reserve(p, []int{i}, randCnt(rng), false)
	switch rng.Intn(3) {
	case 0:
		d.tick(d.timeout + 1)
	case 1:
		d.markUnsent(p, i)
	default:
		d.markInvalid(p, i)
	}
	d.reserve(p, []int{i}, randCnt(rng), rng.Intn(2) == 0)
	if rng.Intn(2) == 0 {
		d.reserve(q, []int{i}, randCnt(rng), true)
	}
	d.clearPeer(p)
	d.tick(d.timeout + 1)
	for s := 0; s < 6; s++ {
		d.step(rng)
	}
}

func run(c *eng.Ctx) error {
	n := c.N(150, 1200)
	nf15 := c.N(2, 4)
	peers := make([]core.PeerID, npeers)
	names := map[core.PeerID]string{}
	for i := range peers {
		peers[i] = core.PeerIDFixture()
		names[peers[i]] = fmt.Sprintf("p%d", i+1)
	}
	nstorm := c.N(2, 6)
	c.Traces(n+nstorm, func(t int, rng *rand.Rand) {
		if t >= n {
			storm(c, t, rng, peers[0])
			return
		}
		scn := "rand"
		if t >= n-nf15 { // last, so that a rejected scenario trace leaves little to re-validate
			scn = "f15"
		}
		policy := piecerequest.DefaultPolicy
		if rng.Intn(2) == 0 {
			policy = piecerequest.RarestFirstPolicy
		}
		timeout := 1 + rng.Intn(3)
		limA := 1 + rng.Intn(3)
		limO := 1 + rng.Intn(4)
		if scn == "rand" && rng.Intn(20) == 0 {
			limA = 0
		}
		d := &drv{c: c, clk: clock.NewMock(), peers: peers, names: names, origin: make([]bool, npeers), timeout: timeout}
		origins := []string{}
		for i := range d.origin {
			d.origin[i] = rng.Intn(3) == 0
			if d.origin[i] {
				origins = append(origins, names[peers[i]])
			}
		}
		m, err := piecerequest.NewManager(d.clk, time.Duration(timeout)*time.Second, policy, limA, limO)
		if err != nil {
			panic(err)
		}
		d.m = m
		c.W.Reset(t, map[string]any{"scn": scn, "policy": policy, "timeout": timeout, "limA": limA, "limO": limO,
			"origins": origins, "np": np})
		if scn == "f15" {
			d.f15(rng)
			return
		}
		steps := 25 + rng.Intn(35)
		for s := 0; s < steps; s++ {
			d.step(rng)
		}
		// drain: after timeout+1 every request still on the books shows up in the failed report
		d.tick(timeout + 1)
	})
	return nil
}

// storm: rounds of REAL concurrency: eight goroutines reserve disjoint pieces for one peer at the same time on a manager
// that holds nothing else; the peer's pending pieces are recorded once all have returned (spec/p2p/PieceRequestsStorm.tla).
func storm(c *eng.Ctx, t int, rng *rand.Rand, peer core.PeerID) {
	const ng = 8
	limit := 1 + rng.Intn(3)
	c.W.Reset(t, map[string]any{"scn": "storm", "tracespec": "storm", "limit": limit})
	rounds := c.N(1500, 3000)
	for r := 0; r < rounds; r++ {
		m, err := piecerequest.NewManager(clock.NewMock(), time.Hour, piecerequest.DefaultPolicy, limit, limit)
		if err != nil {
			panic(err)
		}
		counters := syncutil.NewCounters(ng)
		granted := make([][]int, ng)
		var wg sync.WaitGroup
		start := make(chan struct{})
		for g := 0; g < ng; g++ {
			wg.Add(1)
			go func(g int) {
				defer wg.Done()
				b := bitset.New(ng)
				b.Set(uint(g))
				<-start
				res, err := m.ReservePieces(peer, false, b, counters, false)
				if err == nil {
					granted[g] = res
				}
			}(g)
		}
		close(start)
		wg.Wait()
		var all []int
		for _, g := range granted {
			all = append(all, g...)
		}
		sort.Ints(all)
		pend := m.PendingPieces(peer)
		sort.Ints(pend)
		if all == nil {
			all = []int{}
		}
		if pend == nil {
			pend = []int{}
		}
		c.W.Ev("Round", "limit", limit, "asked", ng, "granted", all, "pending", pend)
	}
}
