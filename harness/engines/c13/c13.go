// Package c13 records histories of the real memory caches (property C13):
//
//	kind "mem"  sequential call histories on cache.BlobMemoryCache
//	kind "conc" 2-3 goroutines on one BlobMemoryCache, call/return records (linearized by the trace spec)
//	kind "wt"   store.CAStore.WriteBlobToCacheWithMetaInfo (+ drain, TTL sweep) with writes that succeed, fail
//	            mid-stream, duplicate, carry a bad name and mismatch the claimed size
//	kind "lru"  cache.LRUCache with measured call intervals (the code reads time.Now())
//
// The driver records; the verdict is computed by spec/cache/MemCacheTrace.tla.
package c13

import (
	"crypto/sha256"
	"encoding/hex"
	"errors"
	"fmt"
	"math/rand"
	"os"
	"runtime"
	"sort"
	"sync"
	"time"

	"github.com/andres-erbsen/clock"
	"github.com/uber-go/tally"

	"github.com/uber/kraken/lib/store"
	"github.com/uber/kraken/utils/cache"

	"kvh/internal/eng"
)

func init() { eng.Register("c13", run) }

var keyNames = []string{"k1", "k2", "k3", "k4", "k5"}

func cfg(kind string, kv ...any) map[string]any {
	m := map[string]any{"kind": kind, "max": 0, "enabled": false, "ttl": 0, "retries": 0, "lcap": 1, "lttl": 1, "f13": false}
	for i := 0; i+1 < len(kv); i += 2 {
		m[kv[i].(string)] = kv[i+1]
	}
	return m
}

type rec struct {
	ev string
	kv []any
}

func run(c *eng.Ctx) error {
	nMem := c.N(150, 1200)
	nConc := c.N(60, 500)
	nWT := c.N(60, 400)
	nF13 := 2
	nLruFast := c.N(80, 600)
	nLruSlow := c.N(14, 40)
	total := nMem + nConc + nWT + nLruFast + nLruSlow + nF13

	type slowJob struct {
		t    int
		cfg  map[string]any
		recs []rec
		done chan struct{}
	}
	var slow []*slowJob
	var f13 []func()
	sem := make(chan struct{}, 16)

	c.Traces(total, func(t int, rng *rand.Rand) {
		switch {
		case t < nMem:
			memTrace(c, t, rng)
		case t < nMem+nConc:
			concTrace(c, t, rng)
		case t < nMem+nConc+nWT:
			wtTrace(c, t, rng, false)
		case t < nMem+nConc+nWT+nLruFast:
			cf, recs := lruTrace(rng, false)
			emit(c, t, cf, recs)
		case t >= total-nF13:
			// dedicated scenarios for the known finding F13: emitted last, so that a rejection costs little
			f13 = append(f13, func() { wtTrace(c, t, rng, true) })
		default:
			j := &slowJob{t: t, done: make(chan struct{})}
			slow = append(slow, j)
			go func() {
				sem <- struct{}{}
				j.cfg, j.recs = lruTrace(rng, true)
				<-sem
				close(j.done)
			}()
		}
	})
	for _, j := range slow {
		<-j.done
		emit(c, j.t, j.cfg, j.recs)
	}
	for _, f := range f13 {
		f()
	}
	return nil
}

func emit(c *eng.Ctx, t int, cf map[string]any, recs []rec) {
	c.W.Reset(t, cf)
	for _, r := range recs {
		c.W.Ev(r.ev, r.kv...)
	}
}

func names(mc *cache.BlobMemoryCache, idx map[string]string) []string {
	out := []string{}
	if mc == nil {
		return out
	}
	for _, n := range mc.ListNames() {
		k, ok := idx[n]
		if !ok {
			k = "unknown"
		}
		out = append(out, k)
	}
	sort.Strings(out)
	return out
}

// ---------------------------------------------------------------- kind "mem"

func memTrace(c *eng.Ctx, t int, rng *rand.Rand) {
	max := []int{6, 12, 20}[rng.Intn(3)]
	mc := cache.NewBlobMemoryCache(cache.BlobMemoryCacheConfig{MaxSize: uint64(max)}, tally.NoopScope)
	c.W.Reset(t, cfg("mem", "max", max))
	base := time.Unix(1_700_000_000, 0)
	idx := map[string]string{}
	for _, k := range keyNames[:4] {
		idx[k] = k
	}
	var held []int // sizes this caller has reserved and not yet added / released (protocol bookkeeping only)
	obs := func() (int, int) { return int(mc.TotalBytes()), mc.NumEntries() }
	steps := 30 + rng.Intn(40)
	now := 0
	for s := 0; s < steps; s++ {
		k := keyNames[rng.Intn(4)]
		switch p := rng.Intn(20); {
		case p < 6:
			sz := rng.Intn(9)
			ok := mc.TryReserve(uint64(sz))
			if ok {
				held = append(held, sz)
			}
			tot, n := obs()
			c.W.Ev("Reserve", "sz", sz, "res", ok, "total", tot, "n", n)
		case p < 8:
			if len(held) == 0 {
				continue
			}
			i := rng.Intn(len(held))
			sz := held[i]
			held = append(held[:i], held[i+1:]...)
			mc.ReleaseReservation(uint64(sz))
			tot, n := obs()
			c.W.Ev("Release", "sz", sz, "total", tot, "n", n)
		case p < 13:
			if len(held) == 0 {
				continue
			}
			i := rng.Intn(len(held))
			sz := held[i]
			now += rng.Intn(3)
			ok := mc.Add(&cache.MemoryEntry{Name: k, Data: make([]byte, sz), CreatedAt: base.Add(time.Duration(now) * time.Second)})
			if ok {
				held = append(held[:i], held[i+1:]...)
			}
			tot, n := obs()
			c.W.Ev("Add", "k", k, "sz", sz, "at", now, "res", ok, "total", tot, "n", n)
		case p < 14:
			res := -1
			if e := mc.Get(k); e != nil {
				res = int(e.Size())
			}
			c.W.Ev("Get", "k", k, "res", res)
		case p < 16:
			mc.Remove(k)
			tot, n := obs()
			c.W.Ev("Remove", "k", k, "total", tot, "n", n)
		case p < 17:
			ks := []string{}
			for _, kk := range keyNames[:4] {
				if rng.Intn(2) == 0 {
					ks = append(ks, kk)
				}
			}
			mc.RemoveBatch(ks)
			tot, n := obs()
			c.W.Ev("RemoveBatch", "ks", ks, "total", tot, "n", n)
		case p < 19:
			at := now + rng.Intn(4)
			ttl := rng.Intn(4)
			got := mc.GetExpiredEntries(base.Add(time.Duration(at)*time.Second), time.Duration(ttl)*time.Second)
			if got == nil {
				got = []string{}
			}
			sort.Strings(got)
			c.W.Ev("Expired", "at", at, "ttl", ttl, "ks", got)
		default:
			tot, n := obs()
			c.W.Ev("Look", "total", tot, "n", n, "names", names(mc, idx))
		}
	}
	// hand back whatever is still reserved, then look: quiescent accounting must be exact
	for _, sz := range held {
		mc.ReleaseReservation(uint64(sz))
		tot, n := obs()
		c.W.Ev("Release", "sz", sz, "total", tot, "n", n)
	}
	tot, n := obs()
	c.W.Ev("Look", "total", tot, "n", n, "names", names(mc, idx))
}

// ---------------------------------------------------------------- kind "conc"

type cstep struct {
	kind string // "ra" reserve+add(+release on duplicate), "rr" reserve+release, "remove", "get", "total", "num"
	k    string
	sz   int
}

func concTrace(c *eng.Ctx, t int, rng *rand.Rand) {
	max := []int{4, 6, 9}[rng.Intn(3)]
	g := 2 + rng.Intn(2)
	mc := cache.NewBlobMemoryCache(cache.BlobMemoryCacheConfig{MaxSize: uint64(max)}, tally.NoopScope)
	c.W.Reset(t, cfg("conc", "max", max))
	scripts := make([][]cstep, g)
	for i := range scripts {
		n := 2 + rng.Intn(2)
		for s := 0; s < n; s++ {
			st := cstep{k: keyNames[rng.Intn(2)], sz: 1 + rng.Intn(4)}
			switch p := rng.Intn(10); {
			case p < 5:
				st.kind = "ra"
			case p < 6:
				st.kind = "rr"
			case p < 8:
				st.kind = "remove"
			case p < 9:
				st.kind = "total"
			default:
				st.kind = []string{"get", "num"}[rng.Intn(2)]
			}
			scripts[i] = append(scripts[i], st)
		}
	}
	b2i := func(b bool) int {
		if b {
			return 1
		}
		return 0
	}
	call := func(gid int, op, k string, sz int, f func() int) int {
		c.W.Ev("call", "g", gid, "op", op, "k", k, "sz", sz)
		r := f()
		c.W.Ev("ret", "g", gid, "res", r)
		return r
	}
	var wg sync.WaitGroup
	start := make(chan struct{})
	for i := 0; i < g; i++ {
		wg.Add(1)
		go func(gid int, script []cstep) {
			defer wg.Done()
			<-start
			for _, st := range script {
				st := st
				switch st.kind {
				case "ra":
					if call(gid, "reserve", st.k, st.sz, func() int { return b2i(mc.TryReserve(uint64(st.sz))) }) == 1 {
						runtime.Gosched()
						if call(gid, "add", st.k, st.sz, func() int {
							return b2i(mc.Add(&cache.MemoryEntry{Name: st.k, Data: make([]byte, st.sz)}))
						}) == 0 {
							call(gid, "release", st.k, st.sz, func() int { mc.ReleaseReservation(uint64(st.sz)); return 0 })
						}
					}
				case "rr":
					if call(gid, "reserve", st.k, st.sz, func() int { return b2i(mc.TryReserve(uint64(st.sz))) }) == 1 {
						runtime.Gosched()
						call(gid, "release", st.k, st.sz, func() int { mc.ReleaseReservation(uint64(st.sz)); return 0 })
					}
				case "remove":
					call(gid, "remove", st.k, 0, func() int { mc.Remove(st.k); return 0 })
				case "get":
					call(gid, "get", st.k, 0, func() int {
						if e := mc.Get(st.k); e != nil {
							return int(e.Size())
						}
						return -1
					})
				case "total":
					call(gid, "total", st.k, 0, func() int { return int(mc.TotalBytes()) })
				case "num":
					call(gid, "num", st.k, 0, func() int { return mc.NumEntries() })
				}
				runtime.Gosched()
			}
		}(i+1, scripts[i])
	}
	close(start)
	wg.Wait()
	idx := map[string]string{}
	for _, k := range keyNames[:4] {
		idx[k] = k
	}
	c.W.Ev("Look", "total", int(mc.TotalBytes()), "n", mc.NumEntries(), "names", names(mc, idx))
}

// ---------------------------------------------------------------- kind "wt"

type blobKey struct {
	name    string // cache name (hex digest, or an invalid name)
	content []byte // the bytes that hash to name
	valid   bool   // name is a well-formed sha256 hex digest
}

var errStream = errors.New("stream broke")

func wtTrace(c *eng.Ctx, t int, rng *rand.Rand, f13 bool) {
	enabled := f13 || rng.Intn(10) != 0
	max := []int{16, 32, 48}[rng.Intn(3)]
	if f13 {
		max = 48
	}
	retries := 1 + rng.Intn(2)
	ttlMs := 5 + rng.Intn(10)
	up, err1 := os.MkdirTemp("", "c13-up")
	ca, err2 := os.MkdirTemp("", "c13-ca")
	if err1 != nil || err2 != nil {
		panic(fmt.Sprint(err1, err2))
	}
	defer os.RemoveAll(up)
	defer os.RemoveAll(ca)
	clk := clock.NewMock()
	s, cleanup := store.CAStoreFixtureWithClock(store.CAStoreConfig{
		UploadDir: up, CacheDir: ca,
		MemoryCache: store.MemoryCacheConfig{
			Enabled: enabled, MaxSize: uint64(max), DrainWorkers: 1, DrainMaxRetries: retries,
			TTL: time.Duration(ttlMs) * time.Millisecond, TTLInterval: 1000 * time.Hour,
		},
	}, clk)
	defer cleanup()
	c.W.Reset(t, cfg("wt", "max", max, "enabled", enabled, "ttl", ttlMs, "retries", retries, "f13", f13))

	// keys: three well-formed names with their content, one malformed name
	keys := make([]blobKey, 4)
	idx := map[string]string{}
	for i := 0; i < 3; i++ {
		b := make([]byte, 1+rng.Intn(20))
		rng.Read(b)
		h := sha256.Sum256(b)
		keys[i] = blobKey{name: hex.EncodeToString(h[:]), content: b, valid: true}
		idx[keys[i].name] = keyNames[i]
	}
	keys[3] = blobKey{name: "nothexdigest", content: []byte("xyz"), valid: false}
	idx[keys[3].name] = keyNames[3]
	mc := s.VerifMemCache()
	obs := func() (int, int, []string) {
		if mc == nil {
			return 0, 0, []string{}
		}
		return int(mc.TotalBytes()), mc.NumEntries(), names(mc, idx)
	}
	elapsed := 0

	write := func(ki int, claimed int, data []byte, f1, f2 bool) {
		k := keys[ki]
		calls := 0
		cb := func(w store.FileReadWriter) error {
			calls++
			fail := (calls == 1 && f1) || (calls == 2 && f2)
			if fail {
				if len(data) > 1 {
					w.Write(data[:len(data)/2])
				}
				return errStream
			}
			_, err := w.Write(data)
			return err
		}
		before := false
		if mc != nil {
			before = mc.Get(k.name) != nil
		}
		err := s.WriteBlobToCacheWithMetaInfo(k.name, uint64(claimed), cb, 4)
		after := false
		if mc != nil {
			after = mc.Get(k.name) != nil
		}
		h := sha256.Sum256(data)
		good := k.valid && hex.EncodeToString(h[:]) == k.name
		res := "ok"
		if err != nil {
			res = "err"
		}
		cls := "exact"
		if len(data) < claimed {
			cls = "short"
		} else if len(data) > claimed {
			cls = "long"
		}
		tot, n, nm := obs()
		c.W.Ev("WriteThrough", "k", idx[k.name], "claimed", claimed, "actual", len(data), "f1", f1, "f2", f2,
			"metaok", k.valid, "good", good, "added", after && !before, "res", res, "calls", calls, "szcls", cls,
			"total", tot, "n", n, "names", nm)
	}
	drain := func() {
		s.VerifDrainNext()
		tot, n, nm := obs()
		c.W.Ev("Drain", "qlen", s.VerifDrainQueueLen(), "total", tot, "n", n, "names", nm)
	}

	if f13 {
		// dedicated scenario for suspect F13: an admitted write whose callback produces fewer / more bytes
		// than claimed, then full drain.
		k := keys[rng.Intn(3)]
		ki := 0
		for i := range keys {
			if keys[i].name == k.name {
				ki = i
			}
		}
		claimed := len(k.content) + 1 + rng.Intn(6)
		if t%2 == 1 && len(k.content) > 1 {
			claimed = len(k.content) - 1
		}
		if rng.Intn(2) == 0 {
			o := keys[(ki+1)%3]
			write((ki+1)%3, len(o.content), o.content, false, false)
		}
		write(ki, claimed, k.content, false, false)
		for i := 0; i < 4; i++ {
			drain()
		}
		return
	}

	steps := 14 + rng.Intn(16)
	for st := 0; st < steps; st++ {
		switch p := rng.Intn(20); {
		case p < 10:
			ki := rng.Intn(4)
			k := keys[ki]
			data := k.content
			if k.valid && rng.Intn(6) == 0 { // foreign bytes under this name (does not verify)
				data = make([]byte, 1+rng.Intn(20))
				rng.Read(data)
			}
			claimed := len(data)
			f1, f2 := false, false
			switch rng.Intn(8) {
			case 0:
				f1 = true
			case 1:
				f1, f2 = true, true
			case 2:
				f2 = true
			}
			if rng.Intn(4) == 0 {
				// claimed size differs from what the stream delivers - but only where that cannot leave the
				// blob in memory (reservation refused, stream failure, duplicate, bad name, cache disabled);
				// the admitted case is the dedicated F13 scenario.
				alt := len(data) + 1 + rng.Intn(30)
				if rng.Intn(3) == 0 && len(data) > 1 {
					alt = len(data) - 1
				}
				admitted := mc != nil && int(mc.TotalBytes())+alt <= max
				staysOut := !admitted || f1 || !k.valid || (mc != nil && mc.Get(k.name) != nil)
				if staysOut {
					claimed = alt
				}
			}
			write(ki, claimed, data, f1, f2)
		case p < 15:
			if mc == nil {
				continue
			}
			drain()
		case p < 17:
			if mc == nil {
				continue
			}
			s.VerifExpireMemCache()
			tot, n, nm := obs()
			c.W.Ev("Expire", "total", tot, "n", n, "names", nm)
		case p < 19:
			d := 1 + rng.Intn(7)
			if elapsed+d >= 90 { // stay below the first tick of the background drain ticker (100ms)
				continue
			}
			elapsed += d
			clk.Add(time.Duration(d) * time.Millisecond)
			c.W.Ev("Tick", "d", d)
		default:
			if mc == nil {
				continue
			}
			k := keys[rng.Intn(4)]
			c.W.Ev("InMem", "k", idx[k.name], "res", s.CheckInMemCache(k.name))
		}
	}
	if mc != nil {
		for i := 0; i < 12 && (s.VerifDrainQueueLen() > 0 || i == 0); i++ {
			drain()
		}
	}
}

// ---------------------------------------------------------------- kind "lru"

func lruTrace(rng *rand.Rand, slow bool) (map[string]any, []rec) {
	lcap := 1 + rng.Intn(3)
	ttlMs := 3_600_000
	if slow {
		ttlMs = 300
	}
	lc := cache.NewLRUCache(cache.LRUCacheConfig{Size: lcap, TTL: time.Duration(ttlMs) * time.Millisecond})
	cf := cfg("lru", "lcap", lcap, "lttl", ttlMs)
	var recs []rec
	start := time.Now()
	ms := func() int { return int(time.Since(start) / time.Millisecond) }
	timed := func(f func()) (int, int) {
		t0 := ms()
		f()
		return t0, ms() + 1
	}
	steps := 30 + rng.Intn(30)
	sleeps := 0
	if slow {
		steps = 10 + rng.Intn(8)
	}
	for s := 0; s < steps; s++ {
		k := keyNames[rng.Intn(5)]
		switch p := rng.Intn(20); {
		case p < 9:
			t0, t1 := timed(func() { lc.Add(k) })
			recs = append(recs, rec{"LAdd", []any{"k", k, "t0", t0, "t1", t1, "size", lc.Size()}})
		case p < 15:
			var r bool
			t0, t1 := timed(func() { r = lc.Has(k) })
			recs = append(recs, rec{"LHas", []any{"k", k, "t0", t0, "t1", t1, "res", r}})
		case p < 17:
			lc.Delete(k)
			recs = append(recs, rec{"LDelete", []any{"k", k, "size", lc.Size()}})
		case p < 19:
			recs = append(recs, rec{"LSize", []any{"res", lc.Size()}})
		default:
			if rng.Intn(3) == 0 {
				lc.Clear()
				recs = append(recs, rec{"LClear", nil})
			}
		}
		if slow && sleeps < 4 && rng.Intn(3) == 0 {
			sleeps++
			time.Sleep(time.Duration([]int{130, 200, 450, 650}[rng.Intn(4)]) * time.Millisecond)
		}
	}
	// probe every key at the end: makes the hidden order/expiry observable
	for _, k := range keyNames {
		var r bool
		t0, t1 := timed(func() { r = lc.Has(k) })
		recs = append(recs, rec{"LHas", []any{"k", k, "t0", t0, "t1", t1, "res", r}})
	}
	recs = append(recs, rec{"LSize", []any{"res", lc.Size()}})
	return cf, recs
}
