// Package c34 records executions of the real httputil.Send retry loop (property C34) against an httptest
// server that records every attempt (method, URL, headers, full body) and answers from a scripted response
// list. A harness RoundTripper (installed with httputil.SendTransport, wrapping a real http.Transport) logs
// one Attempt event per loop iteration; verdicts come from spec/http/HttpRetry.tla.
package c34

import (
	"bytes"
	"context"
	"errors"
	"io"
	"math/rand"
	"net"
	"net/http"
	"net/http/httptest"
	"os"
	"path/filepath"
	"strings"
	"sync"
	"time"

	"github.com/cenkalti/backoff"

	"github.com/uber/kraken/utils/httputil"

	"kvh/internal/eng"
)

func init() { eng.Register("c34", run) }

const (
	respNet    = 0  // server reads the whole request, then drops the connection
	respRefuse = -1 // connection cannot be established
)

var urls = map[string]string{"u1": "/a", "u2": "/b/c?x=1&y=%2F"}
var hdrs = map[string]map[string]string{
	"h0": {},
	"h1": {"X-Verif-A": "1"},
	"h2": {"X-Verif-A": "2", "X-Verif-B": "zz"},
}

type srvRec struct {
	method, uri string
	hdr         string
	body        []byte
	rerr        bool
}

// env is the scripted world of ONE trace: its own httptest server (closed, i.e. drained, at the end of the trace
// so that no late arrival can leak into the next trace).
type env struct {
	mu      sync.Mutex
	cond    *sync.Cond
	recs    []srvRec
	next    int  // response to the attempt in flight
	rbody   bool // error statuses carry a (never read) response body
	states  map[net.Conn]http.ConnState
	refuse  bool
	srv     *httptest.Server
	payload []byte
}

func newEnv() *env {
	e := &env{states: map[net.Conn]http.ConnState{}}
	e.cond = sync.NewCond(&e.mu)
	e.srv = httptest.NewUnstartedServer(http.HandlerFunc(e.handle))
	e.srv.Config.ConnState = func(c net.Conn, s http.ConnState) {
		e.mu.Lock()
		if s == http.StateClosed || s == http.StateHijacked {
			delete(e.states, c)
		} else {
			e.states[c] = s
		}
		e.cond.Broadcast()
		e.mu.Unlock()
	}
	e.srv.Start()
	return e
}

func hdrID(h http.Header) string {
	got := map[string]string{}
	for k, v := range h {
		if strings.HasPrefix(k, "X-Verif-") {
			got[k] = strings.Join(v, ",")
		}
	}
	for id, want := range hdrs {
		if len(want) != len(got) {
			continue
		}
		ok := true
		for k, v := range want {
			if got[k] != v {
				ok = false
			}
		}
		if ok {
			return id
		}
	}
	return "h?"
}

func (e *env) handle(w http.ResponseWriter, r *http.Request) {
	b, err := io.ReadAll(r.Body)
	uid := "u?"
	for id, p := range urls {
		if r.RequestURI == p {
			uid = id
		}
	}
	e.mu.Lock()
	e.recs = append(e.recs, srvRec{method: r.Method, uri: uid, hdr: hdrID(r.Header), body: b, rerr: err != nil})
	code, rbody := e.next, e.rbody
	e.mu.Unlock()
	if code == respNet || code == respRefuse {
		if hj, ok := w.(http.Hijacker); ok {
			if c, _, err := hj.Hijack(); err == nil {
				c.Close()
			}
		}
		return
	}
	if rbody && code >= 400 {
		w.WriteHeader(code)
		io.WriteString(w, "scripted failure\n")
		return
	}
	w.WriteHeader(code)
}

// quiesce waits (event driven, bounded) until no server connection is inside a request.
func (e *env) quiesce() {
	deadline := time.Now().Add(2 * time.Second)
	t := time.AfterFunc(2*time.Second, func() { e.mu.Lock(); e.cond.Broadcast(); e.mu.Unlock() })
	defer t.Stop()
	e.mu.Lock()
	defer e.mu.Unlock()
	for {
		busy := 0
		for _, s := range e.states {
			if s == http.StateActive {
				busy++
			}
		}
		if busy == 0 || time.Now().After(deadline) {
			return
		}
		e.cond.Wait()
	}
}

// rt is the harness RoundTripper: one call = one attempt of the helper.
type rt struct {
	c      *eng.Ctx
	e      *env
	tr     *http.Transport
	script []int
	n      int
}

func (w *rt) RoundTrip(req *http.Request) (*http.Response, error) {
	if req.URL.Scheme == "https" {
		return nil, errors.New("verif: tls: first record does not look like a TLS handshake")
	}
	i := w.n
	w.n++
	r := 200
	if i < len(w.script) {
		r = w.script[i]
	}
	e := w.e
	e.mu.Lock()
	e.next = r
	e.refuse = r == respRefuse
	start := len(e.recs)
	e.mu.Unlock()
	if r == respRefuse {
		w.tr.CloseIdleConnections()
	}
	resp, err := w.tr.RoundTrip(req)
	e.quiesce()
	e.mu.Lock()
	e.refuse = false
	recs := append([]srvRec{}, e.recs[start:]...)
	payload := e.payload
	e.mu.Unlock()
	got := 0
	if err == nil {
		got = resp.StatusCode
	}
	m, u, h, blen, bok := "", "", "", 0, false
	if len(recs) > 0 {
		x := recs[len(recs)-1]
		m, u, h, blen = x.method, x.uri, x.hdr, len(x.body)
		bok = !x.rerr && bytes.Equal(x.body, payload)
		for _, y := range recs[:len(recs)-1] { // more than one arrival in one attempt: all must be complete
			if y.rerr || !bytes.Equal(y.body, payload) {
				bok = false
			}
		}
	}
	w.c.W.Ev("Attempt", "i", i+1, "resp", r, "got", got, "seen", len(recs), "m", m, "u", u, "h", h, "blen", blen, "bok", bok)
	return resp, err
}

// countBO counts consultations of the real backoff policy.
type countBO struct {
	in backoff.BackOff
	n  int
}

func (b *countBO) NextBackOff() time.Duration { b.n++; return b.in.NextBackOff() }
func (b *countBO) Reset()                     { b.in.Reset() }

type plainReader struct{ r io.Reader }

func (p plainReader) Read(b []byte) (int, error) { return p.r.Read(b) }

// seekReader is a custom io.ReadSeeker (no Close, no Len, none of the types net/http knows).
type seekReader struct{ r *bytes.Reader }

func (s *seekReader) Read(b []byte) (int, error)                { return s.r.Read(b) }
func (s *seekReader) Seek(off int64, whence int) (int64, error) { return s.r.Seek(off, whence) }

type scenario struct {
	script []int
	budget int // -1: no SendRetry option; -2: default SendRetry() (2 retries, 250ms)
	acc    []int
	extra  []int
	method string
	url    string
	hdr    string
	kind   string
	size   int // length of the underlying stream
	off    int // position of a seekable body (file, seeker) when it is handed to Send; the body is stream[off:]
	rbody  bool
	flag   string
	// fallback: the request is made over https with EnableHTTPFallback; every https round trip fails before a byte of the
	// body is read (as a TLS handshake against a plain-HTTP server does) and the helper's http fallback is the attempt
	fallback bool
}

var defaultRetry = map[int]bool{429: true, 502: true, 503: true, 504: true}

func has(s []int, v int) bool {
	for _, x := range s {
		if x == v {
			return true
		}
	}
	return false
}

func (s *scenario) retryWanted(r int) bool {
	if r == respNet || r == respRefuse {
		return true
	}
	return (defaultRetry[r] && !has(s.acc, r)) || has(s.extra, r)
}

func (s *scenario) effBudget() int {
	switch s.budget {
	case -1:
		return 0
	case -2:
		return 2
	}
	return s.budget
}

// class labels the input class of a scenario with respect to finding F34 (re-Do of a consumed request body); it
// goes into the reset cfg (f34) so that a finding signature can match on it. It is not an oracle: every trace is
// judged by TLC. Since F34 was repaired the bulk no longer stays outside these classes -- retries with every body
// kind, including seekable bodies handed over at a non-zero offset, are part of the bulk in both tiers.
func (s *scenario) class() string {
	if s.kind == "nil" || (s.size-s.off == 0 && s.kind != "file") {
		return "none" // (an *os.File body is closed by the transport after the first attempt, whatever its size)
	}
	unsized := s.kind == "file" || s.kind == "plain" || s.kind == "seeker"
	consumed, reusable := false, false
	for i := 0; i <= s.effBudget(); i++ {
		r := 200
		if i < len(s.script) {
			r = s.script[i]
		}
		if i > 0 && consumed {
			if unsized {
				return "unsized"
			}
			if !reusable {
				return "sized_newconn"
			}
		}
		if r == respRefuse {
			reusable = false
			if s.kind == "file" {
				consumed = true // a failed dial closes the request body, i.e. the file
			}
		} else {
			consumed = true
			reusable = r != respNet && !(s.rbody && r >= 400)
		}
		if !s.retryWanted(r) {
			break
		}
	}
	return "none"
}

var alphabet = []int{respNet, respRefuse, 200, 204, 404, 503}

func scripts(maxLen int) [][]int {
	var out [][]int
	var rec func(cur []int)
	rec = func(cur []int) {
		if len(cur) > 0 {
			out = append(out, append([]int{}, cur...))
		}
		if len(cur) == maxLen {
			return
		}
		for _, a := range alphabet {
			rec(append(cur, a))
		}
	}
	rec(nil)
	return out
}

func run(c *eng.Ctx) error {
	maxLen, variants := 3, 2
	if !c.Quick() {
		maxLen, variants = 4, 4
	}
	all := scripts(maxLen)
	dedicated := []scenario{
		{script: []int{503, 200}, budget: 2, kind: "plain", size: 65536, flag: "unsized"},
		{script: []int{respNet, 503, 200}, budget: 3, kind: "file", size: 1, flag: "unsized"},
		{script: []int{respNet, 200}, budget: 2, kind: "breader", size: 65536, flag: "sized_newconn"},
		{script: []int{503, 200}, budget: 2, kind: "sreader", size: 1, rbody: true, flag: "sized_newconn"},
		// seekable bodies positioned at a non-zero offset: the original body is stream[off:]
		{script: []int{503, 200}, budget: 2, kind: "file", size: 65536, off: 4096},
		{script: []int{respNet, 200}, budget: 2, kind: "seeker", size: 65536, off: 1},
		{script: []int{respNet, 503, 200}, budget: 3, kind: "seeker", size: 1, off: 1},
		{script: []int{respRefuse, 503, respNet, 200}, budget: 3, kind: "file", size: 65536, off: 40000},
		{script: []int{503, 503, 200}, budget: -2, kind: "breader", size: 1},
		{script: []int{respNet, 503, 503, 200}, budget: -2, kind: "nil"},
		{script: []int{503, 200}, budget: -1, kind: "sreader", size: 65536},
		// https with http fallback: the fallback requests are the attempts, each must carry the whole body
		{script: []int{503, 200}, budget: 2, kind: "breader", size: 65536, fallback: true},
		{script: []int{respNet, 503, 200}, budget: 3, kind: "sreader", size: 100, fallback: true},
		{script: []int{503, 503, 200}, budget: 3, kind: "bbuffer", size: 1, fallback: true},
		{script: []int{503, 200}, budget: 2, kind: "file", size: 65536, off: 4096, fallback: true},
		{script: []int{200}, budget: 2, kind: "breader", size: 10, fallback: true},
		{script: []int{503, 200}, budget: 2, kind: "nil", fallback: true},
		{script: []int{200}, budget: 2, kind: "plain", size: 100, fallback: true},
		{script: []int{503, 200}, budget: 2, kind: "plain", size: 65536, fallback: true},
	}
	for i := range dedicated {
		d := &dedicated[i]
		d.acc, d.extra, d.method, d.url, d.hdr = []int{200}, []int{}, "POST", "u2", "h2"
	}
	nBulk := len(all) * variants
	c.Stats["scripts"] = len(all)

	c.Traces(nBulk+len(dedicated), func(t int, rng *rand.Rand) {
		var s scenario
		if t >= nBulk {
			s = dedicated[t-nBulk]
		} else {
			s = draw(all[t%len(all)], t/len(all), rng)
		}
		e := newEnv()
		exec(c, e, t, &s, rng)
		e.srv.Close()
	})
	return nil
}

func draw(script []int, variant int, rng *rand.Rand) scenario {
	s := scenario{script: append([]int{}, script...)}
	for i, r := range s.script { // spread over the other default-retryable / non-retryable codes
		if r == 503 && rng.Intn(3) == 0 {
			s.script[i] = []int{429, 502, 504}[rng.Intn(3)]
		}
		if r == 404 && rng.Intn(3) == 0 {
			s.script[i] = []int{409, 500}[rng.Intn(2)]
		}
	}
	s.acc = [][]int{{200}, {200, 204}, {503}, {200, 404}}[rng.Intn(4)]
	s.extra = [][]int{{}, {404}, {409, 500}}[rng.Intn(3)]
	for _, x := range s.extra { // Reading of C34: accepted and extra retry codes are disjoint
		if has(s.acc, x) {
			s.extra = []int{}
		}
	}
	if variant == 0 {
		s.budget = len(script) - 1 // the whole script can be consumed
	} else {
		s.budget = rng.Intn(5) - 1 // -1 = no SendRetry option
	}
	s.method = []string{"POST", "PUT", "GET"}[rng.Intn(3)]
	s.url = []string{"u1", "u2"}[rng.Intn(2)]
	s.hdr = []string{"h0", "h1", "h2"}[rng.Intn(3)]
	s.kind = []string{"nil", "breader", "bbuffer", "sreader", "file", "plain", "seeker", "file"}[rng.Intn(8)]
	s.size = []int{0, 1, 65536}[rng.Intn(3)]
	s.rbody = rng.Intn(3) == 0
	if s.method == "GET" {
		s.kind = "nil"
	}
	if s.kind == "nil" {
		s.size = 0
	}
	if (s.kind == "file" || s.kind == "seeker") && s.size > 0 && rng.Intn(3) > 0 {
		s.off = []int{1, s.size / 2, s.size - 1, s.size}[rng.Intn(4)] // the caller already consumed a local header
	}
	s.flag = s.class()
	return s
}

func classify(resp *http.Response, err error) (string, int) {
	if err == nil {
		return "ok", resp.StatusCode
	}
	if httputil.IsNetworkError(err) {
		return "neterr", 0
	}
	var se httputil.StatusError
	if errors.As(err, &se) {
		return "status", se.Status
	}
	return "other", 0
}

func exec(c *eng.Ctx, e *env, t int, s *scenario, rng *rand.Rand) {
	if s.flag == "" {
		s.flag = s.class()
	}
	stream := make([]byte, s.size)
	rng.Read(stream)
	payload := stream[s.off:] // the original body: what the caller asked to be sent
	e.mu.Lock()
	e.payload, e.rbody, e.recs = payload, s.rbody, nil
	e.mu.Unlock()

	c.W.Reset(t, map[string]any{"f34": s.flag, "kind": s.kind, "size": s.size, "off": s.off, "script": s.script,
		"rbody": s.rbody, "retryopt": s.budget, "fallback": s.fallback})

	var body io.Reader
	var file *os.File
	switch s.kind {
	case "breader":
		body = bytes.NewReader(payload)
	case "bbuffer":
		body = bytes.NewBuffer(append([]byte{}, payload...))
	case "sreader":
		body = strings.NewReader(string(payload))
	case "plain":
		body = plainReader{bytes.NewReader(payload)}
	case "seeker":
		sr := &seekReader{bytes.NewReader(stream)}
		if _, err := sr.Seek(int64(s.off), io.SeekStart); err != nil {
			panic(err)
		}
		body = sr
	case "file":
		p := filepath.Join(c.Out, "body.bin")
		if err := os.WriteFile(p, stream, 0o644); err != nil {
			panic(err)
		}
		f, err := os.Open(p)
		if err != nil {
			panic(err)
		}
		if _, err := f.Seek(int64(s.off), io.SeekStart); err != nil {
			panic(err)
		}
		file, body = f, f
	}
	d := &net.Dialer{Timeout: 5 * time.Second}
	tr := &http.Transport{DialContext: func(ctx context.Context, network, addr string) (net.Conn, error) {
		e.mu.Lock()
		refuse := e.refuse
		e.mu.Unlock()
		if refuse {
			return nil, errors.New("verif: scripted connection refusal")
		}
		return d.DialContext(ctx, network, addr)
	}}
	w := &rt{c: c, e: e, tr: tr, script: s.script}
	opts := []httputil.SendOption{httputil.SendTransport(w), httputil.SendHeaders(hdrs[s.hdr]),
		httputil.SendAcceptedCodes(s.acc...), httputil.SendTimeout(20 * time.Second)}
	if s.kind != "nil" {
		opts = append(opts, httputil.SendBody(body))
	}
	var bo *countBO
	switch {
	case s.budget == -2:
		opts = append(opts, httputil.SendRetry(httputil.RetryCodes(s.extra...)))
	case s.budget >= 0:
		var in backoff.BackOff = &backoff.StopBackOff{} // WithMaxRetries(b, 0) would mean "no limit"
		if s.budget > 0 {
			in = backoff.WithMaxRetries(backoff.NewConstantBackOff(0), uint64(s.budget))
		}
		bo = &countBO{in: in}
		opts = append(opts, httputil.SendRetry(httputil.RetryBackoff(bo), httputil.RetryCodes(s.extra...)))
	}
	extra := s.extra
	if s.budget == -1 {
		extra = []int{} // RetryCodes can only be given through SendRetry
	}
	c.W.Ev("Send", "m", s.method, "u", s.url, "h", s.hdr, "len", len(payload), "replay", s.kind != "plain",
		"acc", s.acc, "extra", extra, "budget", s.effBudget())
	base := e.srv.URL
	if s.fallback {
		base = "https://" + strings.TrimPrefix(base, "http://")
		opts = append(opts, httputil.EnableHTTPFallback())
	}
	resp, err := httputil.Send(s.method, base+urls[s.url], opts...)
	res, code := classify(resp, err)
	if resp != nil {
		io.Copy(io.Discard, resp.Body)
		resp.Body.Close()
	}
	nbo := -1
	if bo != nil {
		nbo = bo.n
	}
	c.W.Ev("Return", "res", res, "code", code, "nbo", nbo)
	tr.CloseIdleConnections()
	if file != nil {
		file.Close()
		os.Remove(file.Name())
	}
	c.Inc("class_"+s.flag, 1)
}
