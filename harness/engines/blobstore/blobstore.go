// Package blobstore records histories of the real disk.Store (C07) and memory.Store (C08)
// for validation against spec/store/BlobStore.tla and MemHandles.tla.
package blobstore

import (
	"errors"
	"fmt"
	"io"
	"math/rand"
	"os"
	"runtime"
	"sort"
	"sync"

	"github.com/uber-go/tally"

	storelib "github.com/uber/kraken/lib/store"
	"github.com/uber/kraken/lib/store/disk"
	"github.com/uber/kraken/lib/store/memory"
	"github.com/uber/kraken/lib/store/metadata"

	"kvh/internal/eng"
	vmdpkg "kvh/internal/vmd"
)

func init() {
	eng.Register("c07", func(c *eng.Ctx) error { return run(c, false) })
	eng.Register("c08", func(c *eng.Ctx) error { return run(c, true) })
}

type vmd = vmdpkg.MD

var sufName = vmdpkg.Name
var sufs = vmdpkg.Suffixes

// ---- a uniform view of the two stores
type rw interface {
	io.Reader
	io.ReaderAt
	io.Writer
	io.WriterAt
	io.Seeker
	io.Closer
	Size() int64
}

type bs interface {
	Create(k string, sz uint64) (rw, error)
	Open(k string, sc storelib.BlobScope) (rw, error)
	Has(k string, sc storelib.BlobScope) (bool, bool)
	Stat(k string, sc storelib.BlobScope) (int64, error)
	MarkComplete(k string) error
	Delete(k string, sc storelib.BlobScope) error
	List(sc storelib.BlobScope) []string
	Ban(k string, sc storelib.BlobScope) error
	Unban(k string, sc storelib.BlobScope) error
	SetMd(k string, md metadata.Metadata, sc storelib.BlobScope) error
	GetMd(k string, md metadata.Metadata, sc storelib.BlobScope) (bool, error)
	DelMd(k, suf string, sc storelib.BlobScope) error
	ListMd(k string, sc storelib.BlobScope) ([]metadata.Metadata, error)
	Clean(pct int, rb bool) (int, error)
	Order() []string
	Used() uint64
}

type diskA struct{ s *disk.Store }

func nilrw(f rw, err error) (rw, error) {
	if err != nil {
		return nil, err
	}
	return f, nil
}
func (d diskA) Create(k string, sz uint64) (rw, error) {
	f, err := d.s.Create(k, sz)
	if err != nil {
		return nil, err
	}
	return f, nil
}
func (d diskA) Open(k string, sc storelib.BlobScope) (rw, error) {
	f, err := d.s.Scoped(sc).Open(k)
	if err != nil {
		return nil, err
	}
	return f, nil
}
func (d diskA) Has(k string, sc storelib.BlobScope) (bool, bool) { return d.s.Scoped(sc).Has(k) }
func (d diskA) Stat(k string, sc storelib.BlobScope) (int64, error) {
	fi, err := d.s.Scoped(sc).Stat(k)
	if err != nil {
		return 0, err
	}
	return fi.Size(), nil
}
func (d diskA) MarkComplete(k string) error                  { return d.s.MarkComplete(k) }
func (d diskA) Delete(k string, sc storelib.BlobScope) error { return d.s.Scoped(sc).Delete(k) }
func (d diskA) List(sc storelib.BlobScope) []string          { return d.s.Scoped(sc).List() }
func (d diskA) Ban(k string, sc storelib.BlobScope) error    { return d.s.Scoped(sc).BanEviction(k) }
func (d diskA) Unban(k string, sc storelib.BlobScope) error  { return d.s.Scoped(sc).UnbanEviction(k) }
func (d diskA) SetMd(k string, md metadata.Metadata, sc storelib.BlobScope) error {
	return d.s.Scoped(sc).SetMetadata(k, md)
}
func (d diskA) GetMd(k string, md metadata.Metadata, sc storelib.BlobScope) (bool, error) {
	return d.s.Scoped(sc).GetMetadata(k, md)
}
func (d diskA) DelMd(k, suf string, sc storelib.BlobScope) error {
	return d.s.Scoped(sc).DeleteMetadata(k, suf)
}
func (d diskA) ListMd(k string, sc storelib.BlobScope) ([]metadata.Metadata, error) {
	return d.s.Scoped(sc).ListMetadata(k)
}
func (d diskA) Clean(pct int, rb bool) (int, error) { return d.s.Clean(pct, rb) }
func (d diskA) Order() []string                     { return d.s.VerifEvictionOrder() }
func (d diskA) Used() uint64                        { return d.s.VerifUsed() }

type memA struct{ s *memory.Store }

func (d memA) Create(k string, sz uint64) (rw, error) {
	f, err := d.s.Create(k, sz)
	if err != nil {
		return nil, err
	}
	return f, nil
}
func (d memA) Open(k string, sc storelib.BlobScope) (rw, error) {
	f, err := d.s.Scoped(sc).Open(k)
	if err != nil {
		return nil, err
	}
	return f, nil
}
func (d memA) Has(k string, sc storelib.BlobScope) (bool, bool)    { return d.s.Scoped(sc).Has(k) }
func (d memA) Stat(k string, sc storelib.BlobScope) (int64, error) { return d.s.Scoped(sc).Stat(k) }
func (d memA) MarkComplete(k string) error                         { return d.s.MarkComplete(k) }
func (d memA) Delete(k string, sc storelib.BlobScope) error        { return d.s.Scoped(sc).Delete(k) }
func (d memA) List(sc storelib.BlobScope) []string                 { return d.s.Scoped(sc).List() }
func (d memA) Ban(k string, sc storelib.BlobScope) error           { return d.s.Scoped(sc).BanEviction(k) }
func (d memA) Unban(k string, sc storelib.BlobScope) error         { return d.s.Scoped(sc).UnbanEviction(k) }
func (d memA) SetMd(k string, md metadata.Metadata, sc storelib.BlobScope) error {
	return d.s.Scoped(sc).SetMetadata(k, md)
}
func (d memA) GetMd(k string, md metadata.Metadata, sc storelib.BlobScope) (bool, error) {
	return d.s.Scoped(sc).GetMetadata(k, md)
}
func (d memA) DelMd(k, suf string, sc storelib.BlobScope) error {
	return d.s.Scoped(sc).DeleteMetadata(k, suf)
}
func (d memA) ListMd(k string, sc storelib.BlobScope) ([]metadata.Metadata, error) {
	return d.s.Scoped(sc).ListMetadata(k)
}
func (d memA) Clean(pct int, rb bool) (int, error) { return 0, errors.New("unsupported") }
func (d memA) Order() []string                     { return d.s.VerifEvictionOrder() }
func (d memA) Used() uint64                        { return d.s.VerifUsed() }

// Classify maps an error to its class.
func Classify(err error) string {
	switch {
	case err == nil:
		return "ok"
	case errors.Is(err, storelib.ErrOutOfScope):
		return "outofscope"
	case errors.Is(err, os.ErrNotExist):
		return "notexist"
	case errors.Is(err, os.ErrExist):
		return "exist"
	case errors.Is(err, disk.VerifErrNoSpace), errors.Is(err, memory.ErrNoSpace):
		return "nospace"
	case errors.Is(err, memory.ErrEvicted):
		return "evicted"
	case errors.Is(err, io.EOF):
		return "eof"
	}
	return "other"
}

var scopes = []storelib.BlobScope{storelib.BlobScopeAny, storelib.BlobScopeComplete, storelib.BlobScopeIncomplete}
var scName = map[storelib.BlobScope]string{storelib.BlobScopeAny: "any", storelib.BlobScopeComplete: "comp", storelib.BlobScopeIncomplete: "inc"}

func sorted(s []string) []string {
	out := append([]string{}, s...)
	sort.Strings(out)
	return out
}

// contentOf decodes the harness content pattern: c+1 bytes of value c  ->  c ; empty -> 0 ; anything else -> -1.
func contentOf(b []byte) int {
	if len(b) == 0 {
		return 0
	}
	c := int(b[0])
	if len(b) != c+1 {
		return -1
	}
	for _, x := range b {
		if int(x) != c {
			return -1
		}
	}
	return c
}

func ints(b []byte) []int {
	out := make([]int, len(b))
	for i, x := range b {
		out[i] = int(x)
	}
	return out
}

type handle struct {
	id int
	f  rw
}

func run(c *eng.Ctx, mem bool) error {
	n := c.N(200, 4000)
	root, err := os.MkdirTemp("", "kvh-bs-")
	if err != nil {
		return err
	}
	defer os.RemoveAll(root)
	const nk = 4
	c.Traces(n, func(t int, rng *rand.Rand) {
		// a panic inside the store is an event no specification action explains (=> the trace is rejected), not a harness failure
		defer func() {
			if r := recover(); r != nil {
				c.W.Ev("Panic", "what", fmt.Sprint(r))
			}
		}()
		if mem && t >= n-c.N(4, 12) {
			storm(c, t, rng)
			return
		}
		if mem && t%5 == 4 {
			concurrent(c, t, rng)
			return
		}
		caps := []uint64{1, 3, 4, 8}
		capv := caps[rng.Intn(len(caps))]
		var s bs
		// real keys: sharded layout needs hex keys
		keys := make([]string, nk)
		kname := map[string]string{}
		for i := range keys {
			keys[i] = fmt.Sprintf("%02x%062x", rng.Intn(256), i+1)
			kname[keys[i]] = fmt.Sprintf("k%d", i+1)
		}
		badKey := fmt.Sprintf("ab%0300x", 7) // 302 characters: no file system here stores such a component
		cfg := map[string]any{"cap": int(capv), "mem": mem}
		if mem {
			ms, err := memory.NewStore(&memory.Config{CapacityBytes: capv, GOMEMLIMITBytes: 8 << 30}, tally.NoopScope)
			if err != nil {
				panic(err)
			}
			s = memA{ms}
		} else {
			dir := fmt.Sprintf("%s/t%d", root, t)
			shard := []int{0, 2}[rng.Intn(2)]
			reboot := rng.Intn(2) == 0
			ds, err := disk.NewStore(&disk.Config{RootDir: dir, CapacityBytes: capv, ShardLength: shard, RebootIncompleteBlobs: reboot}, tally.NoopScope)
			if err != nil {
				panic(err)
			}
			s = diskA{ds}
			cfg["shard"] = shard
			cfg["reboot"] = reboot
			defer os.RemoveAll(dir)
		}
		c.W.Reset(t, cfg)
		names := func(ks []string) []string {
			out := make([]string, 0, len(ks))
			for _, k := range ks {
				out = append(out, kname[k])
			}
			return out
		}
		obs := func(kv []any) []any {
			return append(kv, "order", names(s.Order()), "used", int(s.Used()), "live", sorted(names(s.List(storelib.BlobScopeAny))))
		}
		ev := func(name string, kv ...any) { c.W.Ev(name, obs(kv)...) }
		var handles []handle
		addH := func(f rw) int {
			if len(handles) == 6 { // slots are reused: forget the oldest handle; the model forgets it too (HDrop)
				old := handles[0]
				handles = handles[1:]
				ev("HDrop", "h", old.id)
				handles = append(handles, handle{old.id, f})
				return old.id
			}
			handles = append(handles, handle{len(handles) + 1, f})
			return len(handles)
		}
		// one history in four starts with a scripted prefix on one key (any scope): the ban / completion / metadata
		// combinations that purely random histories of this length rarely line up (op codes as in the switch below)
		type forcedOp struct{ op, suf int }
		var script []forcedOp
		scriptKey := keys[rng.Intn(nk)]
		if t%4 == 1 {
			scripts := [][]forcedOp{
				{{0, 0}, {80, 1}, {80, 0}, {65, 0}, {45, 0}, {85, 1}, {85, 0}, {94, 0}, {72, 0}}, // create, set fix+mov, ban, complete, get, list, unban
				{{0, 0}, {65, 0}, {80, 1}, {45, 0}, {94, 0}, {85, 1}, {55, 0}, {0, 0}, {85, 1}},  // ban first, set fix, complete, list, get, delete, create, get
				{{0, 0}, {45, 0}, {80, 1}, {65, 0}, {72, 0}, {94, 0}, {55, 0}, {35, 0}},          // complete, then fix metadata on a complete blob, ban/unban, delete, stat
				{{0, 0}, {80, 1}, {45, 0}, {85, 1}, {80, 1}, {85, 1}, {91, 1}, {85, 1}, {94, 0}}, // fix dropped by completion, set again, delete metadata
			}
			script = scripts[rng.Intn(len(scripts))]
		}
		forceSuf := -1
		steps := 40 + rng.Intn(40)
		for i := 0; i < steps; i++ {
			k := keys[rng.Intn(nk)]
			sc := scopes[rng.Intn(3)]
			if rng.Intn(3) > 0 {
				sc = storelib.BlobScopeAny
			}
			op := rng.Intn(100)
			forceSuf = -1
			if len(script) > 0 {
				k, sc, op, forceSuf = scriptKey, storelib.BlobScopeAny, script[0].op, script[0].suf
				script = script[1:]
			}
			if !mem && len(script) == 0 && forceSuf < 0 && rng.Intn(12) == 0 {
				// Create of a name the file system refuses (one path component longer than NAME_MAX): room is made first,
				// then the directory cannot be created; the reservation must be handed back in full (BlobStore.tla CreateBad).
				sz := uint64(rng.Intn(int(capv) + 2))
				f, err := s.Create(badKey, sz)
				if err == nil {
					f.Close()
				}
				ev("CreateBad", "sz", int(sz), "res", Classify(err))
				continue
			}
			switch {
			case op < 18: // Create (+ write the content pattern through the returned handle)
				sz := uint64(rng.Intn(int(capv) + 2))
				if rng.Intn(4) == 0 {
					sz = uint64(rng.Intn(2))
				}
				cc := 1 + rng.Intn(3)
				f, err := s.Create(k, sz)
				res := Classify(err)
				hid := 0
				if err == nil {
					buf := make([]byte, cc+1)
					for j := range buf {
						buf[j] = byte(cc)
					}
					if _, werr := f.Write(buf); werr != nil {
						res = "writefail"
					}
					if mem {
						hid = addH(f)
					} else {
						f.Close()
					}
				}
				ev("Create", "k", kname[k], "sz", int(sz), "c", cc, "res", res, "h", hid)
			case op < 30: // Open + read everything
				f, err := s.Open(k, sc)
				res, got, hid := Classify(err), 0, 0
				if err == nil {
					b := make([]byte, 64)
					nrd, rerr := f.ReadAt(b, 0)
					if rerr != nil && rerr != io.EOF {
						got = -2
					} else {
						got = contentOf(b[:nrd])
					}
					if mem {
						hid = addH(f)
					} else {
						f.Close()
					}
				}
				if mem && err == nil { // memory content may have been changed by handle writes: log raw bytes
					b := make([]byte, 64)
					nrd, _ := f.ReadAt(b, 0)
					ev("Open", "k", kname[k], "sc", scName[sc], "res", res, "c", got, "h", hid, "bytes", ints(b[:nrd]))
				} else {
					ev("Open", "k", kname[k], "sc", scName[sc], "res", res, "c", got, "h", hid, "bytes", []int{})
				}
			case op < 36:
				a, b := s.Has(k, sc)
				ev("Has", "k", kname[k], "sc", scName[sc], "instore", a, "inscope", b)
			case op < 41:
				sz, err := s.Stat(k, sc)
				ev("Stat", "k", kname[k], "sc", scName[sc], "res", Classify(err), "fsize", int(sz))
			case op < 52:
				err := s.MarkComplete(k)
				ev("MarkComplete", "k", kname[k], "res", Classify(err))
			case op < 60:
				err := s.Delete(k, sc)
				ev("Delete", "k", kname[k], "sc", scName[sc], "res", Classify(err))
			case op < 64:
				ev("List", "sc", scName[sc], "keys", sorted(names(s.List(sc))))
			case op < 70:
				err := s.Ban(k, sc)
				ev("Ban", "k", kname[k], "sc", scName[sc], "res", Classify(err))
			case op < 76:
				err := s.Unban(k, sc)
				ev("Unban", "k", kname[k], "sc", scName[sc], "res", Classify(err))
			case op < 83:
				suf := sufs[rng.Intn(2)]
				if forceSuf >= 0 {
					suf = sufs[forceSuf]
				}
				v := 1 + rng.Intn(3)
				err := s.SetMd(k, &vmd{Suffix: suf, V: v}, sc)
				ev("SetMd", "k", kname[k], "s", sufName[suf], "v", v, "sc", scName[sc], "res", Classify(err))
			case op < 90:
				suf := sufs[rng.Intn(2)]
				if forceSuf >= 0 {
					suf = sufs[forceSuf]
				}
				m := &vmd{Suffix: suf}
				ok, err := s.GetMd(k, m, sc)
				v := 0
				if ok {
					v = m.V
				}
				ev("GetMd", "k", kname[k], "s", sufName[suf], "sc", scName[sc], "res", Classify(err), "v", v)
			case op < 93:
				suf := sufs[rng.Intn(2)]
				if forceSuf >= 0 {
					suf = sufs[forceSuf]
				}
				err := s.DelMd(k, suf, sc)
				ev("DelMd", "k", kname[k], "s", sufName[suf], "sc", scName[sc], "res", Classify(err))
			case op < 96:
				l, err := s.ListMd(k, sc)
				var ss []string
				for _, m := range l {
					ss = append(ss, sufName[m.GetSuffix()])
				}
				ev("ListMd", "k", kname[k], "sc", scName[sc], "res", Classify(err), "sufs", sorted(ss))
			default:
				if mem {
					continue
				}
				pct := []int{0, 25, 50, 75, 99}[rng.Intn(5)]
				rb := rng.Intn(2) == 0
				util, err := s.Clean(pct, rb)
				ev("Clean", "pct", pct, "rb", rb, "res", Classify(err), "util", util)
			}
			// handle operations (memory store only)
			if mem && len(handles) > 0 && rng.Intn(2) == 0 {
				h := handles[rng.Intn(len(handles))]
				switch rng.Intn(6) {
				case 0:
					nb := rng.Intn(4)
					b := make([]byte, nb)
					nrd, err := h.f.Read(b)
					ev("HRead", "h", h.id, "n", nb, "res", Classify(err), "bytes", ints(b[:nrd]))
				case 1:
					nb, off := rng.Intn(4), rng.Intn(6)
					b := make([]byte, nb)
					nrd, err := h.f.ReadAt(b, int64(off))
					ev("HReadAt", "h", h.id, "n", nb, "off", off, "res", Classify(err), "bytes", ints(b[:nrd]))
				case 2:
					nb := rng.Intn(3)
					b := make([]byte, nb)
					for j := range b {
						b[j] = byte(5 + rng.Intn(3))
					}
					nw, err := h.f.Write(b)
					ev("HWrite", "h", h.id, "p", ints(b), "res", Classify(err), "n", nw)
				case 3:
					nb, off := rng.Intn(3), rng.Intn(6)
					b := make([]byte, nb)
					for j := range b {
						b[j] = byte(5 + rng.Intn(3))
					}
					nw, err := h.f.WriteAt(b, int64(off))
					ev("HWriteAt", "h", h.id, "p", ints(b), "off", off, "res", Classify(err), "n", nw)
				case 4:
					off, wh := rng.Intn(5)-1, rng.Intn(3)
					no, err := h.f.Seek(int64(off), wh)
					ev("HSeek", "h", h.id, "off", off, "wh", wh, "res", Classify(err), "newoff", int(no))
				case 5:
					ev("HSize", "h", h.id, "size", int(h.f.Size()))
				}
			}
		}
	})
	return nil
}

// concurrent: three goroutines on one memory.Store.  Every call is logged when issued ("call") and when it
// returned ("ret"); records are totally ordered by the tracelog mutex, so a call record precedes the call and
// a ret record follows it.  spec/store/MemHandlesConc.tla decides whether the history is linearizable.
func concurrent(c *eng.Ctx, t int, rng *rand.Rand) {
	capv := uint64(2 + rng.Intn(3))
	ms, err := memory.NewStore(&memory.Config{CapacityBytes: capv, GOMEMLIMITBytes: 8 << 30}, tally.NoopScope)
	if err != nil {
		panic(err)
	}
	keys := []string{"ka", "kb", "kc"}
	kname := map[string]string{"ka": "k1", "kb": "k2", "kc": "k3"}
	c.W.Reset(t, map[string]any{"cap": int(capv), "mem": true, "tracespec": "conc"})
	type op struct {
		name string
		k    int
		sz   int
		slot int
		n    int
		off  int
		p    []byte
	}
	// pre-generate the three programs from the seed (goroutine g owns handle slots 2g+1, 2g+2)
	progs := make([][]op, 3)
	for g := range progs {
		nops := 6 + rng.Intn(6)
		for i := 0; i < nops; i++ {
			o := op{k: rng.Intn(len(keys)), slot: 2*g + 1 + rng.Intn(2)}
			switch r := rng.Intn(10); {
			case r < 3:
				o.name, o.sz = "Create", 1+rng.Intn(2)
			case r < 4:
				o.name = "Open"
			case r < 6:
				o.name = "MarkComplete"
			case r < 7:
				o.name = "Delete"
			case r < 8:
				o.name, o.n, o.off = "HReadAt", 1+rng.Intn(2), rng.Intn(2)
			case r < 9:
				o.name, o.off, o.p = "HWriteAt", rng.Intn(2), []byte{byte(5 + rng.Intn(3))}
			default:
				o.name = "HSize"
			}
			progs[g] = append(progs[g], o)
		}
	}
	var wg sync.WaitGroup
	for g := range progs {
		wg.Add(1)
		go func(g int) {
			defer wg.Done()
			gn := fmt.Sprintf("g%d", g+1)
			handles := map[int]rw{}
			for _, o := range progs[g] {
				k := keys[o.k]
				call := func(kv ...any) {
					c.W.Ev("call", append([]any{"g", gn, "op", o.name, "k", kname[k], "sz", o.sz, "c", 0, "h", o.slot, "n", o.n, "off", o.off, "p", ints(o.p)}, kv...)...)
				}
				ret := func(res string, b []byte, n int) { c.W.Ev("ret", "g", gn, "res", res, "bytes", ints(b), "n", n) }
				switch o.name {
				case "Create":
					call()
					f, err := ms.Create(k, uint64(o.sz))
					if err == nil {
						handles[o.slot] = f
					}
					ret(Classify(err), nil, 0)
				case "Open":
					call()
					f, err := ms.Open(k)
					if err == nil {
						handles[o.slot] = f
					}
					ret(Classify(err), nil, 0)
				case "MarkComplete":
					call()
					ret(Classify(ms.MarkComplete(k)), nil, 0)
				case "Delete":
					call()
					ret(Classify(ms.Delete(k)), nil, 0)
				case "HReadAt":
					h, ok := handles[o.slot]
					if !ok {
						continue
					}
					call()
					b := make([]byte, o.n)
					nr, err := h.ReadAt(b, int64(o.off))
					ret(Classify(err), b[:nr], 0)
				case "HWriteAt":
					h, ok := handles[o.slot]
					if !ok {
						continue
					}
					call()
					nw, err := h.WriteAt(o.p, int64(o.off))
					ret(Classify(err), nil, nw)
				case "HSize":
					h, ok := handles[o.slot]
					if !ok {
						continue
					}
					call()
					ret("ok", nil, int(h.Size()))
				}
				if rng == nil {
					runtime.Gosched()
				}
			}
		}(g)
	}
	wg.Wait()
}

// storm: rounds of REAL concurrency on one memory.Store: blob A fills the store and is complete (evictable); eight
// goroutines hold handles on A and issue growing WriteAt calls while a fifth admits blob B, which evicts A.  After
// all of them have finished, the state of every old handle, of the store and of its accounting is recorded once per
// round (spec/store/MemStorm.tla).
func storm(c *eng.Ctx, t int, rng *rand.Rand) {
	const capv = 4096
	ms, err := memory.NewStore(&memory.Config{CapacityBytes: capv, GOMEMLIMITBytes: 8 << 30}, tally.NoopScope)
	if err != nil {
		panic(err)
	}
	c.W.Reset(t, map[string]any{"cap": capv, "mem": true, "tracespec": "storm"})
	rounds := c.N(1000, 1500)
	for r := 0; r < rounds; r++ {
		ka, kb := fmt.Sprintf("a%d", r), fmt.Sprintf("b%d", r)
		fa, err := ms.Create(ka, capv)
		if err != nil {
			panic(err)
		}
		fa.Write(make([]byte, 8))
		if err := ms.MarkComplete(ka); err != nil {
			panic(err)
		}
		const nh = 8
		hs := make([]rw, nh)
		for i := range hs {
			if hs[i], err = ms.Open(ka); err != nil {
				panic(err)
			}
		}
		var wg sync.WaitGroup
		start := make(chan struct{})
		for i := range hs {
			wg.Add(1)
			go func(i int) {
				defer wg.Done()
				<-start
				for off := int64(8 + i); off < 8+1024; off += 4 { // every call extends the blob
					if _, err := hs[i].WriteAt([]byte{1, 2, 3, 4}, off); err != nil {
						return
					}
				}
			}(i)
		}
		wg.Add(1)
		go func() {
			defer wg.Done()
			<-start
			if rng == nil {
				runtime.Gosched()
			}
			if fb, err := ms.Create(kb, capv); err == nil {
				fb.Close()
			}
		}()
		close(start)
		wg.Wait()
		hasA, _ := ms.Has(ka)
		hasB, _ := ms.Has(kb)
		sizes, reads, writes := make([]int, nh), make([]string, nh), make([]string, nh)
		for i, h := range hs {
			sizes[i] = int(h.Size())
			_, rerr := h.ReadAt(make([]byte, 1), 0)
			reads[i] = Classify(rerr)
			_, werr := h.WriteAt([]byte{9}, 0)
			writes[i] = Classify(werr)
		}
		reserved := 0
		if hasA {
			reserved += capv
		}
		if hasB {
			reserved += capv
		}
		c.W.Ev("Round", "hasA", hasA, "hasB", hasB, "sizes", sizes, "reads", reads, "writes", writes,
			"used", int(ms.VerifUsed()), "reserved", reserved)
		ms.Delete(ka)
		ms.Delete(kb)
	}
}
