// Package c39 records print / parse calls on kraken's identifier and metadata codecs for validation against
// spec/core/Codecs.tla (property C39).  Values and printed forms are logged as arrays of small integers
// (bytes, characters, bits, base-128 limbs).  The driver records; verdicts come from the specification.
package c39

import (
	"bytes"
	"encoding/hex"
	"encoding/json"
	"fmt"
	"math/rand"
	"sort"
	"time"

	"github.com/willf/bitset"

	"github.com/uber/kraken/core"
	"github.com/uber/kraken/gen/go/proto/p2p"
	"github.com/uber/kraken/lib/store/metadata"
	"github.com/uber/kraken/lib/torrent/scheduler/conn"
	"github.com/uber/kraken/lib/torrent/storage/agentstorage"

	"kvh/internal/eng"
)

func init() { eng.Register("c39", run) }

func bi(b []byte) []int {
	out := make([]int, len(b))
	for i, x := range b {
		out[i] = int(x)
	}
	return out
}
func si(s string) []int { return bi([]byte(s)) }
func ib(v []int) []byte {
	out := make([]byte, len(v))
	for i, x := range v {
		out[i] = byte(x)
	}
	return out
}

var empty = []int{}

// limbs: <<neg>> \o base-128 little-endian limbs of |t| (normalized)
func latVal(t int64) []int {
	neg, mag := 0, uint64(t)
	if t < 0 {
		neg, mag = 1, uint64(-(t+1))+1
	}
	out := []int{neg}
	for mag > 0 {
		out = append(out, int(mag%128))
		mag /= 128
	}
	return out
}

func bitsOf(b *bitset.BitSet) []int {
	out := make([]int, b.Len())
	for i := range out {
		if b.Test(uint(i)) {
			out[i] = 1
		}
	}
	return out
}
func mkBits(v []int) *bitset.BitSet {
	b := bitset.New(uint(len(v)))
	for i, x := range v {
		if x != 0 {
			b.Set(uint(i))
		}
	}
	return b
}

type rec struct{ c *eng.Ctx }

func (r rec) print(k string, v any, out any, ok bool) {
	r.c.W.Ev("Print", "k", k, "v", v, "out", out, "ok", ok)
	r.c.Inc("prints", 1)
}
func (r rec) parse(k, api string, in any, ok bool, v any, aux []int) {
	if !ok {
		v, aux = empty, empty
		r.c.Inc("refused", 1)
	}
	r.c.W.Ev("Parse", "k", k, "api", api, "in", in, "ok", ok, "v", v, "aux", aux)
	r.c.Inc("parses", 1)
}

// ---- per-kind real calls

func (r rec) parseDigest(in []byte) {
	d, err := core.ParseSHA256Digest(string(in))
	r.parse("digest", "parse", bi(in), err == nil, si(d.Hex()), si(d.String()))
}
func (r rec) parseDigestHex(in []byte) {
	d, err := core.NewSHA256DigestFromHex(string(in))
	r.parse("digesthex", "fromhex", bi(in), err == nil, si(d.Hex()), si(d.String()))
	verr := core.ValidateSHA256(string(in))
	r.parse("digesthex", "validate", bi(in), verr == nil, bi(in), si("sha256:"+string(in)))
}
func (r rec) parseDigestJSON(in []byte, scan bool) {
	var d core.Digest
	var err error
	api := "unmarshal"
	if scan {
		api = "scan"
		err = d.Scan(in)
	} else {
		err = json.Unmarshal(in, &d)
	}
	r.parse("digestjson", api, bi(in), err == nil, si(d.Hex()), si(d.String()))
}
func (r rec) parseDigestList(in []byte) {
	var l core.DigestList
	err := l.Scan(in)
	v := make([][]int, 0, len(l))
	for _, d := range l {
		v = append(v, si(d.Hex()))
	}
	r.parse("digestlist", "scan", bi(in), err == nil, v, empty)
}
func (r rec) parseInfoHash(in []byte) {
	h, err := core.NewInfoHashFromHex(string(in))
	r.parse("infohash", "fromhex", bi(in), err == nil, bi(h.Bytes()), empty)
}
func (r rec) parsePeerID(in []byte) {
	p, err := core.NewPeerID(string(in))
	r.parse("peerid", "new", bi(in), err == nil, bi(p[:]), empty)
}
func (r rec) parseStatus(in []byte) {
	v, err := agentstorage.VerifC39DeserializePieceStatuses(in)
	if v == nil {
		v = empty
	}
	r.parse("status", "deserialize", bi(in), err == nil, v, empty)
}
func (r rec) parseLAT(in []byte) {
	var l metadata.LastAccessTime
	err := l.Deserialize(in)
	var v []int
	if err == nil {
		v = latVal(l.Time.Unix())
	}
	r.parse("lat", "deserialize", bi(in), err == nil, v, empty)
}
func (r rec) parsePersist(in []byte) {
	var p metadata.Persist
	err := p.Deserialize(in)
	v := []int{0}
	if p.Value {
		v = []int{1}
	}
	r.parse("persist", "deserialize", bi(in), err == nil, v, empty)
}
func (r rec) parseBitfield(in []byte) {
	b := bitset.New(0)
	err := b.UnmarshalBinary(in)
	var v []int
	if err == nil {
		v = bitsOf(b)
	}
	r.parse("bitfield", "unmarshal", bi(in), err == nil, v, empty)
}

func (r rec) rtDigest(h string) {
	d, err := core.NewSHA256DigestFromHex(h)
	r.print("digest", si(h), si(d.String()), err == nil)
	r.parseDigest([]byte(d.String()))
	r.print("digesthex", si(h), si(d.Hex()), err == nil && d.Algo() == core.SHA256)
	r.parseDigestHex([]byte(d.Hex()))
	j, jerr := json.Marshal(d)
	val, verr := d.Value()
	vb, _ := val.([]byte)
	r.print("digestjson", si(h), bi(j), err == nil && jerr == nil && verr == nil && bytes.Equal(vb, j))
	r.parseDigestJSON(j, false)
	r.parseDigestJSON(j, true)
}
func (r rec) rtDigestList(hs []string) []byte {
	l := core.DigestList{}
	v := make([][]int, 0)
	ok := true
	for _, h := range hs {
		d, err := core.NewSHA256DigestFromHex(h)
		ok = ok && err == nil
		l = append(l, d)
		v = append(v, si(h))
	}
	val, err := l.Value()
	out, _ := val.([]byte)
	r.print("digestlist", v, bi(out), ok && err == nil)
	r.parseDigestList(out)
	return out
}
func (r rec) rtInfoHash(b []byte) {
	var h core.InfoHash
	copy(h[:], b)
	r.print("infohash", bi(b), si(h.Hex()), h.String() == h.Hex() && bytes.Equal(h.Bytes(), b))
	r.parseInfoHash([]byte(h.Hex()))
}
func (r rec) rtPeerID(b []byte) {
	var p core.PeerID
	copy(p[:], b)
	r.print("peerid", bi(b), si(p.String()), true)
	r.parsePeerID([]byte(p.String()))
}
func (r rec) rtStatus(v []int) {
	out, err := agentstorage.VerifC39SerializePieceStatuses(v)
	r.print("status", v, bi(out), err == nil)
	r.parseStatus(out)
}
func (r rec) rtLAT(t int64) {
	out, err := metadata.NewLastAccessTime(time.Unix(t, 0)).Serialize()
	r.print("lat", latVal(t), bi(out), err == nil)
	r.parseLAT(out)
}
func (r rec) rtPersist(b bool) {
	out, err := metadata.NewPersist(b).Serialize()
	v := []int{0}
	if b {
		v = []int{1}
	}
	r.print("persist", v, bi(out), err == nil)
	r.parsePersist(out)
}
func (r rec) rtBitfield(v []int) {
	out, err := mkBits(v).MarshalBinary()
	r.print("bitfield", v, bi(out), err == nil)
	r.parseBitfield(out)
}

type remote struct {
	peer []byte
	bits []int
}

// wireOf renders a received / constructed bitfield message as the "printed form" of kind handshake.
func wireOf(m *p2p.BitfieldMessage) []any {
	keys := make([]string, 0, len(m.RemoteBitfieldBytes))
	for k := range m.RemoteBitfieldBytes {
		keys = append(keys, k)
	}
	sort.Strings(keys)
	rem := make([]any, 0, len(keys))
	for _, k := range keys {
		rem = append(rem, []any{si(k), bi(m.RemoteBitfieldBytes[k])})
	}
	return []any{si(m.PeerID), si(m.InfoHash), si(m.Name), bi(m.BitfieldBytes), rem, si(m.Namespace)}
}
func (r rec) parseHandshake(m *p2p.BitfieldMessage) {
	hs, err := conn.VerifC39FromWire(&p2p.Message{Type: p2p.Message_BITFIELD, Bitfield: m})
	var v []any
	if err == nil {
		peers := make([]core.PeerID, 0, len(hs.RemoteBitfields))
		for p := range hs.RemoteBitfields {
			peers = append(peers, p)
		}
		sort.Slice(peers, func(i, j int) bool { return bytes.Compare(peers[i][:], peers[j][:]) < 0 })
		rem := make([]any, 0, len(peers))
		for _, p := range peers {
			rem = append(rem, []any{bi(p[:]), bitsOf(hs.RemoteBitfields[p])})
		}
		v = []any{bi(hs.PeerID[:]), bi(hs.InfoHash.Bytes()), si(hs.Digest.Hex()), bitsOf(hs.Bitfield), rem, si(hs.Namespace)}
	}
	r.parse("handshake", "fromwire", wireOf(m), err == nil, v, empty)
}
func (r rec) rtHandshake(peer, ih []byte, name string, bits []int, rems []remote, ns string) *p2p.BitfieldMessage {
	sort.Slice(rems, func(i, j int) bool { return bytes.Compare(rems[i].peer, rems[j].peer) < 0 })
	var p core.PeerID
	copy(p[:], peer)
	var h core.InfoHash
	copy(h[:], ih)
	d, derr := core.NewSHA256DigestFromHex(name)
	rb := conn.RemoteBitfields{}
	remv := make([]any, 0, len(rems))
	for _, x := range rems {
		var rp core.PeerID
		copy(rp[:], x.peer)
		rb[rp] = mkBits(x.bits)
		remv = append(remv, []any{bi(x.peer), x.bits})
	}
	v := []any{bi(peer), bi(ih), si(name), bits, remv, si(ns)}
	msg, err := conn.VerifC39ToWire(conn.VerifC39Handshake{PeerID: p, Digest: d, InfoHash: h, Bitfield: mkBits(bits), RemoteBitfields: rb, Namespace: ns})
	var got *p2p.Message
	if err == nil {
		got, err = conn.VerifC39Transmit(msg) // real framing + protobuf encoding over a pipe
	}
	if err != nil || got.GetBitfield() == nil {
		r.print("handshake", v, []any{empty, empty, empty, empty, []any{}, empty}, false)
		return nil
	}
	r.print("handshake", v, wireOf(got.GetBitfield()), derr == nil && got.Type == p2p.Message_BITFIELD)
	r.parseHandshake(got.GetBitfield())
	return got.GetBitfield()
}

// ---- hostile inputs: every single-character substitution (by each of subs), deletion and insertion, plus truncations
func corruptions(valid []byte, subs []byte, each func([]byte)) {
	n := len(valid)
	for i := 0; i < n; i++ {
		for _, c := range subs {
			if valid[i] == c {
				continue
			}
			x := append([]byte(nil), valid...)
			x[i] = c
			each(x)
		}
		each(append(append([]byte(nil), valid[:i]...), valid[i+1:]...))
	}
	for i := 0; i <= n; i += 1 + n/24 {
		x := append(append(append([]byte(nil), valid[:i]...), subs[i%len(subs)]), valid[i:]...)
		each(x)
		each(append([]byte(nil), valid[:i]...))
	}
	each(append(append([]byte(nil), valid...), valid...))
}

// paddings: every substitute and every kind of white space before, after and around the valid text (plain-text parsers only:
// JSON legitimately tolerates white space around a value)
func paddings(valid []byte, subs []byte, each func([]byte)) {
	for _, c := range append(append([]byte(nil), subs...), ' ', '\n', '\t', '\r', 0) {
		each(append([]byte{c}, valid...))
		each(append(append([]byte(nil), valid...), c))
		each(append(append([]byte{c}, valid...), c))
	}
	each(append(append([]byte(nil), valid...), '\r', '\n'))
}

func randHex(rng *rand.Rand, n int, mixed bool) string {
	const lo, up = "0123456789abcdef", "0123456789ABCDEF"
	b := make([]byte, n)
	for i := range b {
		if mixed && rng.Intn(3) == 0 {
			b[i] = up[rng.Intn(16)]
		} else {
			b[i] = lo[rng.Intn(16)]
		}
	}
	return string(b)
}
func randBytes(rng *rand.Rand, n int) []byte {
	b := make([]byte, n)
	rng.Read(b)
	return b
}
func randBits(rng *rand.Rand, n int) []int {
	v := make([]int, n)
	for i := range v {
		v[i] = rng.Intn(2)
	}
	return v
}
func allVectors(alphabet, maxLen int, each func([]int)) {
	var rec func(cur []int)
	rec = func(cur []int) {
		each(append([]int{}, cur...))
		if len(cur) == maxLen {
			return
		}
		for a := 0; a < alphabet; a++ {
			rec(append(cur, a))
		}
	}
	rec(nil)
}

func randTime(rng *rand.Rand) int64 {
	switch rng.Intn(5) {
	case 0:
		return int64(rng.Intn(200)) - 100
	case 1:
		return 1_500_000_000 + int64(rng.Intn(600_000_000)) // around now
	case 2:
		k := uint(rng.Intn(55))
		return (int64(1) << k) + int64(rng.Intn(3)) - 1
	case 3:
		k := uint(rng.Intn(55))
		return -(int64(1) << k) + int64(rng.Intn(3)) - 1
	default:
		return rng.Int63n(1<<55) - (1 << 54)
	}
}

const nFixed = 14

func run(c *eng.Ctx) error {
	r := rec{c}
	nRand := c.N(30, 400)
	subsHex := []byte{'g', 'G', ':', ' ', 'A', '0', 0xff}
	if c.Quick() {
		subsHex = []byte{'g', ':', 'A', 0xff}
	}
	c.Stats["exhaustive"] = true
	c.Traces(nFixed+nRand, func(t int, rng *rand.Rand) {
		kind := "random"
		if t < nFixed {
			kind = []string{"digest-corrupt", "digesthex-corrupt", "infohash-corrupt", "peerid-corrupt", "json", "status01", "status012",
				"bitfield-all", "bitfield-edge", "lat", "persist", "handshake", "handshake-bad", "list-corrupt"}[t]
		}
		c.W.Reset(t, map[string]any{"kind": kind})
		// a panic inside the code under test is recorded as an event no specification action explains (=> rejected, replayable)
		defer func() {
			if e := recover(); e != nil {
				c.W.Ev("Panic", "what", fmt.Sprint(e))
			}
		}()
		switch kind {
		case "digest-corrupt":
			h := randHex(rng, 64, false)
			r.rtDigest(h)
			r.rtDigest(randHex(rng, 64, true)) // upper-case hexadecimal characters are hexadecimal
			corruptions([]byte("sha256:"+h), append(subsHex, '5'), r.parseDigest)
			paddings([]byte("sha256:"+h), subsHex, r.parseDigest)
			for _, s := range []string{"", ":", "sha256:", "sha256", "sha1:" + h[:40], "sha512:" + h + h, "SHA256:" + h, h, "sha256:" + h + ":", ":sha256:" + h, "sha256::" + h[1:]} {
				r.parseDigest([]byte(s))
			}
		case "digesthex-corrupt":
			h := randHex(rng, 64, false)
			r.rtDigest(h)
			corruptions([]byte(h), subsHex, r.parseDigestHex)
			paddings([]byte(h), subsHex, r.parseDigestHex)
			r.parseDigestHex(nil)
		case "infohash-corrupt":
			b := randBytes(rng, 20)
			r.rtInfoHash(b)
			r.rtInfoHash(make([]byte, 20))
			r.rtInfoHash(bytes.Repeat([]byte{0xff}, 20))
			corruptions([]byte(hex.EncodeToString(b)), subsHex, r.parseInfoHash)
			paddings([]byte(hex.EncodeToString(b)), subsHex, r.parseInfoHash)
			r.parseInfoHash([]byte(randHex(rng, 40, true)))
			r.parseInfoHash(nil)
		case "peerid-corrupt":
			b := randBytes(rng, 20)
			r.rtPeerID(b)
			r.rtPeerID(make([]byte, 20))
			r.rtPeerID(bytes.Repeat([]byte{0xff}, 20))
			corruptions([]byte(hex.EncodeToString(b)), subsHex, r.parsePeerID)
			paddings([]byte(hex.EncodeToString(b)), subsHex, r.parsePeerID)
			r.parsePeerID([]byte(randHex(rng, 40, true)))
			r.parsePeerID(nil)
			for i := 0; i < 40; i++ {
				x, y := randBytes(rng, 20), randBytes(rng, 20)
				if i%4 == 0 {
					copy(y, x[:rng.Intn(21)])
				}
				var px, py core.PeerID
				copy(px[:], x)
				copy(py[:], y)
				c.W.Ev("Less", "a", bi(x), "b", bi(y), "res", px.LessThan(py))
				c.W.Ev("Less", "a", bi(y), "b", bi(x), "res", py.LessThan(px))
			}
		case "json":
			for i := 0; i < 6; i++ {
				r.rtDigest(randHex(rng, 64, i%2 == 1))
			}
			h := randHex(rng, 64, false)
			corruptions([]byte(`"sha256:`+h+`"`), []byte{'g', 'x', 0xff, '\''}, func(b []byte) { r.parseDigestJSON(b, false) })
			for _, s := range []string{``, `""`, `"`, `null`, `7`, `{}`, `["sha256:` + h + `"]`, `"sha256:` + h + ``} {
				r.parseDigestJSON([]byte(s), true)
			}
			for n := 0; n <= 4; n++ {
				hs := make([]string, n)
				for i := range hs {
					hs[i] = randHex(rng, 64, false)
				}
				r.rtDigestList(hs)
			}
		case "list-corrupt":
			out := r.rtDigestList([]string{randHex(rng, 64, false), randHex(rng, 64, false)})
			corruptions(out, []byte{'g', ';', 0xff}, r.parseDigestList)
			for _, s := range []string{``, `[`, `]`, `{}`, `[,]`, `[""]`, `"[]"`} {
				r.parseDigestList([]byte(s))
			}
		case "status01":
			allVectors(2, 8, r.rtStatus)
		case "status012":
			allVectors(3, 5, r.rtStatus)
			for i := 0; i < 256; i++ {
				r.parseStatus([]byte{byte(i)})
			}
			for i := 0; i < 60; i++ {
				r.parseStatus(randBytes(rng, rng.Intn(12)))
			}
		case "bitfield-all":
			allVectors(2, 8, r.rtBitfield)
		case "bitfield-edge":
			for _, n := range []int{63, 64, 65, 127, 128, 129, 191, 192, 193, 256} {
				r.rtBitfield(randBits(rng, n))
				ones := make([]int, n)
				for i := range ones {
					ones[i] = 1
				}
				r.rtBitfield(ones)
				last := make([]int, n)
				last[n-1] = 1
				r.rtBitfield(last)
			}
			good, _ := mkBits(randBits(rng, 70)).MarshalBinary()
			for cut := 0; cut <= len(good); cut++ {
				r.parseBitfield(good[:cut]) // every truncation
			}
			r.parseBitfield(append(append([]byte(nil), good...), 1, 2, 3)) // trailing bytes
			for i := 0; i < 40; i++ {
				x := randBytes(rng, 8+rng.Intn(40))
				x[0], x[1], x[2], x[3], x[4], x[5], x[6] = 0, 0, 0, 0, 0, 0, byte(rng.Intn(2)) // length < 512 bits
				r.parseBitfield(x)
			}
		case "lat":
			ts := []int64{0, 1, -1, 63, 64, -63, -64, -65, 127, 128, 8191, 8192, -8192, -8193, 1<<31 - 1, 1 << 31, -(1 << 31), 1<<55 - 1, -(1 << 55), 1<<54 + 12345, 1700000000, 253402300799}
			for _, t := range ts {
				r.rtLAT(t)
			}
			for k := uint(0); k < 55; k++ {
				r.rtLAT(int64(1) << k)
				r.rtLAT(-(int64(1) << k))
				r.rtLAT(int64(1)<<k - 1)
			}
			for i := 0; i < 256; i++ {
				r.parseLAT([]byte{byte(i)})
			}
			r.parseLAT(nil)
			for n := 1; n <= 12; n++ {
				x := bytes.Repeat([]byte{0xff}, n)
				r.parseLAT(x)
				for _, last := range []byte{0, 1, 2, 0x7f} {
					y := append([]byte(nil), x...)
					y[n-1] = last
					r.parseLAT(y)
				}
			}
			for i := 0; i < 150; i++ {
				r.parseLAT(randBytes(rng, rng.Intn(13)))
			}
		case "persist":
			r.rtPersist(true)
			r.rtPersist(false)
			for i := 0; i < 256; i++ {
				r.parsePersist([]byte{byte(i)})
			}
			for _, s := range []string{"", "true", "false", "TRUE", "FALSE", "True", "False", "tRUE", "yes", "no", "on", "true ", " true", "truefalse", "01", "1\n", "T", "F", "t", "f", "TrUe", "nil"} {
				r.parsePersist([]byte(s))
			}
		case "handshake", "handshake-bad":
			peer, ih, name := randBytes(rng, 20), randBytes(rng, 20), randHex(rng, 64, false)
			var good *p2p.BitfieldMessage
			for i := 0; i < 12; i++ {
				nb := []int{0, 1, 8, 63, 64, 65, 200}[rng.Intn(7)]
				var rems []remote
				for j := rng.Intn(4); j > 0; j-- {
					rems = append(rems, remote{randBytes(rng, 20), randBits(rng, nb)})
				}
				ns := []string{"", "library/redis", "a/b:c"}[rng.Intn(3)]
				if m := r.rtHandshake(randBytes(rng, 20), randBytes(rng, 20), randHex(rng, 64, false), randBits(rng, nb), rems, ns); m != nil && len(m.RemoteBitfieldBytes) > 0 {
					good = m
				}
			}
			if kind == "handshake" {
				break
			}
			if good == nil {
				good = r.rtHandshake(peer, ih, name, randBits(rng, 9), []remote{{randBytes(rng, 20), randBits(rng, 9)}}, "ns")
			}
			clone := func() *p2p.BitfieldMessage {
				m := *good
				m.RemoteBitfieldBytes = map[string][]byte{}
				for k, v := range good.RemoteBitfieldBytes {
					m.RemoteBitfieldBytes[k] = v
				}
				return &m
			}
			mut := func(s string) []string {
				return []string{s[1:], s + "0", "g" + s[1:], s[:len(s)-1] + "G", "", s[:len(s)/2], fmt.Sprintf("%s", bytes.ToUpper([]byte(s)))}
			}
			for _, s := range mut(good.PeerID) {
				m := clone()
				m.PeerID = s
				r.parseHandshake(m)
			}
			for _, s := range mut(good.InfoHash) {
				m := clone()
				m.InfoHash = s
				r.parseHandshake(m)
			}
			for _, s := range mut(good.Name) {
				m := clone()
				m.Name = s
				r.parseHandshake(m)
			}
			for cut := 0; cut < len(good.BitfieldBytes); cut += 3 {
				m := clone()
				m.BitfieldBytes = good.BitfieldBytes[:cut]
				r.parseHandshake(m)
			}
			for k, v := range good.RemoteBitfieldBytes {
				m := clone()
				m.RemoteBitfieldBytes[k] = v[:len(v)-1]
				r.parseHandshake(m)
				m = clone()
				delete(m.RemoteBitfieldBytes, k)
				m.RemoteBitfieldBytes[k[1:]] = v
				r.parseHandshake(m)
				break
			}
		default:
			for i := 0; i < 12; i++ {
				switch rng.Intn(9) {
				case 0:
					r.rtDigest(randHex(rng, 64, rng.Intn(2) == 0))
				case 1:
					r.rtInfoHash(randBytes(rng, 20))
					r.rtPeerID(randBytes(rng, 20))
				case 2:
					n := rng.Intn(40)
					v := make([]int, n)
					for j := range v {
						v[j] = rng.Intn(3)
					}
					r.rtStatus(v)
				case 3:
					r.rtLAT(randTime(rng))
				case 4:
					r.rtBitfield(randBits(rng, rng.Intn(300)))
				case 5:
					r.parseLAT(randBytes(rng, rng.Intn(12)))
					r.parsePersist(randBytes(rng, rng.Intn(6)))
				case 6:
					// a random string over a digest-like alphabet and a lightly damaged valid digest
					h := []byte("sha256:" + randHex(rng, 64, false))
					if rng.Intn(2) == 0 {
						h[rng.Intn(len(h))] = "0aF:gz"[rng.Intn(6)]
					}
					r.parseDigest(h)
					x := []byte(randHex(rng, 38+rng.Intn(5), true))
					r.parseInfoHash(x)
					r.parsePeerID(x)
				case 7:
					hs := make([]string, rng.Intn(4))
					for j := range hs {
						hs[j] = randHex(rng, 64, false)
					}
					r.rtDigestList(hs)
				default:
					nb := rng.Intn(130)
					var rems []remote
					for j := rng.Intn(3); j > 0; j-- {
						rems = append(rems, remote{randBytes(rng, 20), randBits(rng, nb)})
					}
					r.rtHandshake(randBytes(rng, 20), randBytes(rng, 20), randHex(rng, 64, false), randBits(rng, nb), rems, "ns")
				}
			}
		}
	})
	return nil
}
