// Command kvh drives the real kraken code and records ndjson traces for TLC.
package main

import (
	"flag"
	"fmt"
	"os"

	"go.uber.org/zap"

	"github.com/uber/kraken/utils/log"

	"kvh/internal/eng"

	_ "kvh/engines/all"
)

func main() {
	if len(os.Args) < 2 {
		fmt.Println("usage: kvh <engine> -seed N -tier quick|thorough -out DIR [-only T]; engines:", eng.Names())
		os.Exit(2)
	}
	if os.Getenv("KVH_LOG") == "" {
		log.SetGlobalLogger(zap.NewNop().Sugar())
	}
	name := os.Args[1]
	fs := flag.NewFlagSet(name, flag.ExitOnError)
	seed := fs.Int64("seed", 1, "seed")
	tier := fs.String("tier", "quick", "tier")
	out := fs.String("out", "", "output dir")
	only := fs.Int("only", -1, "only this trace id")
	fs.Parse(os.Args[2:])
	if *out == "" {
		fmt.Println("need -out")
		os.Exit(2)
	}
	c := &eng.Ctx{Seed: *seed, Tier: *tier, Out: *out, Only: *only, Args: fs.Args()}
	if err := eng.Run(name, c); err != nil {
		fmt.Println("ENGINE-ERROR:", err)
		os.Exit(2)
	}
}
